//! Independent oracle of C02 for one decoded item, given the bytes of the stream it was decoded from.
//! Nothing here calls into the decoder: parameters are re-parsed from the source bytes with exact
//! decimal arithmetic (`clamp_dec`), colours by a reference reading of the SGR parameters.
use surf_n_term::{
    Color, Face, FaceModify, KeyMod, KeyName, RGBA, TerminalCommand,
    terminal::{TerminalColor, TerminalEvent},
};

/// a property failure: (what, expected, got)
pub type Fail = (String, String, String);

fn fail(out: &mut Vec<Fail>, what: &str, expected: impl ToString, got: impl ToString) {
    out.push((what.to_string(), expected.to_string(), got.to_string()));
}

/// exact value of a decimal digit string of any length, clamped at `u64::MAX` (= `usize::MAX`);
/// `None` when a byte is not a digit. The empty string is 0.
pub fn clamp_dec(digits: &[u8]) -> Option<u64> {
    if !digits.iter().all(|b| b.is_ascii_digit()) {
        return None;
    }
    let sig: Vec<u8> = digits.iter().cloned().skip_while(|b| *b == b'0').collect();
    if sig.len() > 20 {
        return Some(u64::MAX);
    }
    let mut v: u128 = 0;
    for d in sig {
        v = v * 10 + (d - b'0') as u128;
    }
    Some(if v > u64::MAX as u128 { u64::MAX } else { v as u64 })
}

/// a transmitted decimal parameter: its exact value when it fits 64 bits
#[derive(Clone, Copy, Debug)]
pub struct Param {
    pub exact: Option<u64>,
}

pub fn param(digits: &[u8]) -> Option<Param> {
    if !digits.iter().all(|b| b.is_ascii_digit()) {
        return None;
    }
    let sig: Vec<u8> = digits.iter().cloned().skip_while(|b| *b == b'0').collect();
    if sig.len() > 20 {
        return Some(Param { exact: None });
    }
    let mut v: u128 = 0;
    for d in sig {
        v = v * 10 + (d - b'0') as u128;
    }
    Some(Param { exact: if v > u64::MAX as u128 { None } else { Some(v as u64) } })
}

/// the maxima a field may be clamped at (C02 allows any clamp; the library documents `usize::MAX`)
const CLAMPS: [u64; 3] = [65535, 4294967295, u64::MAX];

/// a numeric field is the transmitted value, or that value clamped at the maximum of some field width — never
/// a wrapped value
pub fn plain_ok(got: u64, p: Param) -> bool {
    p.exact == Some(got) || CLAMPS.iter().any(|c| got == *c && p.exact.map_or(true, |e| e > *c))
}

/// a 0-based coordinate decoded from a 1-based parameter: value minus one, or clamped; a zero parameter may be
/// clamped to 0 (or the report may be unrecognised, in which case there is no such event) — never underflowed
pub fn coord_ok(got: u64, p: Param) -> bool {
    match p.exact {
        Some(0) => got == 0,
        Some(e) => got == e - 1 || CLAMPS.iter().any(|c| e > *c && (got == *c || got == *c - 1)),
        None => CLAMPS.iter().any(|c| got == *c || got == *c - 1),
    }
}

fn show_param(p: Param) -> String {
    match p.exact {
        Some(e) => e.to_string(),
        None => "a value above 2^64".to_string(),
    }
}

pub fn is_scalar(c: u32) -> bool {
    c < 0x110000 && !(0xD800..=0xDFFF).contains(&c)
}

fn split(data: &[u8], sep: u8) -> Vec<&[u8]> {
    data.split(|b| *b == sep).collect()
}

/// `ESC [ <private>? params intermediates final`: (private marker, parameter bytes, intermediates, final)
pub fn csi(seg: &[u8]) -> Option<(Option<u8>, &[u8], &[u8], u8)> {
    if seg.len() < 3 || seg[0] != 0x1b || seg[1] != b'[' {
        return None;
    }
    let body = &seg[2..];
    let (private, rest) = match body[0] {
        b'<' | b'=' | b'>' | b'?' => (Some(body[0]), &body[1..]),
        _ => (None, body),
    };
    let np = rest.iter().take_while(|b| (0x30..=0x3b).contains(*b)).count();
    let ni = rest[np..].iter().take_while(|b| (0x20..=0x2f).contains(*b)).count();
    if np + ni + 1 != rest.len() {
        return None;
    }
    let fin = rest[np + ni];
    if !(0x40..=0x7e).contains(&fin) {
        return None;
    }
    Some((private, &rest[..np], &rest[np..np + ni], fin))
}

/// The raw modifier word of a `KeyMod`, read without any of its accessors: the derived `Hash` implementation
/// feeds the private `bits: u32` to the hasher as it is.
pub fn mod_bits(m: KeyMod) -> u64 {
    use std::hash::{Hash, Hasher};
    struct Grab(Vec<u8>);
    impl Hasher for Grab {
        fn finish(&self) -> u64 {
            0
        }
        fn write(&mut self, bytes: &[u8]) {
            self.0.extend_from_slice(bytes);
        }
    }
    let mut g = Grab(Vec::new());
    m.hash(&mut g);
    let mut v: u64 = 0;
    for (i, b) in g.0.iter().take(8).enumerate() {
        v |= (*b as u64) << (8 * i);
    }
    if cfg!(target_endian = "big") {
        v = (v as u32).swap_bytes() as u64;
    }
    v
}

/// the nine defined flags: shift alt ctrl super hyper meta capslock numlock press (`KeyMod::ALL`)
pub const MOD_ALL: u64 = 0x1ff;

/// well-formedness of a modifier set: nothing outside the defined flags
fn check_mod_range(out: &mut Vec<Fail>, what: &str, m: KeyMod) {
    let raw = mod_bits(m);
    if raw & !MOD_ALL != 0 {
        fail(out, "modifier word has bits outside the defined modifier flags", format!("{what}: bits within {MOD_ALL:#x}"), format!("{raw:#x}"));
    }
}

// ---------------------------------------------------------------- SGR colours

#[derive(Clone, Debug, PartialEq)]
enum Expect {
    /// never mentioned: stays unset
    Untouched,
    /// cleared by a reset
    Cleared,
    /// some colour (named or palette entry; which one is not C02's business)
    SomeAny,
    Exact(u8, u8, u8),
    /// a component or index was out of range: unrecognised (`None`) or clamped, never wrapped
    OutOfRange { clamped: Option<(u8, u8, u8)>, wrapped: Option<(u8, u8, u8)> },
    /// the reference reading does not cover what happened to this target
    Unknown,
}

fn rgb_of(c: RGBA) -> (u8, u8, u8, u8) {
    let [r, g, b, a] = c.to_rgba();
    (r, g, b, a)
}

fn check_color(out: &mut Vec<Fail>, target: &str, exp: &Expect, got: Option<RGBA>, params: &[u8]) {
    let shown = format!("{target} of SGR `{}`", String::from_utf8_lossy(params));
    match exp {
        Expect::Unknown => {}
        Expect::Untouched | Expect::Cleared => {
            if got.is_some() {
                fail(out, "SGR colour set although no colour parameter selects it", format!("{shown}: none"), format!("{:?}", got.map(rgb_of)));
            }
        }
        Expect::SomeAny => {
            if got.is_none() {
                fail(out, "SGR colour missing", format!("{shown}: some colour"), "none");
            }
        }
        Expect::Exact(r, g, b) => {
            if got.map(rgb_of) != Some((*r, *g, *b, 255)) {
                fail(out, "SGR true colour differs from the transmitted components", format!("{shown}: ({r},{g},{b},255)"), format!("{:?}", got.map(rgb_of)));
            }
        }
        Expect::OutOfRange { clamped, wrapped } => {
            if let Some(c) = got {
                let (r, g, b, _) = rgb_of(c);
                if Some((r, g, b)) != *clamped && Some((r, g, b)) == *wrapped {
                    fail(out, "SGR colour component above 255 wrapped around", format!("{shown}: unrecognised or clamped {:?}", clamped), format!("({r},{g},{b})"));
                }
            }
        }
    }
}

struct SgrRef {
    fg: Expect,
    bg: Expect,
    ul: Expect,
}

fn palette(n: u64) -> Option<(u8, u8, u8)> {
    if n < 16 {
        None
    } else if n < 232 {
        let i = n - 16;
        let lv = |x: u64| if x == 0 { 0u8 } else { (55 + 40 * x) as u8 };
        Some((lv(i / 36), lv(i / 6 % 6), lv(i % 6)))
    } else if n < 256 {
        let v = (8 + 10 * (n - 232)) as u8;
        Some((v, v, v))
    } else {
        None
    }
}

fn true_color(comps: &[u64]) -> Expect {
    if comps.iter().all(|c| *c <= 255) {
        Expect::Exact(comps[0] as u8, comps[1] as u8, comps[2] as u8)
    } else {
        let cl = |c: u64| c.min(255) as u8;
        let wr = |c: u64| (c % 256) as u8;
        Expect::OutOfRange {
            clamped: Some((cl(comps[0]), cl(comps[1]), cl(comps[2]))),
            wrapped: Some((wr(comps[0]), wr(comps[1]), wr(comps[2]))),
        }
    }
}

fn indexed(n: u64) -> Expect {
    if n < 16 {
        Expect::SomeAny
    } else if n < 256 {
        let (r, g, b) = palette(n).unwrap();
        Expect::Exact(r, g, b)
    } else {
        Expect::OutOfRange { clamped: palette(255), wrapped: palette(n % 256) }
    }
}

/// reference reading of SGR parameters as far as colours go; `None`: a shape this reading does not cover
fn sgr_reference(params: &[u8]) -> Option<SgrRef> {
    let mut st = SgrRef { fg: Expect::Untouched, bg: Expect::Untouched, ul: Expect::Untouched };
    let groups = split(params, b';');
    let mut i = 0;
    let plain = |g: &[u8]| -> Option<u64> { if g.is_empty() { None } else { clamp_dec(g) } };
    // effect of an ordinary code on the colours
    fn ordinary(st: &mut SgrRef, code: u64) {
        match code {
            0 => *st = SgrRef { fg: Expect::Cleared, bg: Expect::Cleared, ul: Expect::Cleared },
            30..=37 | 90..=97 => st.fg = Expect::SomeAny,
            40..=47 | 100..=107 => st.bg = Expect::SomeAny,
            39 => st.fg = Expect::Unknown,
            49 => st.bg = Expect::Unknown,
            59 => st.ul = Expect::Unknown,
            _ => {}
        }
    }
    fn set(st: &mut SgrRef, code: u64, e: Expect) {
        match code {
            38 => st.fg = e,
            48 => st.bg = e,
            _ => st.ul = e,
        }
    }
    while i < groups.len() {
        let g = groups[i];
        i += 1;
        let subs = split(g, b':');
        // the code of a group: an empty one counts as 0 (reset); not a number: not covered
        let code = clamp_dec(subs[0])?;
        if subs.len() == 1 {
            match code {
                38 | 48 | 58 => {
                    // semicolon form: the specification continues in the following groups; when the sequence
                    // ends inside it, what the target becomes is not judged (and nothing follows)
                    let Some(mode_g) = groups.get(i) else {
                        set(&mut st, code, Expect::Unknown);
                        return Some(st);
                    };
                    if mode_g.contains(&b':') {
                        return None;
                    }
                    let mode = plain(mode_g)?;
                    let e = match mode {
                        2 => {
                            if groups.len() < i + 4 {
                                // the sequence ends inside the specification: judged only when no component was
                                // sent at all (components of an abandoned specification may be read as parameters)
                                if groups.len() != i + 1 {
                                    return None;
                                }
                                set(&mut st, code, Expect::Unknown);
                                return Some(st);
                            }
                            let mut comps = Vec::new();
                            for k in 1..=3 {
                                let c = groups[i + k];
                                if c.contains(&b':') {
                                    return None;
                                }
                                comps.push(plain(c)?);
                            }
                            i += 4;
                            true_color(&comps)
                        }
                        5 => {
                            let Some(c) = groups.get(i + 1) else {
                                set(&mut st, code, Expect::Unknown);
                                return Some(st);
                            };
                            if c.contains(&b':') {
                                return None;
                            }
                            let n = plain(c)?;
                            i += 2;
                            indexed(n)
                        }
                        _ => return None,
                    };
                    let out_of_range = matches!(e, Expect::OutOfRange { .. });
                    if out_of_range && mode == 2 {
                        // What becomes of the remaining components of an unrecognised colour (skipped, or read
                        // as further parameters) is not C02's business. Judged only when nothing follows that
                        // could set a colour again: then the target is unrecognised, clamped, or whatever the
                        // left-over components select as ordinary parameters - never the wrapped colour.
                        let leftovers_harmless = groups[i - 3..i].iter().all(|g| !matches!(clamp_dec(g), Some(38) | Some(48) | Some(58)));
                        if i != groups.len() || !leftovers_harmless {
                            return None;
                        }
                        let mut r = SgrRef { fg: Expect::Unknown, bg: Expect::Unknown, ul: Expect::Unknown };
                        set(&mut r, code, e);
                        return Some(r);
                    }
                    set(&mut st, code, e);
                }
                other => ordinary(&mut st, other),
            }
        } else {
            match code {
                38 | 48 | 58 => {
                    // colon form: everything is inside the group, nothing leaks into the following ones;
                    // shapes other than 2:r:g:b, 2:cs:r:g:b and 5:n leave the target unjudged
                    let nums: Option<Vec<u64>> = subs[1..].iter().map(|x| clamp_dec(x)).collect();
                    let e = match nums {
                        None => Expect::Unknown,
                        Some(n) => match (n.first().copied(), subs.len()) {
                            (Some(2), 5) if subs[2..].iter().all(|x| !x.is_empty()) => true_color(&n[1..4]),
                            (Some(2), 6) if subs[3..].iter().all(|x| !x.is_empty()) => true_color(&n[2..5]),
                            (Some(5), 3) if !subs[2].is_empty() => indexed(n[1]),
                            _ => Expect::Unknown,
                        },
                    };
                    set(&mut st, code, e);
                }
                // arguments of any other code do not select colours
                other => ordinary(&mut st, other),
            }
        }
    }
    Some(st)
}

/// colours of a decoded `FaceModify` against the reference reading of its parameters
pub fn check_face_modify(out: &mut Vec<Fail>, params: &[u8], m: &FaceModify) -> bool {
    match sgr_reference(params) {
        None => false,
        Some(r) => {
            check_color(out, "foreground", &r.fg, m.fg, params);
            check_color(out, "background", &r.bg, m.bg, params);
            check_color(out, "underline colour", &r.ul, m.underline_color, params);
            true
        }
    }
}

fn check_face_get(out: &mut Vec<Fail>, params: &[u8], f: &Face) -> bool {
    match sgr_reference(params) {
        None => false,
        Some(r) => {
            check_color(out, "foreground", &r.fg, f.fg, params);
            check_color(out, "background", &r.bg, f.bg, params);
            true
        }
    }
}

// ---------------------------------------------------------------- events

fn nums_strict(params: &[u8], n: usize) -> Option<Vec<Param>> {
    let gs = split(params, b';');
    if gs.len() != n || gs.iter().any(|g| g.is_empty()) {
        return None;
    }
    gs.iter().map(|g| param(g)).collect()
}

fn unexplained(out: &mut Vec<Fail>, what: &str, seg: &[u8], got: &str) {
    fail(out, "event is not explained by the bytes it was decoded from", format!("{what} from {}", verif_harness::out::hex(seg)), got);
}

fn check_char(out: &mut Vec<Fail>, _seg: &[u8], c: char) {
    let v = std::hint::black_box(c as u32);
    if !is_scalar(v) {
        fail(out, "character is not a Unicode scalar value", "scalar value", format!("U+{v:X}"));
    }
}

/// character decoded from a UTF-8 token: must be the one std's decoder finds in the same bytes
fn check_utf8_char(out: &mut Vec<Fail>, seg: &[u8], c: char) -> bool {
    match std::str::from_utf8(seg) {
        Ok(s) if s.chars().count() == 1 => {
            let want = s.chars().next().unwrap();
            if want as u32 != std::hint::black_box(c as u32) {
                fail(out, "character differs from the UTF-8 decoding of its bytes", format!("U+{:X}", want as u32), format!("U+{:X}", c as u32));
            }
            true
        }
        _ => false,
    }
}

/// kitty keyboard `CSI code[:alt…] ; mods[:event] ; text u`
fn check_kitty_key(out: &mut Vec<Fail>, params: &[u8], name: KeyName, mode: KeyMod, seg: &[u8]) {
    let fields = split(params, b';');
    // the key code is the first sub-parameter of the first field; when it is empty no number was transmitted
    // and whatever default the library takes is not C02's business
    let code_text = split(fields[0], b':')[0];
    if code_text.is_empty() {
        if let KeyName::Char(c) = name {
            check_char(out, seg, c);
        }
        return;
    }
    let code = match clamp_dec(code_text) {
        Some(c) => c,
        None => return unexplained(out, "key", seg, "non numeric key code"),
    };
    match name {
        KeyName::Char(c) => {
            check_char(out, seg, c);
            if code > u32::MAX as u64 || c as u32 as u64 != code {
                fail(out, "kitty key code does not equal the transmitted number (wrapped or truncated)", format!("U+{code:X}"), format!("U+{:X}", c as u32));
            }
        }
        KeyName::F(n) => {
            if !(57376..=57398).contains(&code) || n as u64 != code - 57376 + 13 {
                fail(out, "function key number does not follow from the transmitted code", format!("code {code}"), format!("F{n}"));
            }
        }
        KeyName::Esc | KeyName::Enter | KeyName::Tab | KeyName::Backspace => {
            let want = match name {
                KeyName::Esc => 27,
                KeyName::Enter => 13,
                KeyName::Tab => 9,
                _ => 127,
            };
            if code != want {
                fail(out, "named key does not follow from the transmitted code", format!("code {code}"), format!("{name:?}"));
            }
        }
        _ => {}
    }
    // modifiers: a bit set transmitted as 1 + bits; bits the library does not know are dropped
    if let Some(f) = fields.get(1) {
        let m_text = split(f, b':')[0];
        if !m_text.is_empty() {
            if let Some(m) = clamp_dec(m_text) {
                let want = if m > 1 { (m - 1) & 511 } else { 0 };
                if mod_bits(mode) != want {
                    fail(out, "key modifiers do not follow from the transmitted number", format!("bits {want:#b}"), format!("bits {:#b}", mod_bits(mode)));
                }
            }
        }
    } else if mod_bits(mode) != 0 {
        fail(out, "key modifiers without a modifier parameter", "none", format!("bits {:#b}", mod_bits(mode)));
    }
}

/// DEC private mode numbers (xterm ctlseqs / the synchronized-output and bracketed-paste specifications), by
/// variant name: not the crate's discriminants
fn dec_mode_number(m: surf_n_term::terminal::DecMode) -> u64 {
    use surf_n_term::terminal::DecMode::*;
    match m {
        VisibleCursor => 25,
        AutoWrap => 7,
        SixelScrolling => 80,
        MouseReport => 1000,
        MouseMotions => 1003,
        MouseSGR => 1006,
        AltScreen => 1049,
        SynchronizedOutput => 2026,
        BracketedPaste => 2004,
    }
}

/// DECRPM status values (VT510 manual)
fn dec_status_number(s: surf_n_term::terminal::DecModeStatus) -> u64 {
    use surf_n_term::terminal::DecModeStatus::*;
    match s {
        NotRecognized => 0,
        Enabled => 1,
        Disabled => 2,
        PermanentlyEnabled => 3,
        PermanentlyDisabled => 4,
    }
}

fn hex_pairs(text: &[u8]) -> Option<String> {
    if text.len() % 2 != 0 {
        return None;
    }
    let v = |b: u8| (b as char).to_digit(16);
    let mut s = String::new();
    for p in text.chunks(2) {
        s.push(char::from((v(p[0])? * 16 + v(p[1])?) as u8));
    }
    Some(s)
}

/// `rgb:h/h/h` colour specification of X11 (1 to 4 hex digits per component, scaled to 8 bit)
fn x_rgb(text: &[u8]) -> Option<(u8, u8, u8)> {
    let t = std::str::from_utf8(text).ok()?.strip_prefix("rgb:")?;
    let cs: Vec<&str> = t.split('/').collect();
    if cs.len() < 3 {
        return None;
    }
    let one = |s: &str| -> Option<u8> {
        if s.is_empty() || s.len() > 4 || !s.bytes().all(|b| b.is_ascii_hexdigit()) {
            return None;
        }
        let v = u32::from_str_radix(s, 16).ok()?;
        Some(match s.len() {
            1 => v * 17,
            2 => v,
            3 => v / 16,
            _ => v / 256,
        } as u8)
    };
    Some((one(cs[0])?, one(cs[1])?, one(cs[2])?))
}

/// checks of one event of `TTYEventDecoder` against its source bytes; returns the family for the histogram
pub fn check_event(out: &mut Vec<Fail>, seg: &[u8], ev: &TerminalEvent) -> &'static str {
    let shown = || format!("{ev:?}");
    match ev {
        TerminalEvent::Raw(bytes) => {
            if bytes.is_empty() {
                fail(out, "raw event without bytes", "at least one byte", "empty");
            }
            if bytes.as_slice() != seg {
                fail(out, "obs:raw event bytes differ from the bytes of the stream at its position", verif_harness::out::hex(seg), verif_harness::out::hex(bytes));
            }
            "raw"
        }
        TerminalEvent::Key(key) => {
            check_mod_range(out, "key", key.mode);
            if let KeyName::Char(c) = key.name {
                check_char(out, seg, c);
                if !seg.is_empty() && (seg[0] >= 0x80 || ((0x20..=0x7e).contains(&seg[0]) && mod_bits(key.mode) == 0)) {
                    if !check_utf8_char(out, seg, c) {
                        fail(out, "character decoded from bytes that are not one UTF-8 sequence", "one well formed sequence", verif_harness::out::hex(seg));
                    }
                    return "char";
                }
            }
            if let Some((None, params, inter, b'u')) = csi(seg) {
                if inter.is_empty() {
                    check_kitty_key(out, params, key.name, key.mode, seg);
                    return "kitty-key";
                }
            }
            "key"
        }
        TerminalEvent::Mouse(m) => {
            check_mod_range(out, "mouse", m.mode);
            match csi(seg) {
                Some((Some(b'<'), params, _, fin)) if fin == b'm' || fin == b'M' => match nums_strict(params, 3) {
                    Some(v) => {
                        if !coord_ok(m.pos.col as u64, v[1]) || !coord_ok(m.pos.row as u64, v[2]) {
                            fail(out, "mouse position is neither the transmitted 1-based position minus one nor a clamped value (wrapped or underflowed)",
                                format!("col {} row {} (1-based)", show_param(v[1]), show_param(v[2])), format!("col {} row {}", m.pos.col, m.pos.row));
                        }
                        if let Some(e) = v[0].exact {
                            let mut want = (e >> 2) & 7;
                            if fin == b'M' {
                                want |= 256;
                            }
                            if mod_bits(m.mode) != want {
                                fail(out, "mouse modifiers do not follow from the transmitted button code", format!("bits {want:#b}"), format!("bits {:#b}", mod_bits(m.mode)));
                            }
                        }
                    }
                    None => unexplained(out, "mouse report", seg, &shown()),
                },
                _ => unexplained(out, "mouse report", seg, &shown()),
            }
            "mouse"
        }
        TerminalEvent::CursorPosition(p) => {
            match csi(seg) {
                Some((None, params, _, b'R')) => match nums_strict(params, 2) {
                    Some(v) => {
                        if !coord_ok(p.row as u64, v[0]) || !coord_ok(p.col as u64, v[1]) {
                            fail(out, "cursor position is neither the transmitted 1-based position minus one nor a clamped value (wrapped or underflowed)",
                                format!("row {} col {} (1-based)", show_param(v[0]), show_param(v[1])), format!("row {} col {}", p.row, p.col));
                        }
                    }
                    None => unexplained(out, "cursor position report", seg, &shown()),
                },
                _ => unexplained(out, "cursor position report", seg, &shown()),
            }
            "cursor-position"
        }
        TerminalEvent::Size(sz) => {
            // ESC [ 8 ; h ; w t ESC [ 4 ; h ; w t
            let parts: Vec<&[u8]> = seg.split(|b| *b == 0x1b).collect();
            let mut ok = false;
            if parts.len() == 3 && parts[0].is_empty() {
                let a = [b"\x1b".as_slice(), parts[1]].concat();
                let b = [b"\x1b".as_slice(), parts[2]].concat();
                if let (Some((None, pa, _, b't')), Some((None, pb, _, b't'))) = (csi(&a), csi(&b)) {
                    if let (Some(va), Some(vb)) = (nums_strict(pa, 3), nums_strict(pb, 3)) {
                        ok = true;
                        let got = [sz.cells.height as u64, sz.cells.width as u64, sz.pixels.height as u64, sz.pixels.width as u64];
                        let want = [va[1], va[2], vb[1], vb[2]];
                        if va[0].exact != Some(8) || vb[0].exact != Some(4) || got.iter().zip(want.iter()).any(|(g, w)| !plain_ok(*g, *w)) {
                            fail(out, "terminal size fields are neither the transmitted numbers nor clamped values (wrapped)",
                                format!("{:?}", want.iter().map(|w| show_param(*w)).collect::<Vec<_>>()), format!("{got:?}"));
                        }
                    }
                }
            }
            if !ok {
                unexplained(out, "size report", seg, &shown());
            }
            "size"
        }
        TerminalEvent::DecMode { mode, status } => {
            match csi(seg) {
                Some((Some(b'?'), params, b"$", b'y')) => match nums_strict(params, 2) {
                    Some(v) => {
                        if Some(dec_mode_number(*mode)) != v[0].exact || Some(dec_status_number(*status)) != v[1].exact {
                            fail(out, "DEC mode report fields differ from the transmitted numbers", format!("mode {} status {}", show_param(v[0]), show_param(v[1])), format!("mode {mode:?} status {status:?}"));
                        }
                    }
                    None => unexplained(out, "DEC mode report", seg, &shown()),
                },
                _ => unexplained(out, "DEC mode report", seg, &shown()),
            }
            "dec-mode"
        }
        TerminalEvent::KeyboardLevel(level) => {
            match csi(seg) {
                Some((Some(b'?'), params, _, b'u')) => match param(params) {
                    Some(v) if !params.is_empty() => {
                        if !plain_ok(*level as u64, v) {
                            fail(out, "keyboard level is neither the transmitted number nor a clamped value (wrapped)", show_param(v), level);
                        }
                    }
                    _ => unexplained(out, "keyboard level report", seg, &shown()),
                },
                _ => unexplained(out, "keyboard level report", seg, &shown()),
            }
            "keyboard-level"
        }
        TerminalEvent::DeviceAttrs(attrs) => {
            match csi(seg) {
                Some((Some(b'?'), params, _, b'c')) => {
                    let vals: Option<Vec<Param>> = split(params, b';').iter().filter(|g| !g.is_empty()).map(|g| param(g)).collect();
                    match vals {
                        Some(vals) => {
                            let vals: Vec<Param> = vals.into_iter().filter(|v| v.exact != Some(0)).collect();
                            let got: Vec<u64> = attrs.iter().map(|a| *a as u64).collect();
                            let explained = got.iter().all(|g| vals.iter().any(|v| plain_ok(*g, *v)));
                            let complete = vals.iter().all(|v| got.iter().any(|g| plain_ok(*g, *v)));
                            if !explained || !complete {
                                fail(out, "device attributes are neither the transmitted numbers nor clamped values (wrapped)",
                                    format!("{:?}", vals.iter().map(|v| show_param(*v)).collect::<Vec<_>>()), format!("{got:?}"));
                            }
                        }
                        None => unexplained(out, "device attributes", seg, &shown()),
                    }
                }
                _ => unexplained(out, "device attributes", seg, &shown()),
            }
            "device-attrs"
        }
        TerminalEvent::KittyImage { id, placement, .. } => {
            // ESC _ G k=v(,k=v)* ; message ESC \
            if seg.len() >= 5 && seg.starts_with(b"\x1b_G") && seg.ends_with(b"\x1b\\") {
                let body = &seg[3..seg.len() - 2];
                let keys = body.split(|b| *b == b';').next().unwrap_or(b"");
                let mut want_id = Param { exact: Some(0) };
                let mut want_p: Option<Param> = None;
                let mut ok = true;
                for kv in split(keys, b',') {
                    if let Some(eq) = kv.iter().position(|b| *b == b'=') {
                        let (k, v) = (&kv[..eq], &kv[eq + 1..]);
                        if k == b"i" || k == b"p" {
                            match param(v) {
                                Some(n) if k == b"i" => want_id = n,
                                Some(n) => want_p = Some(n),
                                None => ok = false,
                            }
                        }
                    }
                }
                if !ok {
                    unexplained(out, "kitty image response with numeric id", seg, &shown());
                } else {
                    let p_ok = match (placement, want_p) {
                        (None, None) => true,
                        (Some(g), Some(w)) => plain_ok(*g, w),
                        _ => false,
                    };
                    if !plain_ok(*id, want_id) || !p_ok {
                        fail(out, "kitty image id or placement is neither the transmitted number nor a clamped value (wrapped)",
                            format!("id {} placement {:?}", show_param(want_id), want_p.map(show_param)), format!("id {id} placement {placement:?}"));
                    }
                }
            } else {
                unexplained(out, "kitty image response", seg, &shown());
            }
            "kitty-image"
        }
        TerminalEvent::Termcap(map) => {
            if seg.len() >= 7 && (seg.starts_with(b"\x1bP1+r") || seg.starts_with(b"\x1bP0+r")) && seg.ends_with(b"\x1b\\") {
                let body = &seg[5..seg.len() - 2];
                let mut want: std::collections::BTreeMap<String, Option<String>> = Default::default();
                let mut ok = true;
                if seg[2] == b'1' {
                    if !body.is_empty() {
                        for kv in split(body, b';') {
                            match kv.iter().position(|b| *b == b'=') {
                                Some(eq) => match (hex_pairs(&kv[..eq]), hex_pairs(&kv[eq + 1..])) {
                                    (Some(k), Some(v)) => {
                                        want.insert(k, Some(v));
                                    }
                                    _ => ok = false,
                                },
                                None => ok = false,
                            }
                        }
                    }
                } else {
                    for k in split(body, b';') {
                        match hex_pairs(k) {
                            Some(k) => {
                                want.insert(k, None);
                            }
                            None => ok = false,
                        }
                    }
                }
                if ok && &want != map {
                    fail(out, "obs:termcap entries differ from the hex text transmitted", format!("{want:?}"), format!("{map:?}"));
                }
            } else {
                unexplained(out, "termcap response", seg, &shown());
            }
            "termcap"
        }
        TerminalEvent::Color { name, color } => {
            let body: &[u8] = if seg.ends_with(b"\x07") { &seg[2..seg.len() - 1] } else if seg.len() >= 4 { &seg[2..seg.len() - 2] } else { b"" };
            let args = split(body, b';');
            let idx = match name {
                TerminalColor::Palette(n) => {
                    match args.get(1).and_then(|a| param(a)) {
                        Some(v) if args[0] == b"4" => {
                            if !plain_ok(*n as u64, v) {
                                fail(out, "palette index is neither the transmitted number nor a clamped value (wrapped)", show_param(v), n);
                            }
                        }
                        _ => unexplained(out, "palette colour report", seg, &shown()),
                    }
                    2
                }
                _ => 1,
            };
            if let Some(text) = args.get(idx) {
                if let Some((r, g, b)) = x_rgb(text) {
                    let (gr, gg, gb, _) = rgb_of(*color);
                    if (gr, gg, gb) != (r, g, b) {
                        fail(out, "obs:colour components differ from the rgb: specification transmitted", format!("({r},{g},{b})"), format!("({gr},{gg},{gb})"));
                    }
                }
            }
            "color"
        }
        TerminalEvent::FaceGet(face) => {
            if seg.len() >= 8 && seg.starts_with(b"\x1bP1$r") && seg.ends_with(b"m\x1b\\") {
                check_face_get(out, &seg[5..seg.len() - 3], face);
            } else {
                unexplained(out, "DECRPSS SGR report", seg, &shown());
            }
            "face-get"
        }
        TerminalEvent::Command(TerminalCommand::FaceModify(m)) => {
            match csi(seg) {
                Some((None, params, b"", b'm')) => {
                    if check_face_modify(out, params, m) { "sgr-judged" } else { "sgr-unjudged" }
                }
                _ => {
                    unexplained(out, "SGR", seg, &shown());
                    "sgr-unjudged"
                }
            }
        }
        TerminalEvent::Paste(text) => {
            if seg.len() >= 12 && seg.starts_with(b"\x1b[200~") && seg.ends_with(b"\x1b[201~") {
                if text.as_bytes() != &seg[6..seg.len() - 6] {
                    fail(out, "obs:pasted text differs from the bytes between the paste brackets", verif_harness::out::hex(&seg[6..seg.len() - 6]), verif_harness::out::hex(text.as_bytes()));
                }
            } else {
                unexplained(out, "bracketed paste", seg, &shown());
            }
            "paste"
        }
        _ => "other",
    }
}

/// checks of one item of `TTYCommandDecoder`
pub fn check_command(out: &mut Vec<Fail>, seg: &[u8], cmd: &TerminalCommand) -> &'static str {
    match cmd {
        TerminalCommand::Raw(bytes) => {
            if bytes.is_empty() {
                fail(out, "raw event without bytes", "at least one byte", "empty");
            }
            if bytes.as_slice() != seg {
                fail(out, "obs:raw event bytes differ from the bytes of the stream at its position", verif_harness::out::hex(seg), verif_harness::out::hex(bytes));
            }
            "raw"
        }
        TerminalCommand::Char(c) => {
            check_char(out, seg, *c);
            if !check_utf8_char(out, seg, *c) {
                fail(out, "character decoded from bytes that are not one UTF-8 sequence", "one well formed sequence", verif_harness::out::hex(seg));
            }
            "char"
        }
        TerminalCommand::FaceModify(m) => match csi(seg) {
            Some((None, params, b"", b'm')) => {
                if check_face_modify(out, params, m) { "sgr-judged" } else { "sgr-unjudged" }
            }
            _ => {
                fail(out, "event is not explained by the bytes it was decoded from", format!("SGR from {}", verif_harness::out::hex(seg)), format!("{cmd:?}"));
                "sgr-unjudged"
            }
        },
        _ => "other",
    }
}

/// `needle` occurs in `hay` in order (not necessarily contiguous)
pub fn is_subsequence(needle: &[u8], hay: &[u8]) -> bool {
    let mut it = hay.iter();
    needle.iter().all(|b| it.any(|h| h == b))
}
