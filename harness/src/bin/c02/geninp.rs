//! Input generation for C02: structured protocol sequences with extreme parameters, mutations of
//! them, and biased random bytes. Everything derives from the one `Rng` of the parent process.
use verif_harness::r#gen::Rng;

#[derive(Clone, Copy, PartialEq, Eq, Debug)]
pub enum Kind {
    Event,
    Command,
    Utf8,
}

impl Kind {
    pub fn name(self) -> &'static str {
        match self {
            Kind::Event => "event",
            Kind::Command => "command",
            Kind::Utf8 => "utf8",
        }
    }
    pub fn parse(s: &str) -> Option<Kind> {
        match s {
            "event" => Some(Kind::Event),
            "command" => Some(Kind::Command),
            "utf8" => Some(Kind::Utf8),
            _ => None,
        }
    }
}

#[derive(Clone, Debug)]
pub struct Input {
    pub id: usize,
    pub kind: Kind,
    /// histogram bucket: which generator made it
    pub class: String,
    pub stream: Vec<u8>,
    /// partitions: chunk lengths (sum = stream length; zeros are empty reads)
    pub parts: Vec<Vec<usize>>,
}

const MAXS: &str = "18446744073709551615";

/// decimal parameter text: zero, boundaries of every width, 1-40 digit runs, leading zeros
pub fn num(rng: &mut Rng) -> String {
    match rng.below(16) {
        0 | 1 => "0".into(),
        2 => "1".into(),
        3 => rng.below(10).to_string(),
        4 | 5 => (1 + rng.below(300)).to_string(),
        6 => rng.pick(&["255", "256", "65535", "65536", "2004", "2026", "1049"]).to_string(),
        7 => rng.pick(&["4294967295", "4294967296", "4294967297", "2147483648", "9223372036854775807", "9223372036854775808"]).to_string(),
        8 => rng.pick(&[MAXS, "18446744073709551616", "18446744073709551617", "18446744073709551614", "28446744073709551615"]).to_string(),
        9 => "9".repeat(1 + rng.below(40) as usize),
        10 => format!("1{}", "0".repeat(rng.below(40) as usize)),
        11 => {
            let n = 1 + rng.below(40);
            (0..n).map(|_| (b'0' + rng.below(10) as u8) as char).collect()
        }
        12 => format!("{}{}", "0".repeat(1 + rng.below(30) as usize), rng.below(100)),
        13 => format!("{}{}", "0".repeat(rng.below(3) as usize), MAXS),
        14 => (rng.below(70000)).to_string(),
        _ => (1 + rng.below(100)).to_string(),
    }
}

/// parameter text that may also be empty
fn num_or_empty(rng: &mut Rng) -> String {
    if rng.chance(1, 5) { String::new() } else { num(rng) }
}

pub fn utf8_char(rng: &mut Rng) -> Vec<u8> {
    let c = match rng.below(6) {
        0 => rng.range(0x20, 0x7e) as u32,
        1 => rng.range(0x80, 0x7ff) as u32,
        2 => {
            let v = rng.range(0x800, 0xffff) as u32;
            if (0xd800..0xe000).contains(&v) { 0x20ac } else { v }
        }
        3 => rng.range(0x10000, 0x10ffff) as u32,
        4 => rng.range(0, 0x7f) as u32,
        _ => *rng.pick(&[0x7f_u32, 0x80, 0x7ff, 0x800, 0xfff, 0x1000, 0xcfff, 0xd000, 0xd7ff, 0xe000, 0xffff, 0x10000,
            0x3ffff, 0x40000, 0xfffff, 0x100000, 0x10ffff, 0x20ac, 0x1f600]),
    };
    let ch = char::from_u32(c).unwrap_or('?');
    let mut b = [0u8; 4];
    ch.encode_utf8(&mut b).as_bytes().to_vec()
}

/// malformed UTF-8 fragments: surrogates, overlongs, out of range, stray continuation, truncated
pub fn bad_utf8(rng: &mut Rng) -> Vec<u8> {
    const BAD: &[&[u8]] = &[
        &[0x80], &[0xbf], &[0xc0, 0x80], &[0xc1, 0xbf], &[0xc2], &[0xc2, 0x41], &[0xdf, 0xc0],
        &[0xe0, 0x80, 0x80], &[0xe0, 0x9f, 0xbf], &[0xe0, 0xa0], &[0xe2, 0x82], &[0xe2, 0x82, 0x41],
        &[0xed, 0xa0, 0x80], &[0xed, 0xbf, 0xbf], &[0xed, 0xa0], &[0xef, 0xbf],
        &[0xf0, 0x80, 0x80, 0x80], &[0xf0, 0x8f, 0xbf, 0xbf], &[0xf0, 0x9f, 0x98], &[0xf0, 0x9f],
        &[0xf4, 0x90, 0x80, 0x80], &[0xf4, 0x8f, 0xbf], &[0xf5, 0x80, 0x80, 0x80], &[0xf7, 0xbf, 0xbf, 0xbf],
        &[0xf8, 0x88, 0x80, 0x80, 0x80], &[0xfc], &[0xfe], &[0xff], &[0xf4], &[0xe0], &[0xed],
    ];
    rng.pick(BAD).to_vec()
}

fn text(rng: &mut Rng, max: u64) -> Vec<u8> {
    let mut out = Vec::new();
    for _ in 0..(1 + rng.below(max)) {
        out.extend(utf8_char(rng));
    }
    out
}

fn payload(rng: &mut Rng, max: u64, forbid: &[u8]) -> Vec<u8> {
    let mut out = Vec::new();
    for _ in 0..rng.below(max + 1) {
        let b = match rng.below(4) {
            0 => rng.range(0x20, 0x7e) as u8,
            1 => *rng.pick(b"0123456789abcdefABCDEF;:=,/#?"),
            2 => rng.below(256) as u8,
            _ => *rng.pick(b"rgb:OK \n\t"),
        };
        if !forbid.contains(&b) {
            out.push(b);
        }
    }
    out
}

/// SGR parameter text; `clean`: only shapes the reference interpretation of the oracle covers
pub fn sgr_params(rng: &mut Rng, clean: bool) -> String {
    let mut groups: Vec<String> = Vec::new();
    for _ in 0..rng.below(6) {
        let target = *rng.pick(&["38", "48", "58"]);
        let comp = |rng: &mut Rng| -> String {
            match rng.below(8) {
                0 => "256".into(),
                1 => "255".into(),
                2 => "0".into(),
                3 => num(rng),
                4 => rng.pick(&["257", "300", "511", "512", "65536", "4294967296", "18446744073709551616"]).to_string(),
                _ => rng.below(256).to_string(),
            }
        };
        match rng.below(if clean { 8 } else { 12 }) {
            0 => groups.push(rng.below(110).to_string()),
            1 => groups.push(rng.pick(&["0", "1", "4", "22", "24", "30", "37", "40", "47", "90", "97", "100", "107", "21", "9"]).to_string()),
            2 => groups.push(format!("{target};2;{};{};{}", comp(rng), comp(rng), comp(rng))),
            3 => groups.push(format!("{target}:2:{}:{}:{}", comp(rng), comp(rng), comp(rng))),
            4 => groups.push(format!("{target}:2:{}:{}:{}:{}", rng.pick(&["", "0", "1"]), comp(rng), comp(rng), comp(rng))),
            5 => groups.push(format!("{target};5;{}", comp(rng))),
            6 => groups.push(format!("{target}:5:{}", comp(rng))),
            7 => groups.push(format!("4:{}", rng.below(7))),
            8 => groups.push(String::new()),
            9 => groups.push(format!("{target};2;{}", comp(rng))),
            10 => groups.push(format!("{target}:{}", num_or_empty(rng))),
            _ => groups.push(format!("{}:{}:{}", num_or_empty(rng), num_or_empty(rng), num_or_empty(rng))),
        }
    }
    groups.join(";")
}

/// one sequence of a random family with extreme parameters: (family, bytes)
pub fn piece(rng: &mut Rng) -> (&'static str, Vec<u8>) {
    let s = |x: String| x.into_bytes();
    match rng.below(26) {
        0 => ("key-basic", vec![*rng.pick(&[0x1bu8, 0x7f, 0x00, 0x01, 0x09, 0x0d, 0x1a])]),
        1 => ("key-alt", vec![0x1b, rng.range(0x21, 0x7e) as u8]),
        2 => {
            let code = *rng.pick(&["1", "2", "3", "4", "5", "6", "7", "8", "11", "15", "17", "20", "24"]);
            if rng.chance(1, 2) {
                ("key-tilde", s(format!("\x1b[{code}~")))
            } else {
                ("key-tilde-mod", s(format!("\x1b[{code};{}~", rng.range(1, 9))))
            }
        }
        3 => {
            let (p, c) = *rng.pick(&[("[", "A"), ("[", "B"), ("[", "C"), ("[", "D"), ("[", "F"), ("[", "H"),
                ("O", "P"), ("[", "P"), ("O", "Q"), ("O", "R"), ("[", "R"), ("O", "S"), ("[", "S")]);
            if rng.chance(1, 2) {
                ("key-arrow", s(format!("\x1b{p}{c}")))
            } else {
                ("key-arrow-mod", s(format!("\x1b[1;{}{c}", rng.range(1, 9))))
            }
        }
        4 | 5 => ("cursor-pos", s(format!("\x1b[{};{}R", num(rng), num(rng)))),
        6 => ("dec-mode", s(format!("\x1b[?{};{}$y", num(rng), if rng.chance(1, 2) { rng.below(6).to_string() } else { num(rng) }))),
        7 => {
            let mut x = "\x1b[?".to_string();
            for i in 0..(1 + rng.below(5)) {
                if i > 0 {
                    x.push(';');
                }
                x.push_str(&num(rng));
            }
            if rng.chance(1, 4) {
                x.push(';');
            }
            x.push('c');
            ("device-attrs", s(x))
        }
        8 => ("kitty-kbd-level", s(format!("\x1b[?{}u", num(rng)))),
        9 | 10 => {
            // CSI code:alt ; mods:event ; text u   with empty lists and extreme values
            let mut x = "\x1b[".to_string();
            let code = |rng: &mut Rng| -> String {
                match rng.below(8) {
                    0 => String::new(),
                    1 => rng.pick(&["27", "13", "9", "127", "57376", "57398", "57399", "57344", "63743", "63744", "55296",
                        "57343", "1114111", "1114112", "4294967295", "4294967296", "4294967393"]).to_string(),
                    2 => num(rng),
                    // both ends of the private-use block the kitty protocol numbers its functional keys in, one by one
                    // (57344..=63743: every code next to 57344, the F13.. block at 57376..=57398, 63743 / 63744)
                    3 => rng.range(57340, 57460).to_string(),
                    4 => if rng.chance(1, 2) { rng.range(63730, 63750).to_string() } else { rng.range(55290, 57350).to_string() },
                    _ => rng.range(32, 60000).to_string(),
                }
            };
            match rng.below(8) {
                0 => {}
                1 => x.push(';'),
                2 => x.push(':'),
                3 => x.push_str(";;"),
                _ => {
                    x.push_str(&code(rng));
                    if rng.chance(1, 3) {
                        x.push(':');
                        x.push_str(&num_or_empty(rng));
                    }
                    if rng.chance(2, 3) {
                        x.push(';');
                        x.push_str(&match rng.below(6) {
                            0 => String::new(),
                            1 => num(rng),
                            2 | 3 => rng.pick(&["256", "257", "511", "512", "513", "514", "1025", "65536", "65537", "4294967295",
                                "4294967296", "4294967297", "4294967809", "18446744073709551615", "18446744073709551616"]).to_string(),
                            _ => rng.range(1, 300).to_string(),
                        });
                        if rng.chance(1, 3) {
                            x.push(':');
                            x.push_str(&match rng.below(3) {
                                0 => String::new(),
                                1 => num(rng),
                                _ => rng.range(0, 3).to_string(),
                            });
                        }
                        if rng.chance(1, 4) {
                            x.push(';');
                            x.push_str(&num_or_empty(rng));
                        }
                    }
                }
            }
            x.push('u');
            ("kitty-kbd-key", s(x))
        }
        11 | 12 => ("mouse", s(format!("\x1b[<{};{};{}{}",
            if rng.chance(1, 2) { rng.below(128).to_string() } else { num(rng) }, num(rng), num(rng), rng.pick(&["m", "M"])))),
        13 => ("term-size", s(format!("\x1b[8;{};{}t\x1b[4;{};{}t", num(rng), num(rng), num(rng), num(rng)))),
        14 | 15 => {
            let clean = rng.chance(2, 3);
            (if clean { "sgr-clean" } else { "sgr-wild" }, s(format!("\x1b[{}m", sgr_params(rng, clean))))
        }
        16 => {
            let hexn = |rng: &mut Rng| -> String {
                if rng.chance(1, 4) { text_field(rng, 5) } else { (0..(1 + rng.below(5))).map(|_| *rng.pick(b"0123456789abcdefABCDEF") as char).collect() }
            };
            let color = match rng.below(5) {
                0 => format!("rgb:{}/{}/{}", hexn(rng), hexn(rng), hexn(rng)),
                1 => format!("#{:02x}{:02x}{:02x}", rng.below(256), rng.below(256), rng.below(256)),
                2 => format!("rgb:{}/{}", hexn(rng), hexn(rng)),
                3 => String::from_utf8_lossy(&payload(rng, 12, &[0x1b, 0x07])).into_owned(),
                _ => format!("rgb:{:04x}/{:04x}/{:04x}", rng.below(65536), rng.below(65536), rng.below(65536)),
            };
            let id = match rng.below(5) {
                0 => format!("4;{}", num(rng)),
                1 => "10".to_string(),
                2 => "11".to_string(),
                3 => num(rng),
                _ => format!("4;{}", rng.below(256)),
            };
            let mut x = s(format!("\x1b]{id};{color}"));
            if x.last() == Some(&b';') {
                x.push(b'?');
            }
            if rng.chance(1, 2) {
                x.extend(b"\x1b\\");
            } else {
                x.push(0x07);
            }
            ("osc", x)
        }
        17 => {
            let mut x = s(format!("\x1bP{}$r", rng.below(2)));
            if rng.chance(2, 3) {
                let clean = rng.chance(1, 2);
                x.extend(s(format!("{}m", sgr_params(rng, clean))));
            } else if rng.chance(1, 2) {
                x.extend(payload(rng, 12, &[0x1b]));
            } else {
                // SGR parameters with text where numbers are expected
                x.extend(s(format!("38;2;{};{};{}m", text_field(rng, 4), text_field(rng, 4), text_field(rng, 4))));
            }
            x.extend(b"\x1b\\");
            ("report-setting", x)
        }
        18 => {
            let hexs = |rng: &mut Rng| -> String {
                (0..(1 + rng.below(4))).map(|_| if rng.chance(1, 4) { format!("{:02X}", rng.below(256)) } else { format!("{:02x}", rng.range(0x20, 0x7e)) }).collect()
            };
            let mut x = String::new();
            if rng.chance(2, 3) {
                x.push_str("\x1bP1+r");
                for i in 0..rng.below(4) {
                    if i > 0 {
                        x.push(';');
                    }
                    x.push_str(&format!("{}={}", hexs(rng), hexs(rng)));
                }
            } else {
                x.push_str("\x1bP0+r");
                for i in 0..rng.below(4) {
                    if i > 0 {
                        x.push(';');
                    }
                    x.push_str(&hexs(rng));
                }
            }
            x.push_str("\x1b\\");
            ("termcap", s(x))
        }
        19 => {
            let mut x = s("\x1b_G".to_string());
            let n = 1 + rng.below(4);
            for i in 0..n {
                if i > 0 {
                    x.push(b',');
                }
                let key = *rng.pick(&["i", "p", "I", "a", "i", "q"]);
                let val = match rng.below(4) {
                    0 => num(rng),
                    1 => rng.pick(&["abc", "1a", "OK", "x"]).to_string(),
                    _ => rng.below(1000).to_string(),
                };
                x.extend(s(format!("{key}={val}")));
            }
            x.push(b';');
            match rng.below(3) {
                0 => x.extend(b"OK"),
                1 => x.extend(payload(rng, 16, &[0x1b])),
                _ => x.extend(s(format!("E{}:{}", text_field(rng, 6), text_field(rng, 6)))),
            }
            x.extend(b"\x1b\\");
            ("kitty-image", x)
        }
        20 => {
            let mut x = b"\x1b[200~".to_vec();
            match rng.below(3) {
                0 => x.extend(text(rng, 20)),
                1 => x.extend(payload(rng, 30, &[0x1b])),
                _ => {
                    x.extend(text(rng, 4));
                    x.extend(bad_utf8(rng));
                }
            }
            x.extend(b"\x1b[201~");
            ("paste", x)
        }
        21 | 22 | 23 => ("utf8", text(rng, 8)),
        24 => ("ascii", (0..(1 + rng.below(10))).map(|_| rng.range(0x20, 0x7e) as u8).collect()),
        _ => ("ctrl", vec![rng.range(0, 0x1f) as u8]),
    }
}

/// stream of well formed pieces; for the command decoder mostly SGR and text
pub fn structured(rng: &mut Rng, kind: Kind) -> Vec<u8> {
    let mut out = Vec::new();
    for _ in 0..(1 + rng.below(7)) {
        let bytes = if kind == Kind::Command && rng.chance(3, 4) {
            if rng.chance(1, 2) {
                text(rng, 6)
            } else {
                let clean = rng.chance(2, 3);
                format!("\x1b[{}m", sgr_params(rng, clean)).into_bytes()
            }
        } else {
            piece(rng).1
        };
        out.extend(bytes);
    }
    out
}

const SPECIAL: &[u8] = b"\x1b\x1b\x1b[[]P_;;:?<<0123456789mMRutc~$y\\\x07=,+r";

pub fn biased_byte(rng: &mut Rng) -> u8 {
    match rng.below(10) {
        0..=4 => *rng.pick(SPECIAL),
        5 => *rng.pick(&[0xc0u8, 0xc1, 0xc2, 0xdf, 0xe0, 0xe1, 0xec, 0xed, 0xee, 0xef, 0xf0, 0xf1, 0xf3, 0xf4, 0xf5, 0xf7, 0xf8, 0xfe, 0xff]),
        6 => *rng.pick(&[0x80u8, 0x8f, 0x90, 0x9f, 0xa0, 0xbf, 0x80, 0xbf]),
        7 => rng.range(0x20, 0x7e) as u8,
        _ => rng.below(256) as u8,
    }
}

/// bit flips, replacements, insertions, deletions, truncation, splices, lost terminators
pub fn mutate(rng: &mut Rng, kind: Kind) -> (String, Vec<u8>) {
    let mut b = structured(rng, kind);
    let how = rng.below(8);
    let name = match how {
        0 => {
            for _ in 0..(1 + rng.below(3)) {
                if !b.is_empty() {
                    let i = rng.below(b.len() as u64) as usize;
                    b[i] ^= 1 << rng.below(8);
                }
            }
            "bitflip"
        }
        1 => {
            let n = rng.below(b.len() as u64 + 1) as usize;
            b.truncate(n);
            "truncate"
        }
        2 => {
            let other = structured(rng, kind);
            let i = rng.below(b.len() as u64 + 1) as usize;
            let j = rng.below(other.len() as u64 + 1) as usize;
            b.truncate(i);
            b.extend(&other[j..]);
            "splice"
        }
        3 => {
            // unterminated string sequence followed by more input
            let head: &[u8] = *rng.pick(&[b"\x1b]4;1;rgb:ff/00/00".as_slice(), b"\x1bP1$r38;2;1;2;3m", b"\x1bP1+r616263=64",
                b"\x1b_Gi=31;OK", b"\x1b[200~pasted text", b"\x1b]11;", b"\x1bP", b"\x1b_G", b"\x1b]"]);
            let mut x = head.to_vec();
            x.extend(b);
            b = x;
            "unterminated"
        }
        4 => {
            for _ in 0..(1 + rng.below(3)) {
                let i = rng.below(b.len() as u64 + 1) as usize;
                b.insert(i, biased_byte(rng));
            }
            "insert"
        }
        5 => {
            for _ in 0..(1 + rng.below(3)) {
                if !b.is_empty() {
                    let i = rng.below(b.len() as u64) as usize;
                    b.remove(i);
                }
            }
            "delete"
        }
        6 => {
            for _ in 0..(1 + rng.below(3)) {
                if !b.is_empty() {
                    let i = rng.below(b.len() as u64) as usize;
                    b[i] = biased_byte(rng);
                }
            }
            "replace"
        }
        _ => {
            let i = rng.below(b.len() as u64 + 1) as usize;
            let bad = bad_utf8(rng);
            for (k, x) in bad.into_iter().enumerate() {
                b.insert(i + k, x);
            }
            "bad-utf8"
        }
    };
    (format!("mutated:{name}"), b)
}

pub fn random_bytes(rng: &mut Rng) -> Vec<u8> {
    let n = 1 + rng.below(48);
    (0..n).map(|_| biased_byte(rng)).collect()
}

/// stream for `Utf8Decoder`
pub fn utf8_stream(rng: &mut Rng) -> (String, Vec<u8>) {
    match rng.below(4) {
        0 => ("utf8:valid".into(), text(rng, 16)),
        1 => {
            let mut out = Vec::new();
            for _ in 0..(1 + rng.below(8)) {
                if rng.chance(1, 3) {
                    out.extend(bad_utf8(rng));
                } else {
                    out.extend(utf8_char(rng));
                }
            }
            ("utf8:mixed".into(), out)
        }
        2 => {
            let n = 1 + rng.below(24);
            ("utf8:random".into(), (0..n).map(|_| match rng.below(4) {
                0 => *rng.pick(&[0xc0u8, 0xc1, 0xc2, 0xdf, 0xe0, 0xe1, 0xec, 0xed, 0xee, 0xef, 0xf0, 0xf1, 0xf3, 0xf4, 0xf5, 0xf7, 0xf8, 0xff]),
                1 => *rng.pick(&[0x80u8, 0x8f, 0x90, 0x9f, 0xa0, 0xbf]),
                2 => rng.range(0, 0x7f) as u8,
                _ => rng.below(256) as u8,
            }).collect())
        }
        _ => {
            let mut b = text(rng, 10);
            for _ in 0..(1 + rng.below(2)) {
                if !b.is_empty() {
                    let i = rng.below(b.len() as u64) as usize;
                    match rng.below(3) {
                        0 => b[i] ^= 1 << rng.below(8),
                        1 => {
                            b.remove(i);
                        }
                        _ => b.insert(i, biased_byte(rng)),
                    }
                }
            }
            ("utf8:damaged".into(), b)
        }
    }
}


/// a digit run of 10^3 .. 10^5 digits ("arbitrarily long numeric parameters")
pub fn long_num(rng: &mut Rng, max_pow: u32) -> String {
    let len = match rng.below(4) {
        0 => 1000 + rng.below(200) as usize,
        1 => 1024 + rng.below(3) as usize,
        2 => 4096 + rng.below(70000 / 4) as usize,
        _ => 10usize.pow(3 + rng.below((max_pow - 2) as u64) as u32),
    };
    let lead = *rng.pick(&[b'0', b'1', b'9', b'0']);
    let mut s = String::with_capacity(len);
    s.push(lead as char);
    for _ in 1..len {
        s.push((b'0' + rng.below(10) as u8) as char);
    }
    s
}

/// streams that exceed every fixed-size assumption: very long parameters, multi-KB unterminated strings,
/// more than a thousand items
pub fn long_stream(rng: &mut Rng, kind: Kind, max_pow: u32) -> (String, Vec<u8>) {
    let s = |x: String| x.into_bytes();
    match rng.below(if kind == Kind::Command { 3 } else { 8 }) {
        0 => {
            // SGR with a huge parameter
            let n = long_num(rng, max_pow);
            ("long:sgr-param".into(), s(format!("\x1b[1;{n};38;2;{};2;3mX", long_num(rng, 3))))
        }
        1 => {
            let mut out = Vec::new();
            for _ in 0..(1100 + rng.below(900)) {
                if kind == Kind::Command {
                    if rng.chance(1, 4) { out.extend(b"\x1b[1m") } else { out.extend(utf8_char(rng)) }
                } else {
                    out.extend(piece(rng).1);
                }
            }
            ("long:many-items".into(), out)
        }
        2 => {
            // long failing CSI: thousands of parameter bytes, then a byte that kills it (everything is re-scheduled)
            let mut out = b"\x1b[".to_vec();
            for _ in 0..(1500 + rng.below(3000)) {
                out.push(*rng.pick(b"0123456789;:"));
            }
            out.push(*rng.pick(b" !\"x\x1b\x80"));
            out.extend(b"\x1b[5;6R");
            ("long:failing-csi".into(), out)
        }
        3 => {
            let n = long_num(rng, max_pow);
            let m = long_num(rng, 3);
            match rng.below(5) {
                0 => ("long:cursor".into(), s(format!("\x1b[{n};{m}R"))),
                1 => ("long:mouse".into(), s(format!("\x1b[<{m};{n};7{}", rng.pick(&["m", "M"])))),
                2 => ("long:kitty-key".into(), s(format!("\x1b[{n};{m}u"))),
                3 => ("long:size".into(), s(format!("\x1b[8;{n};1t\x1b[4;2;{m}t"))),
                _ => ("long:device-attrs".into(), s(format!("\x1b[?{n};{m};0c"))),
            }
        }
        4 => {
            // multi-KB unterminated string sequence, followed by more input (or by nothing)
            let head: &[u8] = *rng.pick(&[b"\x1b]4;1;rgb:".as_slice(), b"\x1bP1$r", b"\x1bP1+r", b"\x1b_Gi=31;", b"\x1b[200~", b"\x1b]11;"]);
            let mut out = head.to_vec();
            let n = 2048 + rng.below(14000);
            for _ in 0..n {
                out.push(match rng.below(3) {
                    0 => rng.range(0x20, 0x7e) as u8,
                    1 => *rng.pick(b"0123456789abcdef;=/"),
                    _ => rng.range(0x80, 0xff) as u8,
                });
            }
            match rng.below(3) {
                0 => {}
                1 => out.extend(b"\x1b[1;1R"),
                _ => out.extend(b"\x1bxyz"),
            }
            ("long:unterminated".into(), out)
        }
        5 => {
            // the same, terminated: a multi-KB OSC / DECRPSS / paste / kitty response
            let (head, tail): (&[u8], &[u8]) = *rng.pick(&[
                (b"\x1b]10;".as_slice(), b"\x07".as_slice()), (b"\x1bP1$r", b"m\x1b\\"), (b"\x1b[200~", b"\x1b[201~"), (b"\x1b_Gi=7;", b"\x1b\\"),
            ]);
            let mut out = head.to_vec();
            for _ in 0..(2048 + rng.below(6000)) {
                out.push(*rng.pick(b"0123456789;:abcdefXYZ /#"));
            }
            out.extend(tail);
            ("long:terminated".into(), out)
        }
        6 => {
            // termcap with thousands of hex pairs, kitty image with a huge id
            if rng.chance(1, 2) {
                let mut x = "\x1bP1+r".to_string();
                for i in 0..(600 + rng.below(600)) {
                    if i > 0 && rng.chance(1, 8) {
                        x.push(';');
                    }
                    x.push_str(&format!("{:02x}", rng.range(0x30, 0x7a)));
                    if rng.chance(1, 16) {
                        x.push('=');
                        x.push_str("41");
                    }
                }
                x.push_str("\x1b\\");
                ("long:termcap".into(), s(x))
            } else {
                ("long:kitty-image".into(), s(format!("\x1b_Gi={},p={};OK\x1b\\", long_num(rng, max_pow), long_num(rng, 3))))
            }
        }
        _ => ("long:osc-index".into(), s(format!("\x1b]4;{};rgb:ff/00/00\x07", long_num(rng, max_pow)))),
    }
}

/// partitions of a stream: whole, byte-wise, and `extra` random ones with empty reads
pub fn partitions(rng: &mut Rng, len: usize, extra: usize) -> Vec<Vec<usize>> {
    let mut out = vec![vec![len], if len == 0 { vec![0, 0] } else { vec![1; len] }];
    for _ in 0..extra {
        let mut p = Vec::new();
        let mut left = len;
        if rng.chance(1, 4) {
            p.push(0);
        }
        while left > 0 {
            let step = match rng.below(4) {
                0 => 0,
                1 => 1,
                2 => 1 + rng.below(3) as usize,
                _ => 1 + rng.below(left as u64) as usize,
            }
            .min(left);
            p.push(step);
            left -= step;
        }
        if rng.chance(1, 3) || p.is_empty() {
            p.push(0);
        }
        out.push(p);
    }
    out
}


const WIDE: [&str; 5] = ["\u{e9}", "\u{20ac}", "\u{1f431}", "\u{7ff}", "\u{10ffff}"];

/// a short text field that is valid UTF-8 but not what a numeric / hex field should be: hex digits with
/// multi-byte characters, signs, spaces and non-hex letters at random positions
pub fn text_field(rng: &mut Rng, max: u64) -> String {
    let mut out = String::new();
    for _ in 0..(1 + rng.below(max)) {
        match rng.below(8) {
            0 | 1 => out.push_str(*rng.pick(&WIDE[..])),
            2 => out.push(*rng.pick(&['+', '-', ' ', 'g', 'x', 'G', '.', '#'])),
            _ => out.push(*rng.pick(b"0123456789abcdefABCDEF") as char),
        }
    }
    out
}

/// a field of about `len` bytes with the character `ch` starting at byte offset `at`, hex digits elsewhere
fn field_with(len: usize, at: usize, ch: &str) -> String {
    let mut out = String::new();
    for i in 0..at {
        out.push(b"f0a9"[i % 4] as char);
    }
    out.push_str(ch);
    while out.len() < len {
        out.push('1');
    }
    out
}

/// Systematic text corner cases: inside every string payload the decoders parse as text (OSC 4 / 10 / 11
/// colour specifications, `#` colours, DECRPSS, kitty replies, XTGETTCAP hex) a multi-byte UTF-8 character or
/// a non-digit is placed at every byte offset of every component / field of 1 to 5 bytes.
pub fn text_corners() -> Vec<(Kind, &'static str, Vec<u8>)> {
    let mut fields: Vec<String> = Vec::new();
    for len in 1..=5usize {
        for at in 0..len {
            for ch in ["\u{e9}", "\u{20ac}", "\u{1f431}", "g", "+", " "] {
                fields.push(field_with(len, at, ch));
            }
        }
    }
    fields.sort();
    fields.dedup();
    let mut v: Vec<(Kind, &'static str, Vec<u8>)> = Vec::new();
    let mut push = |x: String| v.push((Kind::Event, "text-corner", x.into_bytes()));
    for (k, f) in fields.iter().enumerate() {
        // the odd field in the first, second, third component (components are evaluated left to right)
        let head = ["10", "11", "4;7"][k % 3];
        let end = ["\x07", "\x1b\\"][k % 2];
        push(format!("\x1b]{head};rgb:{f}/00/00{end}"));
        push(format!("\x1b]{head};rgb:12/{f}/00{end}"));
        push(format!("\x1b]{head};rgb:12/3456/{f}{end}"));
        if k % 4 == 0 {
            push(format!("\x1b]{head};#{f}{f}{end}"));
            push(format!("\x1b]4;{f};rgb:00/00/00{end}"));
            push(format!("\x1bP1$r38;2;{f};0;0m\x1b\\"));
            push(format!("\x1bP1$r{f}\x1b\\"));
            push(format!("\x1b_Gi=1;{f}\x1b\\"));
            push(format!("\x1b_Gi=1,p=2;E{f}:{f}\x1b\\"));
            push(format!("\x1b[200~{f}\x1b[201~"));
            push(format!("\x1bP1+r{f}=41\x1b\\"));
            push(format!("\x1bP0+r41;{f}\x1b\\"));
        }
    }
    v
}

/// white-box corner cases: the witnesses of the repaired defects and their neighbours
pub fn corners() -> Vec<(Kind, &'static str, Vec<u8>)> {
    let mut v: Vec<(Kind, &'static str, Vec<u8>)> = Vec::new();
    let ev: &[&[u8]] = &[
        b"\x1b[<0;0;0M", b"\x1b[<0;0;0m", b"\x1b[<0;1;0M", b"\x1b[<0;0;1M", b"\x1b[<0;1;0m", b"\x1b[<0;0;1m",
        b"\x1b[<35;1;1m", b"\x1b[<0;18446744073709551616;1M", b"\x1b[<99999999999999999999;2;3M",
        b"\x1b[0;0R", b"\x1b[0;1R", b"\x1b[1;0R", b"\x1b[1;5R", b"\x1b[2;5R", b"\x1b[18446744073709551615;18446744073709551616R",
        b"\x1b[99999999999999999999;1R", b"\x1b[4294967296;4294967297R",
        b"\x1b[u", b"\x1b[;u", b"\x1b[:u", b"\x1b[;;u", b"\x1b[?u", b"\x1b[?0u", b"\x1b[?99999999999999999999u",
        b"\x1b[97u", b"\x1b[97;u", b"\x1b[97;5u", b"\x1b[97;256u", b"\x1b[97;257u", b"\x1b[97;511u", b"\x1b[97;512u", b"\x1b[97;513u", b"\x1b[97;514u", b"\x1b[97;65537u", b"\x1b[57376;1025u", b"\x1b[97;4294967295u", b"\x1b[97;4294967296u", b"\x1b[97;4294967297u", b"\x1b[97;4294967809u", b"\x1b[97;18446744073709551615u", b"\x1b[97;18446744073709551616u", b"\x1b[<255;1;1M", b"\x1b[<4294967295;1;1m", b"\x1b[<18446744073709551615;1;1M", b"\x1b[97;4294967298u", b"\x1b[97;18446744073709551617u", b"\x1b[97;1:0u", b"\x1b[97;1:1u",
        b"\x1b[55296u", b"\x1b[1114112u", b"\x1b[4294967393u", b"\x1b[18446744073709551713u", b"\x1b[57376u", b"\x1b[57398u", b"\x1b[57344u",
        b"\x1b[38;2;256;0;0m", b"\x1b[38;2;0;256;0m", b"\x1b[38;2;0;0;256m", b"\x1b[38:2:256:0:0m", b"\x1b[38:2::0:0:256m",
        b"\x1b[48;2;1;2;511m", b"\x1b[58;2;18446744073709551616;2;3m", b"\x1b[38;5;256m", b"\x1b[38:5:4294967296m", b"\x1b[38;2;1;2;3;4m",
        b"\x1b[m", b"\x1b[;m", b"\x1b[;;m", b"\x1b[38m", b"\x1b[38;2m", b"\x1b[38;2;1m", b"\x1b[38;5m",
        b"\x1bP1$r38;2;256;0;0m\x1b\\", b"\x1bP1$r48;2;1;2;256m\x1b\\", b"\x1bP1$rm\x1b\\", b"\x1bP1$r\x1b\\", b"\x1bP0$r\x1b\\",
        b"\x1b[?c", b"\x1b[?;c", b"\x1b[?0;0c", b"\x1b[?62;4;99999999999999999999c",
        b"\x1b[?2004;1$y", b"\x1b[?18446744073709551641;1$y", b"\x1b[?25;18446744073709551617$y",
        b"\x1b[8;0;0t\x1b[4;0;0t", b"\x1b[8;99999999999999999999;1t\x1b[4;1;18446744073709551616t",
        b"\x1b_Gi=99999999999999999999;OK\x1b\\", b"\x1b_Gi=1,p=18446744073709551616;ENOENT\x1b\\", b"\x1b_Gi=1,i=2;OK\x1b\\", b"\x1b_Ga=b;\x1b\\",
        b"\x1b]4;99999999999999999999;rgb:ff/ff/ff\x07", b"\x1b]4;1;rgb:fffff/0/0\x07", b"\x1b]10;rgb:f/ff/fff\x1b\\", b"\x1b]11;rgb:ffff/0000/8080\x07",
        b"\x1bP1+r\x1b\\", b"\x1bP0+r\x1b\\", b"\x1bP1+r62=63\x1b\\", b"\x1bP1+r6=63\x1b\\", b"\x1bP1+r626=63\x1b\\", b"\x1bP0+r626\x1b\\",
        b"\x1b[200~\x1b[201~", b"\x1b[200~\xff\x1b[201~", b"\x1b[200~abc", b"\x1b]4;1;rgb:", b"\x1bP1$r", b"\x1b_Gi=1;",
        b"\xed\xa0\x80", b"\xf7\xbf\xbf\xbf", b"\xf4\x90\x80\x80", b"\xc0\x80", b"\xe0\x80\x80", b"\xf0\x80\x80\x80", b"\xf5\x80\x80\x80", b"\xff", b"\xfe",
        b"\xe2\x82\xac", b"\xf0\x9f\x98\x80", b"\xf4\x8f\xbf\xbf", b"\xed\x9f\xbf", b"\xee\x80\x80", b"\xc2\x80", b"\xdf\xbf", b"\xe0\xa0\x80",
        b"\x1bOT", b"\x1b", b"\x1b\x1b", b"\x1b[", b"",
    ];
    for s in ev {
        v.push((Kind::Event, "corner", s.to_vec()));
    }
    let cmd: &[&[u8]] = &[
        b"\x1b[38;2;256;0;0m", b"\x1b[38:2:256:0:0m", b"\x1b[48;2;1;2;511mx", b"\x1b[99999999999999999999m", b"\x1b[38;5;256m",
        b"\x1b[m", b"\x1b[;;m", b"\x1b[38;2;1;2;3;4m", b"\xed\xa0\x80", b"\xf7\xbf\xbf\xbf", b"\xf4\x90\x80\x80", b"\xc0\x80", b"\xe0\x80\x80",
        b"\xf0\x80\x80\x80", b"\xff", b"a\xe2\x82\xacb", b"\x1b[u", b"\x1b", b"\x1b[", b"\x00\x1b\x7f", b"",
    ];
    for s in cmd {
        v.push((Kind::Command, "corner", s.to_vec()));
    }
    let u8s: &[&[u8]] = &[
        b"\xed\xa0\x80", b"\xed\xa0\x80A", b"\xf7\xbf\xbf\xbf", b"\xf4\x90\x80\x80", b"\xc0\x80", b"\xe0\x80\x80", b"\xf0\x80\x80\x80",
        b"\xf5\x80\x80\x80", b"\xff", b"\xe2\x82\xac", b"\xe2\x82", b"\xe2\x82A\xe2\x82\xac", b"\xe2A\xc3\xa9", b"\xf0\x9f\xc3\xa9\xf0\x9f\x98\x80",
        b"\x80\xe2\x82\xac", b"\xc2\xc2\xa9", b"\xf0\x9f\x98\x80\xf0\x9f\x98", b"\xf4\x8f\xbf\xbf", b"\xed\x9f\xbf\xee\x80\x80", b"A", b"\x00", b"\x7f", b"",
        b"\xe0\xa0\x80", b"\xf0\x90\x80\x80", b"\xdf\xbf", b"\xc2\x80",
    ];
    for s in u8s {
        v.push((Kind::Utf8, "corner", s.to_vec()));
    }
    v
}
