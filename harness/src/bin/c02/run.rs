//! Runs one input through the real decoders (inside a child process) and applies the oracle.
use crate::events;
use crate::geninp::{Input, Kind};
use crate::oracle::{self, Fail};
use serde_json::{Value, json};
use std::io::Cursor;
use surf_n_term::{
    TerminalCommand,
    decoder::{Decoder, TTYCommandDecoder, TTYEventDecoder, Utf8Decoder, verif_c03::VerifTokenizer},
    terminal::TerminalEvent,
};
use verif_harness::{guarded, out::hex};

pub struct Outcome {
    /// things noticed that are not C02's to judge (exactness of values, chunk dependence, …): counted only
    pub obs: Vec<String>,
    pub fails: Vec<Value>,
    pub corr: Vec<(String, String)>,
    pub oracle: Vec<(String, String)>,
    pub hist: Vec<String>,
    pub events: usize,
    pub nontrivial: bool,
    pub sample: Option<Value>,
}

pub fn chunks_of<'a>(stream: &'a [u8], part: &[usize]) -> Vec<&'a [u8]> {
    let mut out = Vec::new();
    let mut at = 0;
    for n in part {
        out.push(&stream[at..at + n]);
        at += n;
    }
    out
}

pub fn chunks_str(stream: &[u8], part: &[usize]) -> String {
    chunks_of(stream, part).iter().map(|c| hex(c)).collect::<Vec<_>>().join("/")
}

fn input_json(inp: &Input, part: Option<&[usize]>) -> Value {
    json!({
        "decoder": inp.kind.name(),
        "class": inp.class,
        "stream": hex(&inp.stream),
        "reads": part.map(|p| chunks_str(&inp.stream, p)),
    })
}

/// a reader over one buffer whose `fill_buf` hands out at most `max` bytes at a time and, if `flaky`, fails with
/// `Interrupted` on every other call (nothing is consumed by a failed call)
struct Feed<'a> {
    data: &'a [u8],
    pos: usize,
    max: usize,
    flaky: bool,
    calls: usize,
}

impl<'a> std::io::Read for Feed<'a> {
    fn read(&mut self, buf: &mut [u8]) -> std::io::Result<usize> {
        let n = buf.len().min(self.max).min(self.data.len() - self.pos);
        buf[..n].copy_from_slice(&self.data[self.pos..self.pos + n]);
        self.pos += n;
        Ok(n)
    }
}

impl<'a> std::io::BufRead for Feed<'a> {
    fn fill_buf(&mut self) -> std::io::Result<&[u8]> {
        self.calls += 1;
        if self.flaky && self.calls % 2 == 1 {
            return Err(std::io::Error::new(std::io::ErrorKind::Interrupted, "interrupted"));
        }
        let end = (self.pos + self.max).min(self.data.len());
        Ok(&self.data[self.pos..end])
    }
    fn consume(&mut self, amt: usize) {
        self.pos = (self.pos + amt).min(self.data.len());
    }
}

/// the readers a decoder is driven with besides `Cursor`: a plain slice, a reader that hands out a few bytes
/// per `fill_buf`, the crate's own `IOQueue` holding several chunks, a reader that fails every other call
#[derive(Clone, Copy, Debug)]
pub enum ReaderKind {
    Slice,
    Small(usize),
    Queue,
    Flaky,
}

/// drive one decoder over the whole stream through an alternative reader: `decode` is called until it reports
/// `None` with nothing left in the reader; an error of a flaky reader is retried with the SAME decoder
fn drive_alt<D: Decoder>(mut dec: D, stream: &[u8], part: &[usize], kind: ReaderKind) -> Result<Vec<D::Item>, RunErr>
where
    D::Item: std::fmt::Debug,
    D::Error: std::fmt::Debug,
{
    use std::io::{BufRead, Write};
    let bound = 8 * stream.len() + 64;
    let r = guarded(move || -> Result<Vec<D::Item>, RunErr> {
        let mut items = Vec::new();
        let mut calls = 0usize;
        macro_rules! run {
            ($rd:expr, $left:expr) => {{
                loop {
                    calls += 1;
                    if calls > bound {
                        return Err(RunErr::NoEnd(format!("{calls} calls for {} bytes through {kind:?}", stream.len())));
                    }
                    match dec.decode(&mut $rd) {
                        Ok(Some(item)) => items.push(item),
                        Ok(None) => {
                            if $left(&mut $rd) == 0 {
                                break;
                            }
                        }
                        Err(e) => {
                            if !matches!(kind, ReaderKind::Flaky) {
                                return Err(RunErr::Io(format!("{e:?}")));
                            }
                        }
                    }
                }
            }};
        }
        match kind {
            ReaderKind::Slice => {
                let mut rd: &[u8] = stream;
                run!(rd, |r: &mut &[u8]| r.len());
            }
            ReaderKind::Small(n) => {
                let mut rd = Feed { data: stream, pos: 0, max: n.max(1), flaky: false, calls: 0 };
                run!(rd, |r: &mut Feed| r.data.len() - r.pos);
            }
            ReaderKind::Flaky => {
                let mut rd = Feed { data: stream, pos: 0, max: 5, flaky: true, calls: 0 };
                run!(rd, |r: &mut Feed| r.data.len() - r.pos);
            }
            ReaderKind::Queue => {
                let mut rd = surf_n_term::common::IOQueue::new();
                let mut at = 0;
                for n in part {
                    rd.write_all(&stream[at..at + n]).map_err(|e| RunErr::Io(format!("{e:?}")))?;
                    rd.flush().map_err(|e| RunErr::Io(format!("{e:?}")))?;
                    at += n;
                }
                // nothing left: the front slice stays empty after an empty `consume`
                run!(rd, |r: &mut surf_n_term::common::IOQueue| {
                    let mut left = r.fill_buf().map(|b| b.len()).unwrap_or(0);
                    let mut tries = 0;
                    while left == 0 && tries < part.len() + 2 {
                        BufRead::consume(r, 0);
                        left = r.fill_buf().map(|b| b.len()).unwrap_or(0);
                        tries += 1;
                    }
                    left
                });
            }
        }
        for _ in 0..3 {
            let mut cur = Cursor::new(&b""[..]);
            if let Some(item) = dec.decode(&mut cur).map_err(|e| RunErr::Io(format!("{e:?}")))? {
                return Err(RunErr::AfterEnd(format!("{item:?}")));
            }
        }
        Ok(items)
    });
    match r {
        Ok(x) => x,
        Err(()) => Err(RunErr::Panic),
    }
}

enum RunErr {
    Panic,
    /// `decode` kept returning items although no input is left
    NoEnd(String),
    /// `decode` returned something after it had reported `None` on exhausted input
    AfterEnd(String),
    Io(String),
}

/// drive a decoder the way `UnixTerminal::poll` does: per read, `decode` until it reports `None`;
/// every second partition goes through `decode_into` instead. After the last read: three more calls on
/// empty input, all of which must report `None`.
fn drive<D: Decoder>(mut dec: D, chunks: &[&[u8]], use_into: bool) -> Result<Vec<D::Item>, RunErr>
where
    D::Item: std::fmt::Debug,
    D::Error: std::fmt::Debug,
{
    let total: usize = chunks.iter().map(|c| c.len()).sum();
    let r = guarded(move || -> Result<Vec<D::Item>, RunErr> {
        let mut items = Vec::new();
        for chunk in chunks {
            let mut cur = Cursor::new(*chunk);
            if use_into {
                dec.decode_into(&mut cur, &mut items).map_err(|e| RunErr::Io(format!("{e:?}")))?;
            } else {
                // bytes rescheduled by earlier reads may surface now: the bound is in terms of the whole stream
                let bound = 4 * total + 64;
                let mut calls = 0;
                loop {
                    calls += 1;
                    if calls > bound {
                        return Err(RunErr::NoEnd(format!("{calls} items from a read of {} bytes", chunk.len())));
                    }
                    match dec.decode(&mut cur).map_err(|e| RunErr::Io(format!("{e:?}")))? {
                        Some(item) => items.push(item),
                        None => break,
                    }
                }
            }
            if cur.position() as usize != chunk.len() {
                return Err(RunErr::NoEnd(format!("reported None with {} unread bytes", chunk.len() - cur.position() as usize)));
            }
        }
        for _ in 0..3 {
            let mut cur = Cursor::new(&b""[..]);
            if let Some(item) = dec.decode(&mut cur).map_err(|e| RunErr::Io(format!("{e:?}")))? {
                return Err(RunErr::AfterEnd(format!("{item:?}")));
            }
        }
        Ok(items)
    });
    match r {
        Ok(x) => x,
        Err(()) => Err(RunErr::Panic),
    }
}

fn report_run_err(fails: &mut Vec<Value>, inp: &Input, part: &[usize], e: RunErr) {
    let (what, got) = match e {
        RunErr::Panic => ("decoder panicked".to_string(), "panic".to_string()),
        RunErr::NoEnd(s) => ("decoder does not report the end of the input".to_string(), s),
        RunErr::AfterEnd(s) => ("decoder yields an item after it reported that nothing more is available".to_string(), s),
        RunErr::Io(s) => ("decoder failed on an in-memory reader".to_string(), s),
    };
    fails.push(json!({"what": what, "input": input_json(inp, Some(part)), "expected": "all items, then None (and None again)", "got": got}));
}

fn push_fails(o: &mut Outcome, inp: &Input, part: Option<&[usize]>, fs: Vec<Fail>) {
    for (what, expected, got) in fs {
        if let Some(w) = what.strip_prefix("obs:") {
            o.obs.push(w.to_string());
            continue;
        }
        o.fails.push(json!({"what": what, "input": input_json(inp, part), "expected": expected, "got": got}));
    }
}

/// token boundaries of the stream (hook of C03: the private tokenizer without payload decoding)
fn boundaries(kind: Kind, stream: &[u8]) -> Result<Vec<usize>, ()> {
    guarded(|| {
        let items = match kind {
            Kind::Event => VerifTokenizer::event().feed_by_decode(stream).0,
            _ => VerifTokenizer::command().feed_by_decode(stream).0,
        };
        items.iter().map(|i| i.end).collect()
    })
}

pub fn run_matcher_input(inp: &Input) -> Outcome {
    let mut o = Outcome { obs: vec![], fails: vec![], corr: vec![], oracle: vec![], hist: vec![], events: 0, nontrivial: false, sample: None };
    let mut reference: Option<Vec<String>> = None;
    for (pi, part) in inp.parts.iter().enumerate() {
        let chunks = chunks_of(&inp.stream, part);
        let use_into = pi % 2 == 1;
        // events rendered for comparison across partitions, and judged once (first partition)
        let shown: Vec<String> = match inp.kind {
            Kind::Event => match drive(TTYEventDecoder::new(), &chunks, use_into) {
                Ok(events) => {
                    // every partition is judged (a defect may show only under some cut); the first one also
                    // feeds the histogram and the correspondence with the model
                    let answer = judge_events_checked(&mut o, inp, &events, pi == 0);
                    if pi == 0 {
                        if let Some(answer) = answer {
                            model_lines(&mut o, inp, "ev", answer);
                        }
                    }
                    events.iter().map(|e| format!("{e:?}")).collect()
                }
                Err(e) => {
                    report_run_err(&mut o.fails, inp, part, e);
                    return o;
                }
            },
            _ => match drive(TTYCommandDecoder::new(), &chunks, use_into) {
                Ok(cmds) => {
                    let answer = judge_commands_checked(&mut o, inp, &cmds, pi == 0);
                    if pi == 0 {
                        if let Some(answer) = answer {
                            model_lines(&mut o, inp, "cmd", answer);
                        }
                    }
                    cmds.iter().map(|e| format!("{e:?}")).collect()
                }
                Err(e) => {
                    report_run_err(&mut o.fails, inp, part, e);
                    return o;
                }
            },
        };
        match &reference {
            None => {
                o.events = shown.len();
                reference = Some(shown);
            }
            Some(r) => {
                if *r != shown {
                    // C03's property; here only counted (the correspondence with the model run on this partition sees it)
                    o.obs.push("events depend on how the stream is cut into reads".into());
                    o.corr.push((format!("c02 {} {}", if inp.kind == Kind::Event { "ev" } else { "cmd" }, chunks_str(&inp.stream, part)),
                        format!("partition-dependent: {}", shown.join(" "))));
                }
            }
        }
    }
    // one more run through a reader other than `Cursor` (rotating with the input number)
    if inp.stream.len() <= 30_000 {
        let kind = match inp.id % 5 {
            0 => ReaderKind::Slice,
            1 => ReaderKind::Small(1 + inp.id / 5 % 4),
            2 => ReaderKind::Queue,
            3 => ReaderKind::Flaky,
            _ => ReaderKind::Small(7),
        };
        let part = inp.parts.last().cloned().unwrap_or_default();
        let shown: Result<Vec<String>, RunErr> = match inp.kind {
            Kind::Event => drive_alt(TTYEventDecoder::new(), &inp.stream, &part, kind).map(|events| {
                judge_events_checked(&mut o, inp, &events, false);
                events.iter().map(|e| format!("{e:?}")).collect()
            }),
            _ => drive_alt(TTYCommandDecoder::new(), &inp.stream, &part, kind).map(|cmds| {
                judge_commands_checked(&mut o, inp, &cmds, false);
                cmds.iter().map(|e| format!("{e:?}")).collect()
            }),
        };
        o.hist.push(format!("reader:{}", match kind { ReaderKind::Slice => "slice", ReaderKind::Small(_) => "small-fill", ReaderKind::Queue => "ioqueue", ReaderKind::Flaky => "interrupted" }));
        match shown {
            Ok(shown) => {
                if reference.as_ref() != Some(&shown) {
                    o.obs.push(format!("events depend on the reader ({kind:?})"));
                    o.corr.push((format!("c02 {} {}", if inp.kind == Kind::Event { "ev" } else { "cmd" }, chunks_str(&inp.stream, &inp.parts[0])),
                        format!("reader-dependent ({kind:?}): {}", shown.join(" "))));
                }
            }
            Err(e) => {
                let mut fails = Vec::new();
                report_run_err(&mut fails, inp, &part, e);
                for mut f in fails {
                    f["what"] = json!(format!("{} (reader: {kind:?})", f["what"].as_str().unwrap_or("")));
                    o.fails.push(f);
                }
            }
        }
    }
    o.nontrivial = o.events > 0;
    o
}

/// correspondence with the Lean model of the whole decoder (tokenizer over the dumped production automaton,
/// then the payload decoders), on the whole stream and on the last (random) partition
fn model_lines(o: &mut Outcome, inp: &Input, op: &str, answer: String) {
    // the list based Lean tokenizer is quadratic in the token length: streams above 30 KB go through the
    // implementation and the oracle only, except the few marked `model:` (thorough tier)
    if inp.stream.len() > 30_000 && !inp.class.starts_with("model:") {
        return;
    }
    o.corr.push((format!("c02 {op} {}", chunks_str(&inp.stream, &inp.parts[0])), answer.clone()));
    if let Some(last) = inp.parts.last() {
        if inp.parts.len() > 2 {
            o.corr.push((format!("c02 {op} {}", chunks_str(&inp.stream, last)), answer));
        }
    }
}

fn segments<'a>(o: &mut Outcome, inp: &'a Input, n_items: usize) -> Option<Vec<&'a [u8]>> {
    let ends = match boundaries(inp.kind, &inp.stream) {
        Ok(e) => e,
        Err(()) => {
            o.fails.push(json!({"what": "tokenizer panicked", "input": input_json(inp, None), "expected": "no panic", "got": "panic"}));
            return None;
        }
    };
    if ends.len() != n_items || ends.windows(2).any(|w| w[0] > w[1]) || ends.last().map_or(false, |e| *e > inp.stream.len()) {
        o.fails.push(json!({"what": "decoder items do not correspond to the tokens of the stream", "input": input_json(inp, None),
            "expected": format!("{} tokens ending at {:?}", ends.len(), ends), "got": format!("{n_items} items")}));
        return None;
    }
    let mut segs = Vec::new();
    let mut at = 0;
    for e in ends {
        segs.push(&inp.stream[at..e]);
        at = e;
    }
    Some(segs)
}

/// secondary runs (other partitions, other readers): judged only when the items line up with the tokens of the
/// stream; otherwise the run differs from the first one, which is counted as chunk / reader dependence
fn judge_events_checked(o: &mut Outcome, inp: &Input, events: &[TerminalEvent], primary: bool) -> Option<String> {
    if !primary {
        if let Ok(ends) = boundaries(inp.kind, &inp.stream) {
            if ends.len() != events.len() {
                o.obs.push("items of a secondary run do not line up with the tokens of the stream".into());
                return None;
            }
        }
    }
    judge_events(o, inp, events, primary)
}

fn judge_commands_checked(o: &mut Outcome, inp: &Input, cmds: &[TerminalCommand], primary: bool) -> Option<String> {
    if !primary {
        if let Ok(ends) = boundaries(inp.kind, &inp.stream) {
            if ends.len() != cmds.len() {
                o.obs.push("items of a secondary run do not line up with the tokens of the stream".into());
                return None;
            }
        }
    }
    judge_commands(o, inp, cmds, primary)
}

fn judge_events(o: &mut Outcome, inp: &Input, events: &[TerminalEvent], primary: bool) -> Option<String> {
    let mut answer = None;
    // raw bytes in order: property level check, independent of the token boundaries
    let mut raw_all = Vec::new();
    for e in events {
        if let TerminalEvent::Raw(b) = e {
            if b.is_empty() {
                push_fails(o, inp, None, vec![("raw event without bytes".into(), "at least one byte".into(), "empty".into())]);
            }
            raw_all.extend_from_slice(b);
        }
    }
    if !oracle::is_subsequence(&raw_all, &inp.stream) {
        push_fails(o, inp, None, vec![("bytes of raw events do not occur in the input in order".into(), hex(&inp.stream), hex(&raw_all))]);
    }
    if let Some(segs) = segments(o, inp, events.len()) {
        for (seg, ev) in segs.iter().zip(events) {
            let mut fs = Vec::new();
            let fam = oracle::check_event(&mut fs, seg, ev);
            if primary {
                o.hist.push(format!("event:{fam}"));
            }
            push_fails(o, inp, None, fs);
        }
        // rendering for the correspondence with the Lean model of the whole decoder; an OSC colour report whose
        // colour text goes to the part of rasterize that is not modelled is `ext` on both sides
        let shown: Vec<String> = segs
            .iter()
            .zip(events)
            .map(|(seg, ev)| {
                if is_osc_token(seg) && events::osc_external(seg) {
                    return "ext".to_string();
                }
                // the shared printer renders modifiers through KeyMod's own accessors: a raw word that is not the
                // union of the named flags is made visible to the correspondence as well
                let raw = match ev {
                    TerminalEvent::Key(k) => Some(oracle::mod_bits(k.mode)),
                    TerminalEvent::Mouse(m) => Some(oracle::mod_bits(m.mode)),
                    _ => None,
                };
                match raw {
                    Some(r) if r & !oracle::MOD_ALL != 0 => format!("{}!rawmod={r:#x}", events::show_event(ev)),
                    _ => events::show_event(ev),
                }
            })
            .collect();
        let used: usize = segs.iter().map(|s| s.len()).sum();
        answer = Some(format!("{} rest={}", if shown.is_empty() { "-".to_string() } else { shown.join(" ") }, hex(&inp.stream[used..])));
    }
    if o.sample.is_none() && !events.is_empty() {
        o.sample = Some(json!({"decoder": "event", "stream": hex(&inp.stream), "events": events.iter().map(|e| format!("{e:?}")).collect::<Vec<_>>()}));
    }
    answer
}

/// `ESC ] digits ; [^ESC BEL]+ (BEL | ESC \)`: a complete OSC reply
fn is_osc_token(seg: &[u8]) -> bool {
    if seg.len() < 6 || seg[0] != 0x1b || seg[1] != b']' {
        return false;
    }
    let body = if seg[seg.len() - 1] == 7 {
        &seg[2..seg.len() - 1]
    } else if seg.ends_with(b"\x1b\\") {
        &seg[2..seg.len() - 2]
    } else {
        return false;
    };
    let nd = body.iter().take_while(|b| b.is_ascii_digit()).count();
    nd >= 1 && body.get(nd) == Some(&b';') && body.len() > nd + 1 && body[nd + 1..].iter().all(|b| *b != 0x1b && *b != 7)
}

fn judge_commands(o: &mut Outcome, inp: &Input, cmds: &[TerminalCommand], primary: bool) -> Option<String> {
    let mut answer = None;
    let mut raw_all = Vec::new();
    for c in cmds {
        if let TerminalCommand::Raw(b) = c {
            if b.is_empty() {
                push_fails(o, inp, None, vec![("raw event without bytes".into(), "at least one byte".into(), "empty".into())]);
            }
            raw_all.extend_from_slice(b);
        }
    }
    if !oracle::is_subsequence(&raw_all, &inp.stream) {
        push_fails(o, inp, None, vec![("bytes of raw events do not occur in the input in order".into(), hex(&inp.stream), hex(&raw_all))]);
    }
    if let Some(segs) = segments(o, inp, cmds.len()) {
        for (seg, c) in segs.iter().zip(cmds) {
            let mut fs = Vec::new();
            let fam = oracle::check_command(&mut fs, seg, c);
            if primary {
                o.hist.push(format!("command:{fam}"));
            }
            push_fails(o, inp, None, fs);
        }
        let shown: Vec<String> = cmds.iter().map(events::show_command).collect();
        let used: usize = segs.iter().map(|s| s.len()).sum();
        answer = Some(format!("{} rest={}", if shown.is_empty() { "-".to_string() } else { shown.join(" ") }, hex(&inp.stream[used..])));
    }
    if o.sample.is_none() && !cmds.is_empty() {
        o.sample = Some(json!({"decoder": "command", "stream": hex(&inp.stream), "items": cmds.iter().map(|e| format!("{e:?}")).collect::<Vec<_>>()}));
    }
    answer
}

// ---------------------------------------------------------------- Utf8Decoder

#[derive(Clone, PartialEq, Debug)]
enum UItem {
    Chr(u32, Vec<u8>),
    Err(Vec<u8>),
}

/// per read: `decode` until `Ok(None)`; an `Err` is a result like any other (the caller goes on).
/// Every result carries the bytes consumed since the previous result.
fn drive_utf8(chunks: &[&[u8]]) -> Result<(Vec<Vec<UItem>>, Vec<u8>), RunErr> {
    let total: usize = chunks.iter().map(|c| c.len()).sum();
    let r = guarded(|| -> Result<(Vec<Vec<UItem>>, Vec<u8>), RunErr> {
        let mut dec = Utf8Decoder::new();
        let mut per = Vec::new();
        let mut pending: Vec<u8> = Vec::new();
        for chunk in chunks {
            let mut cur = Cursor::new(*chunk);
            let mut items = Vec::new();
            let mut calls = 0;
            loop {
                calls += 1;
                if calls > 4 * total + 64 {
                    return Err(RunErr::NoEnd(format!("{calls} results from a read of {} bytes", chunk.len())));
                }
                let before = cur.position() as usize;
                let r = dec.decode(&mut cur);
                let after = cur.position() as usize;
                pending.extend_from_slice(&chunk[before..after]);
                match r {
                    Ok(Some(c)) => items.push(UItem::Chr(std::hint::black_box(c as u32), std::mem::take(&mut pending))),
                    Ok(None) => break,
                    Err(_) => items.push(UItem::Err(std::mem::take(&mut pending))),
                }
            }
            if cur.position() as usize != chunk.len() {
                return Err(RunErr::NoEnd(format!("reported None with {} unread bytes", chunk.len() - cur.position() as usize)));
            }
            per.push(items);
        }
        for _ in 0..3 {
            let mut cur = Cursor::new(&b""[..]);
            match dec.decode(&mut cur) {
                Ok(None) => {}
                other => return Err(RunErr::AfterEnd(format!("{other:?}"))),
            }
        }
        Ok((per, pending))
    });
    match r {
        Ok(x) => x,
        Err(()) => Err(RunErr::Panic),
    }
}

fn show_uitems(items: &[UItem]) -> String {
    if items.is_empty() {
        return "-".into();
    }
    items
        .iter()
        .map(|i| match i {
            UItem::Chr(c, _) => format!("c:{c}"),
            UItem::Err(b) => format!("e:{}", if b.is_empty() { String::new() } else { hex(b) }),
        })
        .collect::<Vec<_>>()
        .join(",")
}

pub fn run_utf8_input(inp: &Input) -> Outcome {
    let mut o = Outcome { obs: vec![], fails: vec![], corr: vec![], oracle: vec![], hist: vec![], events: 0, nontrivial: false, sample: None };
    let mut reference: Option<Vec<UItem>> = None;
    for part in inp.parts.iter() {
        let chunks = chunks_of(&inp.stream, part);
        let (per, pending) = match drive_utf8(&chunks) {
            Ok(x) => x,
            Err(e) => {
                report_run_err(&mut o.fails, inp, part, e);
                return o;
            }
        };
        // correspondence with the Lean model of `Utf8Decoder`
        o.corr.push((
            format!("c02 utf8 {}", chunks_str(&inp.stream, part)),
            format!("{} buf={}", per.iter().map(|i| show_uitems(i)).collect::<Vec<_>>().join("/"), hex(&pending)),
        ));
        let flat: Vec<UItem> = per.into_iter().flatten().collect();
        match &reference {
            None => {
                // oracle, once
                let mut fs: Vec<Fail> = Vec::new();
                let mut consumed = Vec::new();
                let mut errors = 0;
                for it in &flat {
                    match it {
                        UItem::Chr(c, bytes) => {
                            consumed.extend_from_slice(bytes);
                            if !oracle::is_scalar(*c) {
                                fs.push(("character is not a Unicode scalar value".into(), "scalar value".into(), format!("U+{c:X}")));
                            }
                            match std::str::from_utf8(bytes) {
                                Ok(s) if s.chars().count() == 1 && s.chars().next().unwrap() as u32 == *c => {}
                                _ => fs.push(("character differs from the UTF-8 decoding of the bytes consumed for it".into(),
                                    format!("decoding of {}", hex(bytes)), format!("U+{c:X}"))),
                            }
                            o.hist.push("utf8:char".into());
                        }
                        UItem::Err(bytes) => {
                            consumed.extend_from_slice(bytes);
                            errors += 1;
                            if bytes.is_empty() {
                                fs.push(("obs:error reported without consuming a byte".into(), "at least one byte".into(), "none".into()));
                            }
                            o.hist.push("utf8:error".into());
                        }
                    }
                }
                consumed.extend_from_slice(&pending);
                if consumed != inp.stream {
                    fs.push(("obs:bytes consumed do not add up to the stream".into(), hex(&inp.stream), hex(&consumed)));
                }
                match std::str::from_utf8(&inp.stream) {
                    Ok(s) => {
                        let want: Vec<u32> = s.chars().map(|c| c as u32).collect();
                        let got: Vec<u32> = flat.iter().filter_map(|i| if let UItem::Chr(c, _) = i { Some(*c) } else { None }).collect();
                        if errors != 0 || want != got || !pending.is_empty() {
                            fs.push(("obs:well formed UTF-8 text is not decoded to its characters".into(), format!("{want:?}"), format!("{got:?} errors={errors}")));
                        }
                    }
                    Err(_) => {}
                }
                push_fails(&mut o, inp, Some(part), fs);
                // verified specification applied to implementation output: the encoding of every character
                // produced is the bytes it was decoded from
                for it in flat.iter().take(4) {
                    if let UItem::Chr(c, bytes) = it {
                        o.oracle.push((format!("c02 enc {c}"), hex(bytes)));
                    }
                }
                o.events = flat.len();
                if !flat.is_empty() {
                    o.sample = Some(json!({"decoder": "utf8", "stream": hex(&inp.stream), "results": show_uitems(&flat)}));
                }
                reference = Some(flat);
            }
            Some(r) => {
                if *r != flat {
                    // C03's property: counted, and visible in the correspondence line of this partition
                    o.obs.push("results depend on how the stream is cut into reads".into());
                }
            }
        }
    }
    o.nontrivial = o.events > 0;
    o
}

pub fn run_input(inp: &Input) -> Outcome {
    match inp.kind {
        Kind::Utf8 => run_utf8_input(inp),
        _ => run_matcher_input(inp),
    }
}
