//! C01: incremental rendering leaves the terminal showing the drawn surface.
//!
//! The real `TerminalRenderer` runs against a recording `Terminal`. For every generated history
//! (frames, skipped frames, `clear()`, re-creation with `clear = true`):
//!  * correspondence: the command lists must equal EXACTLY those of the Lean model `Renderer.frame`
//!    (`c01 hist …`, the whole history in one request line);
//!  * oracle: an independent reference screen (below) executes the implementation's commands and must
//!    equal `display` of the drawn surface after every rendered frame; as a second opinion the Lean
//!    `exec` + `display` judge the same commands (`c01 exec …`, oracle line) on well-placed histories.
//! Part of the histories is driven through the real `Terminal::run_render` (resize = re-creation path,
//! `frames_pending() > TERMINAL_FRAMES_DROP` = frame-drop path: the frame is drawn BEFORE `clear()`).
//! A failure is labelled with the known finding C01-img only when the failing frame (or an earlier frame
//! since the last clear / re-creation) is ill placed in a decidable sub-class: `C01-img/overhang`,
//! `C01-img/overlap`, `C01-img/cut` (a wide character with exactly one half inside an image area, which
//! includes an image cell in the shadow of a wide character). Panics are never labelled that way.
use serde_json::{Value, json};
use std::collections::BTreeMap;
use std::io::Write;
use surf_n_term::render::{Cell, TerminalRenderer};
use surf_n_term::view::ViewContext;
use surf_n_term::{
    Error, Face, FaceAttrs, TerminalAction, DecMode, Glyph, Image, Position, Size, Surface, SurfaceMut, SurfaceOwned, Terminal, TerminalCaps, TerminalCommand,
    TerminalEvent, TerminalSize, TerminalWaker, RGBA,
};
use verif_harness::{Cfg, r#gen::Rng, guarded, out::Out};

/// faces the one-field glyph variants are drawn with (faces with a visible foreground)
const VAR_FACES: [usize; 2] = [1, 4];
const PPC_H: usize = 20;
const PPC_W: usize = 10;
const SYMS: &[u8] = b"abcdefghijklmnopqrstuvwxyzABCDEFGHIJKLMNOPQRSTUVWXYZ0123456789";

// ---------------------------------------------------------------- recording terminal

struct Rec {
    size: TerminalSize,
    cmds: Vec<TerminalCommand>,
    caps: TerminalCaps,
}
impl Rec {
    fn new(h: usize, w: usize, px: (usize, usize)) -> Self {
        Rec {
            size: term_size(h, w, px),
            cmds: Vec::new(),
            caps: TerminalCaps::default(),
        }
    }
}
/// Terminal of `h x w` cells whose pixel size is NOT a multiple of the cell count when `px != (0, 0)`:
/// `px.0 < h` and `px.1 < w` extra pixels, so that a cell still has `PPC_H x PPC_W` whole pixels.
fn term_size(h: usize, w: usize, px: (usize, usize)) -> TerminalSize {
    TerminalSize { cells: Size::new(h, w), pixels: Size::new(h * PPC_H + px.0, w * PPC_W + px.1) }
}
impl Write for Rec {
    fn write(&mut self, buf: &[u8]) -> std::io::Result<usize> {
        Ok(buf.len())
    }
    fn flush(&mut self) -> std::io::Result<()> {
        Ok(())
    }
}
impl Terminal for Rec {
    fn execute(&mut self, cmd: TerminalCommand) -> Result<(), Error> {
        self.cmds.push(cmd);
        Ok(())
    }
    fn poll(&mut self, _t: Option<std::time::Duration>) -> Result<Option<TerminalEvent>, Error> {
        Ok(None)
    }
    fn size(&self) -> Result<TerminalSize, Error> {
        Ok(self.size)
    }
    fn position(&mut self) -> Result<Position, Error> {
        Ok(Position::new(0, 0))
    }
    fn waker(&self) -> TerminalWaker {
        TerminalWaker::new(|| Ok(()))
    }
    fn frames_pending(&self) -> usize {
        0
    }
    fn frames_drop(&mut self) {}
    fn dyn_ref(&mut self) -> &mut dyn Terminal {
        self
    }
    fn capabilities(&self) -> &TerminalCaps {
        &self.caps
    }
}

// ---------------------------------------------------------------- alphabet

#[derive(Clone, Copy, PartialEq, Debug)]
enum SymKind {
    Chr(char),
    Img(usize),
    Gly(usize),
}
#[derive(Clone, Copy, Debug)]
struct Sym {
    face: usize,
    kind: SymKind,
}

struct World {
    faces: Vec<Face>,
    images: Vec<Image>,         // image id -> image
    sizes: Vec<(usize, usize)>, // image id -> (rows, cols) in cells
    raster: Vec<(usize, usize, usize)>, // (face, glyph, image id)
    widths: BTreeMap<u32, usize>,
    alpha: Vec<Sym>,
    cells: Vec<Cell>,
    tables: String, // "<widths> <sizes> <rasters> <alphabet>"
    n_chars: usize, // alphabet[0..n_chars] are character cells
    plain: Vec<bool>,
    /// image id -> first id with the same pixels and size (what a terminal can tell apart)
    content: Vec<usize>,
    /// alphabet[crop_start..crop_start + 8]: crops of one picture (ids 2..5) in faces 0 and 3
    crop_start: usize,
    /// alphabet[gvar_start..gvar_start + 8]: glyphs that differ from glyph 0 in one field, faces VAR_FACES
    gvar_start: usize,
}

const CHARS: &[char] = &[' ', 'a', 'b', 'x', '世', '🤩'];
const CHAR_WIDTHS: &[(char, usize)] = &[(' ', 1), ('a', 1), ('b', 1), ('x', 1), ('世', 2), ('🤩', 2), ('\0', 0)];

fn make_image(rows: usize, cols: usize, seed: u8) -> Image {
    let mut surf: SurfaceOwned<RGBA> = SurfaceOwned::new(Size::new(rows, cols));
    surf.fill_with(|pos, _| RGBA::new(seed, (pos.row * 7 + 3) as u8, (pos.col * 5 + 1) as u8, 255));
    Image::from(surf)
}

/// one face of the alphabet, as raw data
#[derive(Debug, Clone, Copy)]
struct FaceSpec {
    fg: Option<(u8, u8, u8)>,
    bg: Option<(u8, u8, u8)>,
    underline: bool,
    bold: bool,
    reverse: bool,
    strike: bool,
}
/// what can be told apart in a face: colours and the names of its attributes
type FaceKey = (Option<[u8; 4]>, Option<[u8; 4]>, Vec<&'static str>);
const FACES: &[FaceSpec] = &[
    FaceSpec { fg: None, bg: None, underline: false, bold: false, reverse: false, strike: false },
    FaceSpec { fg: Some((0xfb, 0x49, 0x34)), bg: Some((0x3c, 0x38, 0x36)), underline: false, bold: false, reverse: false, strike: false },
    // the value the pinned code used as "impossible" initial face
    FaceSpec { fg: None, bg: Some((1, 2, 3)), underline: false, bold: false, reverse: false, strike: false },
    // attributes that are visible on a blank cell: erasing is not the same as printing spaces
    FaceSpec { fg: None, bg: Some((0x3c, 0x38, 0x36)), underline: true, bold: false, reverse: false, strike: false },
    // differs from face 1 in its attributes ONLY
    FaceSpec { fg: Some((0xfb, 0x49, 0x34)), bg: Some((0x3c, 0x38, 0x36)), underline: false, bold: true, reverse: true, strike: false },
];
impl FaceSpec {
    fn build(&self) -> Face {
        let rgba = |c: (u8, u8, u8)| RGBA::new(c.0, c.1, c.2, 255);
        let mut attrs = FaceAttrs::EMPTY;
        for (on, flag) in [(self.underline, FaceAttrs::UNDERLINE), (self.bold, FaceAttrs::BOLD), (self.reverse, FaceAttrs::REVERSE), (self.strike, FaceAttrs::STRIKE)] {
            if on {
                attrs = attrs.insert(flag);
            }
        }
        Face { fg: self.fg.map(rgba), bg: self.bg.map(rgba), attrs }
    }
    fn key(&self) -> FaceKey {
        let mut names = Vec::new();
        for (on, n) in [(self.underline, "underline"), (self.bold, "bold"), (self.reverse, "reverse"), (self.strike, "strike")] {
            if on {
                names.push(n);
            }
        }
        names.sort();
        (self.fg.map(|c| [c.0, c.1, c.2, 255]), self.bg.map(|c| [c.0, c.1, c.2, 255]), names)
    }
}
/// the same description read from a `Face` value (colour channels and attribute names)
fn face_key(f: &Face) -> FaceKey {
    let ch = |c: RGBA| [c.red(), c.green(), c.blue(), c.alpha()];
    let mut names: Vec<&'static str> = f.attrs.names().collect();
    names.sort();
    (f.fg.map(ch), f.bg.map(ch), names)
}

/// pixels of the visible part of an image, read from the raw storage through the public `Shape` fields
/// (not through `Surface::iter` / `get`)
fn pixels(img: &Image) -> Vec<RGBA> {
    let sh = img.shape();
    let data = img.data();
    let mut v = Vec::with_capacity(sh.height * sh.width);
    for r in 0..sh.height {
        for c in 0..sh.width {
            v.push(data[sh.start + r * sh.row_stride + c * sh.col_stride]);
        }
    }
    v
}

/// `Image: PartialEq` is pointer identity; a terminal identifies an image by its content
fn same_image(a: &Image, b: &Image) -> bool {
    let (sa, sb) = (a.shape(), b.shape());
    (sa.height, sa.width) == (sb.height, sb.width) && pixels(a) == pixels(b)
}

impl World {
    fn new() -> World {
        // the faces of the alphabet as RAW data; `plain` (no attribute that shows on a blank cell) and the
        // identification of faces in the renderer's commands are computed from this table, not with
        // `Face` / `FaceAttrs` comparison or accessors (code under test)
        let faces: Vec<Face> = FACES.iter().map(|sp| sp.build()).collect();
        let plain: Vec<bool> = FACES.iter().map(|sp| !(sp.underline || sp.reverse || sp.strike)).collect();
        for (f, sp) in faces.iter().zip(FACES) {
            // cross-check of the constructors / accessors used to build the value
            assert_eq!(face_key(f), sp.key(), "Face built from {sp:?} reads back differently");
        }
        // two images of different cell sizes: 1x2 and 2x3 cells
        let mut images = vec![make_image(3, 15, 10), make_image(25, 21, 200)];
        // crops of ONE backing picture (they share the allocation): two of the same size (1x2 cells),
        // one larger (2x2 cells), and a copy of the first crop's pixels in another allocation
        let pic = make_image(40, 30, 77);
        let crop_a = pic.crop(0..20usize, 0..20usize);
        let crop_b = pic.crop(20..40usize, 10..30usize);
        let crop_c = pic.crop(0..40usize, 0..20usize);
        let copy_a = {
            let sh = crop_a.shape();
            let px = pixels(&crop_a);
            let mut surf: SurfaceOwned<RGBA> = SurfaceOwned::new(Size { height: sh.height, width: sh.width });
            surf.fill_with(|pos, _| px[pos.row * sh.width + pos.col]);
            Image::from(surf)
        };
        images.extend([crop_a, crop_b, crop_c, copy_a]);
        // glyphs that differ in exactly one field: 0 = base, 1 = frame, 2 = view box, 3 = scene, 4 = size
        let path = "M10,17L5,12L6.41,10.58L10,14.17L17.59,6.58L19,8M12,2A10,10 0 0,0 2,12A10,10 0 0,0 12,22A10,10 0 0,0 22,12A10,10 0 0,0 12,2Z";
        let path2 = "M4,4L20,4L20,20L4,20Z";
        let glyph_json = |view_box: &str, size: &str, path: &str, frame: &str| {
            format!(r#"{{"view_box":{view_box},"size":{size},"path":"{path}"{frame}}}"#)
        };
        let frame = r##","frame":{"border_width":[3,3,3,3],"border_color":"#00ff00","fill_color":"#0000ff"}"##;
        let glyph_specs: Vec<(String, (usize, usize))> = vec![
            (glyph_json("[0,0,24,24]", "[1,2]", path, ""), (1, 2)),
            (glyph_json("[0,0,24,24]", "[1,2]", path, frame), (1, 2)),
            (glyph_json("[0,0,48,48]", "[1,2]", path, ""), (1, 2)),
            (glyph_json("[0,0,24,24]", "[1,2]", path2, ""), (1, 2)),
            (glyph_json("[0,0,24,24]", "[1,3]", path, ""), (1, 3)),
        ];
        let glyphs: Vec<Glyph> = glyph_specs.iter().map(|(j, _)| serde_json::from_str(j).unwrap()).collect();
        // faces each glyph is drawn with
        let glyph_faces = |g: usize| -> Vec<usize> { if g == 0 { (0..faces.len()).collect() } else { VAR_FACES.to_vec() } };
        // The picture expected for (face, glyph): the glyph rasterised at EXACTLY `declared cells x whole
        // pixels of a cell`.  It is obtained on a 1 x 1 cell terminal of PPC_H x PPC_W pixels, where
        // "cells in pixels" is this product under any reading; its cell size is the declared one (raw).
        let exact = TerminalSize { cells: Size::new(1, 1), pixels: Size::new(PPC_H, PPC_W) };
        // pixel dimensions as they were requested above (raw), not read back through accessors
        let raw_px: [(usize, usize); 6] = [(3, 15), (25, 21), (20, 20), (20, 20), (40, 20), (20, 20)];
        let mut cell_sizes: Vec<(usize, usize)> = raw_px.iter().map(|(h, w)| (h.div_ceil(PPC_H), w.div_ceil(PPC_W))).collect();
        for (img, px) in images.iter().zip(raw_px) {
            assert_eq!((img.shape().height, img.shape().width), px);
        }
        let mut raster = Vec::new();
        for (g, glyph) in glyphs.iter().enumerate() {
            for fi in glyph_faces(g) {
                let img = glyph.rasterize(faces[fi], exact);
                assert_eq!((img.shape().height, img.shape().width), (glyph_specs[g].1.0 * PPC_H, glyph_specs[g].1.1 * PPC_W));
                let id = match images.iter().position(|i| same_image(i, &img)) {
                    Some(id) => id,
                    None => {
                        images.push(img);
                        cell_sizes.push(glyph_specs[g].1);
                        images.len() - 1
                    }
                };
                raster.push((fi, g, id));
            }
        }
        // identification of the renderer's rasterisations by their pixels must be unambiguous
        for (a, x) in raster.iter().enumerate() {
            for y in &raster[..a] {
                assert!(x.0 != y.0 || x.2 != y.2, "two glyph pictures of one face coincide: {x:?} {y:?}");
            }
        }
        let sizes = cell_sizes;
        // display widths: a table written here (East Asian Width W for the two wide characters, NUL has
        // none); cross-checked against what the crate computes through `Cell::size` (unicode-width)
        let ctx = ViewContext::dummy();
        let mut widths = BTreeMap::new();
        for (ch, wd) in CHAR_WIDTHS {
            assert_eq!(Cell::new_char(faces[0], *ch).size(&ctx).width, *wd, "width of {ch:?}");
            widths.insert(*ch as u32, *wd);
        }
        let mut alpha = Vec::new();
        let mut cells = Vec::new();
        for &ch in CHARS {
            for fi in 0..faces.len() {
                alpha.push(Sym { face: fi, kind: SymKind::Chr(ch) });
                cells.push(Cell::new_char(faces[fi], ch));
            }
        }
        let n_chars = alpha.len();
        for img in 0..2 {
            for fi in 0..faces.len() {
                alpha.push(Sym { face: fi, kind: SymKind::Img(img) });
                cells.push(Cell::new_image(images[img].clone()).with_face(faces[fi]));
            }
        }
        for fi in 0..faces.len() {
            alpha.push(Sym { face: fi, kind: SymKind::Gly(0) });
            cells.push(Cell::new_glyph(faces[fi], glyphs[0].clone()));
        }
        let crop_start = alpha.len();
        for img in 2..6 {
            for fi in [0usize, 3] {
                alpha.push(Sym { face: fi, kind: SymKind::Img(img) });
                cells.push(Cell::new_image(images[img].clone()).with_face(faces[fi]));
            }
        }
        let gvar_start = alpha.len();
        for g in 1..glyphs.len() {
            for fi in glyph_faces(g) {
                alpha.push(Sym { face: fi, kind: SymKind::Gly(g) });
                cells.push(Cell::new_glyph(faces[fi], glyphs[g].clone()));
            }
        }
        assert!(alpha.len() <= SYMS.len());
        // pictures with the same pixels and size are the same picture to a terminal
        let content: Vec<usize> =
            (0..images.len()).map(|i| (0..=i).find(|&j| same_image(&images[j], &images[i])).unwrap()).collect();
        let ws: Vec<String> = widths.iter().map(|(c, w)| format!("{c}:{w}")).collect();
        let ss: Vec<String> = sizes.iter().enumerate().map(|(i, (h, w))| format!("{i}:{h}:{w}")).collect();
        let rs: Vec<String> = raster.iter().map(|(f, g, i)| format!("{f}:{g}:{i}")).collect();
        let al: Vec<String> = alpha
            .iter()
            .map(|s| match s.kind {
                SymKind::Chr(c) => format!("{}:c:{}", s.face, c as u32),
                SymKind::Img(i) => format!("{}:i:{}", s.face, i),
                SymKind::Gly(g) => format!("{}:g:{}", s.face, g),
            })
            .collect();
        let np: Vec<String> = plain.iter().enumerate().filter(|(_, p)| !**p).map(|(i, _)| i.to_string()).collect();
        let np = if np.is_empty() { "-".to_string() } else { np.join(",") };
        let tables = format!("{} {} {} {} {}", ws.join(","), ss.join(","), rs.join(","), np, al.join(","));
        World { faces, images, sizes, raster, widths, alpha, cells, tables, n_chars, plain, content, crop_start, gvar_start }
    }
    fn width(&self, ch: u32) -> usize {
        *self.widths.get(&ch).unwrap_or(&1)
    }
    /// identifier of a face in a command: by colours and attribute names against the raw table; a face
    /// that `Face: PartialEq` judges differently than this description gets no identifier (98)
    fn face_id(&self, f: &Face) -> usize {
        let key = face_key(f);
        let id = FACES.iter().position(|sp| sp.key() == key);
        let by_eq = self.faces.iter().position(|x| x == f);
        if id == by_eq { id.unwrap_or(99) } else { 98 }
    }
    /// Identifier of an image the renderer hands out.  The model's identifiers stand for the images the
    /// application created (allocation + view), so an image of the alphabet is recognised by its storage
    /// and shape — NOT by `Image: PartialEq`, which is code under test; anything else (rasterised
    /// glyphs, which every renderer creates anew) by its pixels and size.
    fn image_id(&self, i: &Image) -> usize {
        let same_view = |x: &Image| std::ptr::eq(x.data().as_ptr(), i.data().as_ptr()) && x.shape() == i.shape();
        self.images
            .iter()
            .position(same_view)
            .or_else(|| self.images.iter().position(|x| same_image(x, i)))
            .unwrap_or(999)
    }
    /// what a terminal shows for an image identifier: the picture (pixels + size)
    fn picture(&self, id: usize) -> usize {
        *self.content.get(id).unwrap_or(&id)
    }
    /// image placed by a symbol (a glyph is drawn as its rasterisation)
    fn img_of(&self, s: u8) -> Option<usize> {
        let sym = self.alpha[s as usize];
        match sym.kind {
            SymKind::Img(i) => Some(i),
            SymKind::Gly(g) => self.raster.iter().find(|(f, gg, _)| *f == sym.face && *gg == g).map(|x| x.2),
            SymKind::Chr(_) => None,
        }
    }
    fn is_wide(&self, s: u8) -> bool {
        match self.alpha[s as usize].kind {
            SymKind::Chr(c) => self.width(c as u32) >= 2,
            _ => false,
        }
    }
    /// what an erased cell shows
    fn blank_of(&self, face: usize) -> SC {
        if *self.plain.get(face).unwrap_or(&true) { SC::G(32, face) } else { SC::Erased(face) }
    }
    fn sym_str(&self, surf: &[u8]) -> String {
        surf.iter().map(|&s| SYMS[s as usize] as char).collect()
    }
}

// ---------------------------------------------------------------- histories

#[derive(Clone, Debug, PartialEq)]
enum Step {
    Frame(Vec<u8>),
    Skip,
    Clear,
    /// `clear()` called AFTER the next frame's surface has been drawn (frame-drop path of `run_render`);
    /// the model sees it as `clear`
    ClearAfterDraw,
    Recreate,
}
#[derive(Clone, Debug)]
struct Hist {
    h: usize,
    w: usize,
    clear0: bool,
    init: Option<Vec<u8>>, // what the terminal shows at the start (character symbols), None = blank
    steps: Vec<Step>,
    /// drive the real `Terminal::run_render` (clear0 = false, blank start)
    session: bool,
    /// extra pixels of the terminal (cells are not a whole number of pixels), see `term_size`
    px: (usize, usize),
}

/// canonical commands
#[derive(Clone, Debug, PartialEq)]
enum OC {
    Face(usize),
    To(usize, usize),
    Char(u32),
    Erase(usize),
    Image(usize, usize, usize),
    ImageErase(usize, Option<(usize, usize)>),
    // not issued by the current renderer, understood by the reference screen so that a rewrite of the
    // renderer in terms of them is judged by what the terminal shows
    Move(i64, i64),
    EraseLineRight,
    EraseLineLeft,
    EraseLine,
    EraseScreen,
    Save,
    Restore,
    /// cannot change what the terminal shows (mode switches, queries, title …)
    Neutral(String),
    Other(String),
}
impl OC {
    fn show(&self) -> String {
        match self {
            OC::Face(f) => format!("f{f}"),
            OC::To(r, c) => format!("m{r}.{c}"),
            OC::Char(c) => format!("c{c}"),
            OC::Erase(n) => format!("e{n}"),
            OC::Image(i, r, c) => format!("i{i}.{r}.{c}"),
            OC::ImageErase(i, Some((r, c))) => format!("x{i}.{r}.{c}"),
            OC::ImageErase(i, None) => format!("X{i}"),
            OC::Move(r, c) => format!("?move{r}.{c}"),
            OC::EraseLineRight => "?elr".into(),
            OC::EraseLineLeft => "?ell".into(),
            OC::EraseLine => "?el".into(),
            OC::EraseScreen => "?ed".into(),
            OC::Save => "?save".into(),
            OC::Restore => "?restore".into(),
            OC::Neutral(s) => format!("~{s}"),
            OC::Other(s) => format!("?{s}"),
        }
    }
}
/// screen-neutral commands are not part of the compared command list
fn show_cmds(cs: &[OC]) -> String {
    let v: Vec<String> = cs.iter().filter(|c| !matches!(c, OC::Neutral(_))).map(|c| c.show()).collect();
    if v.is_empty() { "-".to_string() } else { v.join(",") }
}

fn canon(world: &World, cmd: &TerminalCommand) -> OC {
    match cmd {
        TerminalCommand::Face(f) => OC::Face(world.face_id(f)),
        TerminalCommand::CursorTo(p) => OC::To(p.row, p.col),
        TerminalCommand::Char(c) => OC::Char(*c as u32),
        TerminalCommand::EraseChars(n) => OC::Erase(*n),
        TerminalCommand::Image(i, p) => OC::Image(world.image_id(i), p.row, p.col),
        TerminalCommand::ImageErase(i, p) => OC::ImageErase(world.image_id(i), p.map(|p| (p.row, p.col))),
        TerminalCommand::CursorMove { row, col } => OC::Move(*row as i64, *col as i64),
        TerminalCommand::EraseLineRight => OC::EraseLineRight,
        TerminalCommand::EraseLineLeft => OC::EraseLineLeft,
        TerminalCommand::EraseLine => OC::EraseLine,
        TerminalCommand::EraseScreen => OC::EraseScreen,
        TerminalCommand::CursorSave => OC::Save,
        TerminalCommand::CursorRestore => OC::Restore,
        other => {
            let name: String = format!("{other:?}").chars().filter(|c| c.is_ascii_alphanumeric()).take(24).collect();
            let neutral = match other {
                TerminalCommand::DecModeSet { mode, .. } => !matches!(mode, DecMode::AltScreen | DecMode::AutoWrap),
                TerminalCommand::DecModeGet(_)
                | TerminalCommand::FaceGet
                | TerminalCommand::CursorGet
                | TerminalCommand::Termcap(_)
                | TerminalCommand::Title(_)
                | TerminalCommand::DeviceAttrs
                | TerminalCommand::KeyboardLevel(_) => true,
                TerminalCommand::Color { color, .. } => color.is_none(),
                _ => false,
            };
            if neutral { OC::Neutral(name) } else { OC::Other(name) }
        }
    }
}

fn draw(world: &World, hist: &Hist, view: &mut surf_n_term::TerminalSurface<'_>, surf: &[u8]) {
    for r in 0..hist.h {
        for c in 0..hist.w {
            let s = surf[r * hist.w + c] as usize;
            if s != 0 {
                // the application writes its cells through either accessor
                let pos = Position { row: r, col: c };
                if (r + c) % 2 == 0 {
                    view.set(pos, world.cells[s].clone());
                } else {
                    *view.get_mut(pos).unwrap() = world.cells[s].clone();
                }
            }
        }
    }
}
fn draw_junk(world: &World, hist: &Hist, view: &mut surf_n_term::TerminalSurface<'_>) {
    if hist.h > 0 && hist.w > 0 {
        view.set(Position::new(hist.h - 1, 0), world.cells[4].clone());
        view.set(Position::new(0, hist.w - 1), world.cells[world.n_chars].clone());
    }
}

/// run the real renderer over the history; one command list per step
fn run_impl(world: &World, hist: &Hist) -> Result<Vec<Vec<OC>>, ()> {
    if hist.session {
        return run_session(world, hist);
    }
    guarded(|| {
        let mut term = Rec::new(hist.h, hist.w, hist.px);
        let mut renderer = TerminalRenderer::new(&mut term, hist.clear0).unwrap();
        let mut res = Vec::new();
        let mut drawn = false; // the surface of the coming frame is already in the front buffer
        for (k, step) in hist.steps.iter().enumerate() {
            match step {
                Step::Frame(surf) => {
                    if !drawn {
                        draw(world, hist, &mut renderer.surface(), surf);
                    }
                    drawn = false;
                    renderer.frame(&mut term).unwrap();
                }
                Step::Skip => {
                    // the application drew something, then asked for no frame
                    draw_junk(world, hist, &mut renderer.surface());
                    renderer.surface().clear();
                }
                Step::Clear => renderer.clear(&mut term).unwrap(),
                Step::ClearAfterDraw => {
                    if let Some(Step::Frame(surf)) = hist.steps.get(k + 1) {
                        draw(world, hist, &mut renderer.surface(), surf);
                        drawn = true;
                    }
                    renderer.clear(&mut term).unwrap();
                }
                Step::Recreate => {
                    renderer.clear(&mut term).unwrap();
                    renderer = TerminalRenderer::new(&mut term, true).unwrap();
                }
            }
            res.push(term.cmds.iter().map(|c| canon(world, c)).collect());
            term.cmds.clear();
        }
        res
    })
}

// ---------------------------------------------------------------- sessions through Terminal::run_render

/// one turn of the `run_render` loop
#[derive(Clone, Debug)]
struct Turn {
    resize: bool,
    drop: bool,
    /// None = the handler answers `WaitNoFrame`
    surf: Option<Vec<u8>>,
}

/// steps of a session history: turns of `[R] (F | S | K F)`, the last one rendering a frame
fn session_turns(steps: &[Step]) -> Option<Vec<Turn>> {
    let mut turns = Vec::new();
    let mut i = 0;
    while i < steps.len() {
        let mut t = Turn { resize: false, drop: false, surf: None };
        if steps[i] == Step::Recreate {
            t.resize = true;
            i += 1;
        }
        match steps.get(i)? {
            Step::Frame(f) => {
                t.surf = Some(f.clone());
                i += 1;
            }
            Step::Skip => i += 1,
            Step::ClearAfterDraw => {
                let Some(Step::Frame(f)) = steps.get(i + 1) else { return None };
                t.drop = true;
                t.surf = Some(f.clone());
                i += 2;
            }
            Step::Clear | Step::Recreate => return None,
        }
        turns.push(t);
    }
    if turns.last()?.surf.is_none() {
        return None;
    }
    Some(turns)
}

#[derive(Debug)]
enum Ev {
    Poll,
    Handler,
    Cmd(OC, bool, bool), // command, is "synchronized output on", is "synchronized output off"
}

struct SessionTerm<'a> {
    world: &'a World,
    size: TerminalSize,
    caps: TerminalCaps,
    turns: Vec<Turn>,
    polls: usize,
    log: Vec<Ev>,
    dropped: usize,
}
impl Write for SessionTerm<'_> {
    fn write(&mut self, buf: &[u8]) -> std::io::Result<usize> {
        Ok(buf.len())
    }
    fn flush(&mut self) -> std::io::Result<()> {
        Ok(())
    }
}
impl Terminal for SessionTerm<'_> {
    fn execute(&mut self, cmd: TerminalCommand) -> Result<(), Error> {
        let (on, off) = match &cmd {
            TerminalCommand::DecModeSet { enable, mode: DecMode::SynchronizedOutput } => (*enable, !*enable),
            _ => (false, false),
        };
        self.log.push(Ev::Cmd(canon(self.world, &cmd), on, off));
        Ok(())
    }
    fn poll(&mut self, _t: Option<std::time::Duration>) -> Result<Option<TerminalEvent>, Error> {
        self.log.push(Ev::Poll);
        let k = self.polls;
        self.polls += 1;
        if self.turns.get(k).map(|t| t.resize).unwrap_or(false) {
            Ok(Some(TerminalEvent::Resize(self.size)))
        } else {
            Ok(None)
        }
    }
    fn size(&self) -> Result<TerminalSize, Error> {
        Ok(self.size)
    }
    fn position(&mut self) -> Result<Position, Error> {
        Ok(Position::new(0, 0))
    }
    fn waker(&self) -> TerminalWaker {
        TerminalWaker::new(|| Ok(()))
    }
    fn frames_pending(&self) -> usize {
        // far above TERMINAL_FRAMES_DROP when this turn drops frames
        if self.turns.get(self.polls.wrapping_sub(1)).map(|t| t.drop).unwrap_or(false) { 1000 } else { 0 }
    }
    fn frames_drop(&mut self) {
        self.dropped += 1;
    }
    fn dyn_ref(&mut self) -> &mut dyn Terminal {
        self
    }
    fn capabilities(&self) -> &TerminalCaps {
        &self.caps
    }
}

fn run_session(world: &World, hist: &Hist) -> Result<Vec<Vec<OC>>, ()> {
    let turns = session_turns(&hist.steps).ok_or(())?;
    guarded(|| {
        let mut term = SessionTerm {
            world,
            size: term_size(hist.h, hist.w, hist.px),
            caps: TerminalCaps::default(),
            turns: turns.clone(),
            polls: 0,
            log: Vec::new(),
            dropped: 0,
        };
        let n = turns.len();
        let r: Result<(), Error> = term.run_render(|term, _event, mut view| {
            let k = term.polls - 1;
            term.log.push(Ev::Handler);
            match &term.turns[k].surf {
                Some(surf) => {
                    let surf = surf.clone();
                    draw(world, hist, &mut view, &surf);
                    Ok(if k + 1 == n { TerminalAction::Quit(()) } else { TerminalAction::Wait })
                }
                None => {
                    draw_junk(world, hist, &mut view);
                    Ok(TerminalAction::WaitNoFrame)
                }
            }
        });
        r.unwrap();
        // cut the log into the command lists of the steps
        let mut res: Vec<Vec<OC>> = Vec::new();
        let mut it = term.log.into_iter().peekable();
        for t in &turns {
            assert!(matches!(it.next(), Some(Ev::Poll)));
            let mut resize_seg = Vec::new();
            while let Some(Ev::Cmd(..)) = it.peek() {
                if let Some(Ev::Cmd(c, _, _)) = it.next() {
                    resize_seg.push(c);
                }
            }
            assert!(matches!(it.next(), Some(Ev::Handler)));
            let mut clear_seg = Vec::new();
            let mut frame_seg = Vec::new();
            let mut in_frame = false;
            while let Some(Ev::Cmd(..)) = it.peek() {
                if let Some(Ev::Cmd(c, on, _off)) = it.next() {
                    if on {
                        in_frame = true;
                    }
                    if in_frame { frame_seg.push(c) } else { clear_seg.push(c) }
                }
            }
            if t.resize {
                res.push(resize_seg);
            } else {
                clear_seg.splice(0..0, resize_seg);
            }
            match (&t.surf, t.drop) {
                (Some(_), true) => {
                    res.push(clear_seg);
                    res.push(frame_seg);
                }
                (Some(_), false) => {
                    clear_seg.extend(frame_seg);
                    res.push(clear_seg);
                }
                (None, _) => {
                    clear_seg.extend(frame_seg);
                    res.push(clear_seg);
                }
            }
        }
        res
    })
}

// ---------------------------------------------------------------- independent reference screen (oracle)

#[derive(Clone, Copy, PartialEq, Debug)]
enum SC {
    G(u32, usize),
    Cont,
    Orphan,
    /// erased while this face was current: background only
    Erased(usize),
}
#[derive(Clone, PartialEq, Debug)]
struct Scr {
    h: usize,
    w: usize,
    grid: Vec<SC>,
    cur: (usize, usize),
    face: usize,
    place: BTreeMap<(usize, usize), usize>,
    saved: (usize, usize),
}
impl Scr {
    fn blank(h: usize, w: usize) -> Scr {
        Scr { h, w, grid: vec![SC::G(32, 0); h * w], cur: (0, 0), face: 0, place: BTreeMap::new(), saved: (0, 0) }
    }
    fn get(&self, r: usize, c: usize) -> Option<SC> {
        if r < self.h && c < self.w { Some(self.grid[r * self.w + c]) } else { None }
    }
    fn put(&mut self, r: usize, c: usize, v: SC) {
        if r < self.h && c < self.w {
            self.grid[r * self.w + c] = v;
        }
    }
    /// cells [a, b) of row r are overwritten with `fill(k)`; halves of wide characters cut off at
    /// either end turn into `Orphan`
    fn overwrite(&mut self, r: usize, a: usize, b: usize, fill: impl Fn(usize) -> SC) {
        if self.get(r, a) == Some(SC::Cont) && a > 0 {
            self.put(r, a - 1, SC::Orphan);
        }
        if self.get(r, b) == Some(SC::Cont) {
            self.put(r, b, SC::Orphan);
        }
        for k in a..b {
            self.put(r, k, fill(k));
        }
    }
    fn exec(&mut self, world: &World, cmd: &OC) -> Result<(), String> {
        match cmd {
            OC::Face(f) => self.face = *f,
            OC::To(r, c) => self.cur = (*r, *c),
            OC::Char(ch) => {
                let (r, c) = self.cur;
                let face = self.face;
                let ch = *ch;
                match world.width(ch) {
                    0 => {}
                    1 => {
                        self.overwrite(r, c, c + 1, |_| SC::G(ch, face));
                        self.cur = (r, c + 1);
                    }
                    _ => {
                        self.overwrite(r, c, c + 2, |k| if k == c { SC::G(ch, face) } else { SC::Cont });
                        self.cur = (r, c + 2);
                    }
                }
            }
            OC::Erase(n) => {
                // EraseChars(0) is not sent to the terminal at all
                if *n > 0 {
                    let (r, c) = self.cur;
                    let blank = world.blank_of(self.face);
                    self.overwrite(r, c, c + n, |_| blank);
                }
            }
            OC::Image(i, r, c) => {
                self.place.insert((*r, *c), *i);
            }
            OC::ImageErase(i, Some(p)) => {
                if self.place.get(p) == Some(i) {
                    self.place.remove(p);
                }
            }
            OC::ImageErase(i, None) => self.place.retain(|_, v| v != i),
            OC::Move(dr, dc) => {
                let r = (self.cur.0 as i64 + dr).clamp(0, self.h.max(1) as i64 - 1) as usize;
                let c = (self.cur.1 as i64 + dc).clamp(0, self.w.max(1) as i64 - 1) as usize;
                self.cur = (r, c);
            }
            OC::EraseLineRight | OC::EraseLineLeft | OC::EraseLine | OC::EraseScreen => {
                let (r, c) = self.cur;
                let blank = world.blank_of(self.face);
                let w = self.w;
                let rows = if *cmd == OC::EraseScreen { 0..self.h } else { r..(r + 1).min(self.h) };
                for row in rows {
                    let (a, b) = match cmd {
                        OC::EraseLineRight => (c.min(w), w),
                        OC::EraseLineLeft => (0, (c + 1).min(w)),
                        _ => (0, w),
                    };
                    if a < b {
                        self.overwrite(row, a, b, |_| blank);
                    }
                }
            }
            OC::Save => self.saved = self.cur,
            OC::Restore => self.cur = self.saved,
            OC::Neutral(_) => {}
            OC::Other(s) => return Err(format!("unexpected command {s}")),
        }
        Ok(())
    }
    fn rows(&self, world: &World) -> Vec<String> {
        let mut res = Vec::new();
        for r in 0..self.h {
            let mut s = String::new();
            for c in 0..self.w {
                match self.grid[r * self.w + c] {
                    SC::G(ch, f) => s.push_str(&format!("[{}/{}]", char::from_u32(ch).unwrap_or('?').escape_default(), f)),
                    SC::Cont => s.push_str("[<]"),
                    SC::Orphan => s.push_str("[ORPHAN]"),
                    SC::Erased(f) => s.push_str(&format!("[erased/{f}]")),
                }
            }
            res.push(s);
        }
        let _ = world;
        res.push(format!("images {:?}", self.place));
        res
    }
}

/// area of the image cell at position q (if it is one): rows, cols half-open
fn area(world: &World, w: usize, surf: &[u8], q: usize) -> Option<(usize, usize, usize, usize)> {
    let id = world.img_of(surf[q])?;
    let (sh, sw) = world.sizes[id];
    let (r, c) = (q / w, q % w);
    Some((r, r + sh, c, c + sw))
}

/// the image cell (last in painting order) whose area contains each cell
fn cover_map(world: &World, h: usize, w: usize, surf: &[u8]) -> Vec<Option<usize>> {
    let mut cover = vec![None; h * w];
    for q in 0..h * w {
        if let Some((r0, r1, c0, c1)) = area(world, w, surf, q) {
            for r in r0..r1.min(h) {
                for c in c0..c1.min(w) {
                    cover[r * w + c] = Some(q);
                }
            }
        }
    }
    cover
}

/// SPEC: what a terminal shows after `surf` was painted from scratch.  A cell in the area of an image
/// shows what erasing in the image cell's face gives; otherwise the right half of the wide character
/// DISPLAYED in the cell to the left (not itself a right half, not hidden under an image); otherwise
/// its own character in its own face.  One placement per image / glyph cell.
fn display(world: &World, h: usize, w: usize, surf: &[u8]) -> Scr {
    let mut scr = Scr::blank(h, w);
    let cover = cover_map(world, h, w, surf);
    for r in 0..h {
        let mut shadow = false; // is cell (r, c) the right half of the wide character displayed at c-1
        for c in 0..w {
            let q = r * w + c;
            let sym = world.alpha[surf[q] as usize];
            scr.grid[q] = if let Some(owner) = cover[q] {
                world.blank_of(world.alpha[surf[owner] as usize].face)
            } else if shadow {
                SC::Cont
            } else {
                match sym.kind {
                    SymKind::Chr(ch) => SC::G(ch as u32, sym.face),
                    _ => SC::Orphan,
                }
            };
            shadow = !shadow && cover[q].is_none() && world.is_wide(surf[q]);
        }
    }
    for q in 0..h * w {
        if let Some(i) = world.img_of(surf[q]) {
            scr.place.insert((q / w, q % w), i);
        }
    }
    scr
}

/// Sub-class of the known finding C01-img a frame falls into, if any:
/// `overhang` (an image area is empty or not inside the terminal), `overlap` (two image areas
/// intersect), `cut` (a wide character has exactly one half inside some image area; this includes an
/// image cell in the shadow of a wide character).  A wide character WHOLLY inside an image area is fine.
fn frame_class(world: &World, h: usize, w: usize, surf: &[u8]) -> Option<&'static str> {
    let n = h * w;
    let mut owner: Vec<Option<usize>> = vec![None; n];
    let mut overlap = false;
    for q in 0..n {
        if let Some((r0, r1, c0, c1)) = area(world, w, surf, q) {
            if r1 <= r0 || c1 <= c0 || r1 > h || c1 > w {
                return Some("overhang");
            }
            for r in r0..r1 {
                for c in c0..c1 {
                    if owner[r * w + c].is_some() {
                        overlap = true;
                    }
                    owner[r * w + c] = Some(q);
                }
            }
        }
    }
    if overlap {
        return Some("overlap");
    }
    for q in 0..n {
        if world.is_wide(surf[q]) && q % w + 1 < w && owner[q] != owner[q + 1] {
            return Some("cut");
        }
    }
    None
}

/// domain of the proved theorems (Lean: `Screen.WellPlaced`)
fn well_placed(world: &World, h: usize, w: usize, surf: &[u8]) -> bool {
    for q in 0..h * w {
        if let SymKind::Chr(ch) = world.alpha[surf[q] as usize].kind {
            let wd = world.width(ch as u32);
            if (wd != 1 && wd != 2) || (wd == 2 && q % w + 1 >= w) {
                return false;
            }
        }
    }
    if frame_class(world, h, w, surf).is_some() {
        return false;
    }
    LEAN_ALLOWS_HIDDEN_WIDE || {
        let cover = cover_map(world, h, w, surf);
        (0..h * w).all(|q| !(world.is_wide(surf[q]) && cover[q].is_some()))
    }
}
/// does the Lean `WellPlaced` admit wide characters wholly inside an image area
const LEAN_ALLOWS_HIDDEN_WIDE: bool = true;

struct Verdict {
    /// first frame after which the screen differs from `display`
    fail_step: Option<usize>,
    expected: Vec<String>,
    got: Vec<String>,
    /// sub-class of C01-img the failure (or, without failure, some frame) belongs to
    class: Option<&'static str>,
    /// every frame lies in the domain of the Lean theorems
    all_in_domain: bool,
    panicked: bool,
    cmds: Vec<Vec<OC>>,
}

/// class of the frames whose leftovers can matter for frame `k`: frame `k` itself first, then the
/// earlier frames back to the last clear / re-creation
fn class_at(world: &World, hist: &Hist, k: usize) -> Option<&'static str> {
    let mut i = k;
    loop {
        match &hist.steps[i] {
            Step::Frame(f) => {
                if let Some(c) = frame_class(world, hist.h, hist.w, f) {
                    return Some(c);
                }
            }
            Step::Clear | Step::ClearAfterDraw | Step::Recreate => return None,
            Step::Skip => {}
        }
        if i == 0 {
            return None;
        }
        i -= 1;
    }
}

fn judge(world: &World, hist: &Hist) -> Verdict {
    let frames = || hist.steps.iter().filter_map(|s| if let Step::Frame(f) = s { Some(f) } else { None });
    let all_in_domain = frames().all(|f| well_placed(world, hist.h, hist.w, f));
    let any_class = frames().find_map(|f| frame_class(world, hist.h, hist.w, f));
    let cmds = match run_impl(world, hist) {
        Ok(c) => c,
        Err(()) => {
            // a panic is never part of the known finding
            return Verdict { fail_step: Some(0), expected: vec![], got: vec!["panic".into()], class: None, all_in_domain, panicked: true, cmds: vec![] };
        }
    };
    let mut scr = match &hist.init {
        Some(g) => {
            let mut s = display(world, hist.h, hist.w, g);
            s.cur = (hist.h / 2, hist.w / 2);
            s.face = 1;
            s
        }
        None => Scr::blank(hist.h, hist.w),
    };
    if cmds.len() != hist.steps.len() {
        return Verdict { fail_step: Some(0), expected: vec![], got: vec![format!("{} command lists for {} steps", cmds.len(), hist.steps.len())], class: None, all_in_domain, panicked: false, cmds };
    }
    for (k, step) in hist.steps.iter().enumerate() {
        let mut err = None;
        for c in &cmds[k] {
            if let Err(e) = scr.exec(world, c) {
                err = Some(e);
            }
        }
        if let Step::Frame(f) = step {
            let want = display(world, hist.h, hist.w, f);
            let pics = |m: &BTreeMap<(usize, usize), usize>| -> Vec<((usize, usize), usize)> {
                m.iter().map(|(k, v)| (*k, world.picture(*v))).collect()
            };
            if scr.grid != want.grid || pics(&scr.place) != pics(&want.place) || err.is_some() {
                let mut got = scr.rows(world);
                if let Some(e) = err {
                    got.push(e);
                }
                return Verdict { fail_step: Some(k), expected: want.rows(world), got, class: class_at(world, hist, k), all_in_domain, panicked: false, cmds };
            }
        } else if let Some(e) = err {
            return Verdict { fail_step: Some(k), expected: vec![], got: vec![e], class: class_at(world, hist, k), all_in_domain, panicked: false, cmds };
        }
    }
    Verdict { fail_step: None, expected: vec![], got: vec![], class: any_class, all_in_domain, panicked: false, cmds }
}

/// greedy shrinking that keeps "fails, in the same class"
fn shrink(world: &World, hist: &Hist, class: Option<&'static str>, panicked: bool) -> Hist {
    let same = |h: &Hist| {
        if h.session && session_turns(&h.steps).is_none() {
            return false;
        }
        let v = judge(world, h);
        v.fail_step.is_some() && v.class == class && v.panicked == panicked
    };
    let mut cur = hist.clone();
    if let Some(k) = judge(world, &cur).fail_step {
        if !panicked {
            cur.steps.truncate(k + 1);
        }
    }
    loop {
        let mut progress = false;
        // a session is first tried as a direct history (smaller to read)
        if cur.session {
            let mut t = cur.clone();
            t.session = false;
            if same(&t) {
                cur = t;
                progress = true;
            }
        }
        let mut i = 0;
        while i < cur.steps.len() {
            let mut t = cur.clone();
            t.steps.remove(i);
            if !t.steps.is_empty() && same(&t) {
                cur = t;
                progress = true;
            } else {
                i += 1;
            }
        }
        if cur.init.is_some() {
            let mut t = cur.clone();
            t.init = None;
            if same(&t) {
                cur = t;
                progress = true;
            }
        }
        for i in 0..cur.steps.len() {
            if let Step::Frame(f) = &cur.steps[i] {
                for j in 0..f.len() {
                    let Step::Frame(f) = &cur.steps[i] else { unreachable!() };
                    if f[j] != 0 {
                        let mut t = cur.clone();
                        if let Step::Frame(g) = &mut t.steps[i] {
                            g[j] = 0;
                        }
                        if same(&t) {
                            cur = t;
                            progress = true;
                        }
                    }
                }
            }
        }
        if !progress {
            break;
        }
    }
    cur
}

// ---------------------------------------------------------------- wire format

/// token of a step in the request to the model (`ClearAfterDraw` is `clear` for the model)
fn step_token(world: &World, s: &Step) -> String {
    match s {
        Step::Frame(f) => format!("F{}", world.sym_str(f)),
        Step::Skip => "S".into(),
        Step::Clear | Step::ClearAfterDraw => "C".into(),
        Step::Recreate => "R".into(),
    }
}
/// token of a step in a replay file
fn step_name(world: &World, s: &Step) -> String {
    match s {
        Step::ClearAfterDraw => "K".into(),
        other => step_token(world, other),
    }
}
fn header(world: &World, hist: &Hist) -> String {
    format!("{} {} {} {}", hist.h, hist.w, if hist.clear0 { 1 } else { 0 }, world.tables)
}
fn hist_request(world: &World, hist: &Hist) -> String {
    let steps: Vec<String> = hist.steps.iter().map(|s| step_token(world, s)).collect();
    format!("c01 hist {} {}", header(world, hist), steps.join(" "))
}
fn exec_request(world: &World, hist: &Hist, cmds: &[Vec<OC>]) -> String {
    let steps: Vec<String> = hist
        .steps
        .iter()
        .zip(cmds)
        .map(|(s, c)| if *s == Step::Skip { "S".to_string() } else { format!("{}={}", step_token(world, s), show_cmds(c)) })
        .collect();
    let init = match &hist.init {
        Some(g) => format!("G{}", world.sym_str(g)),
        None => "B".into(),
    };
    format!("c01 exec {} {} {}", header(world, hist), init, steps.join(" "))
}
fn hist_json(world: &World, hist: &Hist, class: Option<&'static str>) -> Value {
    json!({
        "h": hist.h, "w": hist.w, "clear0": hist.clear0, "session": hist.session,
        "extra_pixels": [hist.px.0, hist.px.1],
        "init": hist.init.as_ref().map(|g| world.sym_str(g)),
        "steps": hist.steps.iter().map(|s| step_name(world, s)).collect::<Vec<_>>(),
        "well_placed": class.is_none(),
        "class": class,
        "legend": "step F<cells row-major>: symbol k-th of a-zA-Z0-9 = alphabet entry k of `alphabet` (face:kind:code; c=char i=image g=glyph); S skipped frame, C clear(), K clear() called after the next frame was drawn, R clear()+new(clear=true); session=true: the steps are turns [R] (F | S | K F) of Terminal::run_render (R = Resize event, K = frames_pending() above the drop limit)",
        "alphabet": world.tables.split(' ').nth(4).unwrap_or(""),
        "request": hist_request(world, hist),
    })
}
fn parse_hist(world: &World, v: &Value) -> Option<Hist> {
    let h = v["h"].as_u64()? as usize;
    let w = v["w"].as_u64()? as usize;
    let dec = |s: &str| -> Vec<u8> {
        s.bytes().map(|b| SYMS.iter().position(|x| *x == b).unwrap_or(0).min(world.alpha.len() - 1) as u8).collect()
    };
    let mut steps = Vec::new();
    for s in v["steps"].as_array()? {
        let s = s.as_str()?;
        steps.push(match s.as_bytes().first()? {
            b'F' => {
                let mut f = dec(&s[1..]);
                f.resize(h * w, 0);
                Step::Frame(f)
            }
            b'S' => Step::Skip,
            b'C' => Step::Clear,
            b'K' => Step::ClearAfterDraw,
            _ => Step::Recreate,
        });
    }
    let init = v["init"].as_str().map(|s| {
        let mut g = dec(s);
        g.resize(h * w, 0);
        g
    });
    let px = (v["extra_pixels"][0].as_u64().unwrap_or(0) as usize, v["extra_pixels"][1].as_u64().unwrap_or(0) as usize);
    Some(Hist { h, w, clear0: v["clear0"].as_bool().unwrap_or(true), init, steps, session: v["session"].as_bool().unwrap_or(false), px })
}

// ---------------------------------------------------------------- generation

#[derive(Clone, Copy, PartialEq)]
enum Class {
    Narrow,
    Wide,
    ImagesPlaced, // images, well placed by construction
    WidePlaced,   // images + wide characters, well placed by construction
    Free,         // anything anywhere
    Kept,         // the same images frame after frame, characters and blanks around them change
}

fn random_cell(world: &World, rng: &mut Rng, class: Class) -> u8 {
    let nf = world.faces.len() as u64;
    let face = if rng.chance(1, 2) { 0 } else { rng.below(nf) } as usize;
    let narrow = |rng: &mut Rng| rng.below(4) as usize; // ' ', a, b, x
    let ch = match class {
        Class::Narrow => narrow(rng),
        Class::Wide => {
            if rng.chance(1, 3) { 4 + rng.below(2) as usize } else { narrow(rng) }
        }
        _ => match rng.below(10) {
            0 | 1 if class != Class::ImagesPlaced => 4 + rng.below(2) as usize,
            2 => {
                return if rng.chance(1, 3) {
                    (world.crop_start + rng.below(8) as usize) as u8
                } else if rng.chance(1, 3) {
                    // the base glyph and its one-field variants in the same two faces
                    if rng.chance(1, 3) { (world.n_chars + 2 * world.faces.len() + VAR_FACES[rng.below(2) as usize]) as u8 } else { (world.gvar_start + rng.below(8) as usize) as u8 }
                } else {
                    (world.n_chars + (rng.below(3) as usize) * world.faces.len() + face) as u8
                };
            }
            _ => narrow(rng),
        },
    };
    (ch * world.faces.len() + face) as u8
}

/// make a surface well placed by removing what offends (wide characters wholly under an image stay)
fn repair(world: &World, h: usize, w: usize, surf: &mut [u8]) {
    let n = h * w;
    let mut owner: Vec<Option<usize>> = vec![None; n];
    for q in 0..n {
        if let Some((r0, r1, c0, c1)) = area(world, w, surf, q) {
            let mut ok = r1 <= h && c1 <= w;
            if ok {
                for r in r0..r1 {
                    for c in c0..c1 {
                        ok &= owner[r * w + c].is_none();
                    }
                }
            }
            if ok {
                for r in r0..r1 {
                    for c in c0..c1 {
                        owner[r * w + c] = Some(q);
                    }
                }
            } else {
                surf[q] = world.alpha[surf[q] as usize].face as u8; // blank in the same face
            }
        }
    }
    for q in 0..n {
        if world.is_wide(surf[q]) && (q % w + 1 >= w || owner[q] != owner[q + 1]) {
            surf[q] = (1 * world.faces.len() + world.alpha[surf[q] as usize].face) as u8; // 'a'
        }
    }
}

fn random_surface(world: &World, rng: &mut Rng, h: usize, w: usize, class: Class, prev: Option<&Vec<u8>>) -> Vec<u8> {
    let n = h * w;
    let mut surf = match prev {
        Some(p) if rng.chance(3, 5) => {
            // a few edits of the previous frame
            let mut s = p.clone();
            for _ in 0..1 + rng.below(4) {
                if n > 0 {
                    let q = rng.below(n as u64) as usize;
                    s[q] = if rng.chance(1, 4) { 0 } else { random_cell(world, rng, class) };
                }
            }
            s
        }
        _ => {
            let density = 1 + rng.below(4);
            let nf = world.faces.len() as u64;
            (0..n).map(|_| if rng.chance(density, 4) { random_cell(world, rng, class) } else if rng.chance(1, 4) { rng.below(nf) as u8 } else { 0 }).collect()
        }
    };
    // wide characters never in the last column (outside the domain)
    for q in 0..n {
        if world.is_wide(surf[q]) && q % w + 1 >= w {
            surf[q] = (3 * world.faces.len() + world.alpha[surf[q] as usize].face) as u8; // 'x'
        }
    }
    if matches!(class, Class::ImagesPlaced | Class::WidePlaced) || (class == Class::Free && rng.chance(1, 3)) {
        repair(world, h, w, &mut surf);
    }
    surf
}

fn random_hist(world: &World, rng: &mut Rng, big: bool) -> (Hist, Class) {
    let (h, w) = if big && rng.chance(1, 100) {
        // empty and large terminals (thorough tier)
        (rng.below(13) as usize, rng.below(21) as usize)
    } else {
        (1 + rng.below(5) as usize, 1 + rng.below(8) as usize)
    };
    let nf = world.faces.len();
    let class = match rng.below(12) {
        0 => Class::Narrow,
        1 | 2 => Class::Wide,
        3 | 4 => Class::ImagesPlaced,
        5 | 6 | 7 => Class::WidePlaced,
        8 | 9 => Class::Kept,
        _ => Class::Free,
    };
    // images that stay where they are for the whole history (class Kept)
    let mut base: Vec<u8> = vec![0; h * w];
    if class == Class::Kept && h * w > 0 {
        for _ in 0..1 + rng.below(2) {
            let q = rng.below((h * w) as u64) as usize;
            base[q] = if rng.chance(1, 2) {
                (world.crop_start + rng.below(8) as usize) as u8
            } else {
                (world.n_chars + (rng.below(3) as usize) * nf + rng.below(nf as u64) as usize) as u8
            };
        }
        repair(world, h, w, &mut base);
    }
    let session = rng.chance(1, 4);
    let nsteps = 1 + rng.below(8) as usize;
    let clear0 = !session && rng.chance(1, 2);
    let init = if clear0 && rng.chance(2, 3) {
        let mut g: Vec<u8> = (0..h * w).map(|_| random_cell(world, rng, Class::Wide)).collect();
        for q in 0..h * w {
            if world.is_wide(g[q]) && q % w + 1 >= w {
                g[q] = 5;
            }
        }
        Some(g)
    } else {
        None
    };
    let mut steps = Vec::new();
    let mut prev: Option<Vec<u8>> = None;
    let frame = |rng: &mut Rng, prev: &mut Option<Vec<u8>>| {
        let mut s = random_surface(world, rng, h, w, if class == Class::Kept { Class::Wide } else { class }, prev.as_ref());
        if class == Class::Kept {
            // blanks in all faces are frequent, the images of `base` are always there
            for q in 0..h * w {
                if rng.chance(1, 3) {
                    s[q] = rng.below(nf as u64) as u8;
                }
                if base[q] != 0 && (rng.chance(9, 10) || world.img_of(base[q]).is_none()) {
                    s[q] = base[q];
                    // an image cell is replaced in place by another crop of the same picture (same
                    // size, other size) or by a copy of its pixels in another allocation
                    if (base[q] as usize) >= world.gvar_start {
                        // … or a glyph by a glyph that differs in one field (same face)
                        if rng.chance(2, 3) {
                            let slot = (base[q] as usize - world.gvar_start) % 2;
                            s[q] = if rng.chance(1, 4) {
                                (world.n_chars + 2 * world.faces.len() + VAR_FACES[slot]) as u8
                            } else {
                                (world.gvar_start + 2 * rng.below(4) as usize + slot) as u8
                            };
                        }
                    } else if (base[q] as usize) >= world.crop_start && rng.chance(2, 3) {
                        let slot = (base[q] as usize - world.crop_start) % 2;
                        s[q] = (world.crop_start + 2 * rng.below(4) as usize + slot) as u8;
                    }
                }
            }
            repair(world, h, w, &mut s);
        }
        *prev = Some(s.clone());
        Step::Frame(s)
    };
    while steps.len() < nsteps {
        let last = steps.len() + 1 >= nsteps;
        let k = rng.below(14);
        if session {
            // turns of run_render: [R] (F | S | K F), the last turn renders
            if k == 13 {
                steps.push(Step::Recreate);
            }
            if last || k < 8 {
                steps.push(frame(rng, &mut prev));
            } else if k < 10 {
                steps.push(Step::Skip);
            } else {
                steps.push(Step::ClearAfterDraw);
                steps.push(frame(rng, &mut prev));
            }
        } else if last || k < 8 {
            steps.push(frame(rng, &mut prev));
        } else if k < 9 {
            steps.push(Step::Skip);
        } else if k < 11 {
            steps.push(Step::Clear);
        } else if k < 13 {
            steps.push(Step::ClearAfterDraw);
            steps.push(frame(rng, &mut prev));
        } else {
            steps.push(Step::Recreate);
        }
    }
    if session && !matches!(steps.last(), Some(Step::Frame(_))) {
        steps.push(frame(rng, &mut prev));
    }
    // half of the terminals have cells that are not a whole number of pixels
    let px = if rng.chance(1, 2) { (rng.below(h.max(1) as u64) as usize, rng.below(w.max(1) as u64) as usize) } else { (0, 0) };
    (Hist { h, w, clear0, init, steps, session, px }, class)
}

/// white-box corner cases, exercised whatever the seed
fn corner_cases(world: &World) -> Vec<Hist> {
    let nf = world.faces.len();
    let sym = |ch: usize, face: usize| (ch * nf + face) as u8;
    let img = |i: usize, face: usize| (world.n_chars + i * nf + face) as u8;
    let gly = |face: usize| (world.n_chars + 2 * nf + face) as u8;
    let mut res = Vec::new();
    let frame = |h: usize, w: usize, cells: &[(usize, usize, u8)]| {
        let mut s = vec![0u8; h * w];
        for &(r, c, v) in cells {
            s[r * w + c] = v;
        }
        Step::Frame(s)
    };
    let blank = |h: usize, w: usize| Step::Frame(vec![0u8; h * w]);
    for clear0 in [false, true] {
        // first painted cell has the old sentinel face
        res.push(Hist { h: 2, w: 4, clear0, init: None, session: false, px: (0, 0), steps: vec![frame(2, 4, &[(0, 0, sym(1, 2))]), frame(2, 4, &[(1, 2, sym(2, 2))])] });
        // clear / recreate must repaint cells equal to the default cell
        res.push(Hist { h: 1, w: 3, clear0, init: None, session: false, px: (0, 0), steps: vec![frame(1, 3, &[(0, 0, sym(3, 0))]), Step::Clear, blank(1, 3)] });
        res.push(Hist { h: 1, w: 3, clear0, init: None, session: false, px: (0, 0), steps: vec![frame(1, 3, &[(0, 0, sym(3, 0))]), Step::Recreate, blank(1, 3)] });
        res.push(Hist { h: 2, w: 3, clear0, init: None, session: false, px: (0, 0), steps: vec![frame(2, 3, &[(1, 1, sym(3, 1))]), Step::Skip, Step::Clear, Step::Skip, frame(2, 3, &[(0, 0, sym(1, 0))])] });
        // blank runs of length 4 and 5, also next to an ignored cell and in a non-default face
        for run in [3usize, 4, 5, 6] {
            let w = 8;
            let mut a = vec![sym(1, 0); w];
            a.extend(vec![sym(2, 1); w]);
            let mut b = a.clone();
            for c in 1..1 + run {
                b[c] = sym(0, 0);
                b[w + c] = sym(0, 1);
            }
            res.push(Hist { h: 2, w, clear0, init: None, session: false, px: (0, 0), steps: vec![Step::Frame(a.clone()), Step::Frame(b.clone()), Step::Frame(a.clone())] });
            let mut c = b.clone();
            c[1 + run] = img(0, 0);
            repair(world, 2, w, &mut c);
            res.push(Hist { h: 2, w, clear0, init: None, session: false, px: (0, 0), steps: vec![Step::Frame(a), Step::Frame(c), Step::Frame(b)] });
        }
        // wide characters: next-to-last column, replaced by narrow, shadow cell changes, neighbours
        let w = 5;
        res.push(Hist { h: 1, w, clear0, init: None, session: false, px: (0, 0), steps: vec![frame(1, w, &[(0, 3, sym(4, 0))]), frame(1, w, &[(0, 3, sym(1, 0))]), frame(1, w, &[(0, 3, sym(4, 0)), (0, 4, sym(2, 0))]), frame(1, w, &[(0, 3, sym(4, 0)), (0, 4, sym(3, 1))]), frame(1, w, &[(0, 2, sym(5, 0)), (0, 3, sym(4, 0))]), frame(1, w, &[(0, 1, sym(5, 1)), (0, 3, sym(4, 0))])] });
        res.push(Hist { h: 1, w, clear0, init: None, session: false, px: (0, 0), steps: vec![frame(1, w, &[(0, 0, sym(4, 0)), (0, 2, sym(5, 0))]), frame(1, w, &[(0, 1, sym(4, 0)), (0, 3, sym(5, 0))]), Step::Clear, frame(1, w, &[(0, 0, sym(4, 2)), (0, 2, sym(1, 2))])] });
        // images: at the origin, moved, replaced, glyph, erased by clear
        res.push(Hist { h: 3, w: 6, clear0, init: None, session: false, px: (0, 0), steps: vec![frame(3, 6, &[(0, 0, img(1, 1))]), frame(3, 6, &[(1, 2, img(1, 1))]), frame(3, 6, &[(1, 2, img(0, 2)), (0, 0, gly(1))]), Step::Clear, frame(3, 6, &[(0, 0, gly(1)), (2, 1, sym(4, 0))]), Step::Recreate, frame(3, 6, &[(2, 4, gly(0))])] });
        // an unchanged two-row image in a non-default face; blanks in other faces are painted left of it
        for f in 0..3 {
            for g in 0..3 {
                res.push(Hist { h: 3, w: 6, clear0, init: None, session: false, px: (0, 0), steps: vec![
                    frame(3, 6, &[(1, 0, sym(1, 0)), (0, 1, img(1, f))]),
                    frame(3, 6, &[(1, 0, sym(0, g)), (0, 1, img(1, f))]),
                    frame(3, 6, &[(0, 0, sym(0, g)), (1, 0, sym(0, f)), (0, 1, img(1, f)), (0, 4, sym(0, g)), (1, 4, sym(0, g)), (1, 5, sym(0, g))]),
                ] });
            }
        }
        // ill-placed: image overhanging the bottom edge, overlapping images, wide character cut by an image
        res.push(Hist { h: 2, w: 4, clear0, init: None, session: false, px: (0, 0), steps: vec![frame(2, 4, &[(1, 2, img(1, 0))]), blank(2, 4)] });
        res.push(Hist { h: 3, w: 6, clear0, init: None, session: false, px: (0, 0), steps: vec![frame(3, 6, &[(0, 0, img(1, 0)), (1, 1, img(1, 1))]), frame(3, 6, &[(1, 1, img(1, 1))]), blank(3, 6)] });
        res.push(Hist { h: 2, w: 6, clear0, init: None, session: false, px: (0, 0), steps: vec![frame(2, 6, &[(0, 1, sym(4, 0))]), frame(2, 6, &[(0, 1, sym(4, 0)), (0, 2, img(0, 0))]), frame(2, 6, &[(0, 1, sym(4, 0))])] });
    }
    for f in 0..nf {
        // blank runs in faces whose attributes show on a space must not be erased
        for n in [4usize, 5, 8] {
            res.push(Hist { h: 1, w: n, clear0: false, init: None, session: false, px: (0, 0), steps: vec![Step::Frame(vec![sym(0, f); n])] });
            let mut a = vec![sym(1, f); 8];
            a.extend(vec![sym(0, f); 8]);
            let mut b = a.clone();
            for c in 1..n.min(7) + 1 {
                b[c] = sym(0, f);
            }
            res.push(Hist { h: 2, w: 8, clear0: true, init: None, session: false, px: (0, 0), steps: vec![Step::Frame(a), Step::Frame(b)] });
        }
        // an image in such a face
        res.push(Hist { h: 3, w: 6, clear0: false, init: None, session: false, px: (0, 0), steps: vec![frame(3, 6, &[(0, 1, img(1, f)), (2, 0, gly(f))]), frame(3, 6, &[(0, 1, img(1, f)), (2, 2, gly(f)), (2, 0, sym(0, f))])] });
    }
    // an image cell replaced in place by (a) another crop of the same backing picture with the same size,
    // (b) a crop of another size, (c) a copy of its pixels in another allocation, and back
    for slot in 0..2usize {
        let crop = |k: usize| (world.crop_start + 2 * k + slot) as u8;
        for (a, b) in [(0usize, 1usize), (0, 2), (0, 3), (1, 0), (2, 0), (3, 0), (2, 1), (3, 1)] {
            res.push(Hist { h: 3, w: 6, clear0: false, init: None, session: false, px: (0, 0), steps: vec![
                frame(3, 6, &[(0, 1, crop(a)), (2, 0, sym(1, 0))]),
                frame(3, 6, &[(0, 1, crop(b)), (2, 0, sym(1, 0))]),
                frame(3, 6, &[(0, 1, crop(a)), (2, 0, sym(2, 0))]),
            ] });
        }
        res.push(Hist { h: 3, w: 6, clear0: false, init: None, session: true, px: (0, 0), steps: vec![
            frame(3, 6, &[(1, 2, crop(0))]), frame(3, 6, &[(1, 2, crop(1))]), Step::Skip, frame(3, 6, &[(1, 2, crop(2))]),
            Step::Recreate, frame(3, 6, &[(1, 2, crop(3))]), frame(3, 6, &[(1, 2, crop(0))]),
        ] });
    }
    // glyphs that differ in ONE field (frame, view box, scene, size), same face, one renderer: each must
    // be shown as its own picture, also after clear() (the glyph cache lives as long as the renderer)
    for slot in 0..2usize {
        let g = |k: usize| if k == 0 { gly(VAR_FACES[slot]) } else { (world.gvar_start + 2 * (k - 1) + slot) as u8 };
        for k in 1..5usize {
            res.push(Hist { h: 3, w: 6, clear0: false, init: None, session: false, px: (0, 0), steps: vec![
                frame(3, 6, &[(0, 0, g(0))]),
                frame(3, 6, &[(0, 0, g(0)), (1, 0, g(k))]),
                frame(3, 6, &[(0, 0, g(k)), (1, 0, g(0))]),
                Step::Clear,
                frame(3, 6, &[(0, 0, g(k)), (1, 0, g(0))]),
                frame(3, 6, &[(2, 0, g(k))]),
            ] });
        }
    }
    // cells that are not a whole number of pixels: a glyph still covers exactly its declared cells
    for (h, w, px) in [(2usize, 5usize, (1usize, 3usize)), (3, 8, (2, 7)), (1, 4, (0, 2)), (4, 6, (3, 5))] {
        for slot in 0..2usize {
            let wide_g = (world.gvar_start + 6 + slot) as u8; // the 1 x 3 glyph
            let mut cells = vec![(0usize, 0usize, gly(slot)), (0, 2, sym(3, 0))];
            if h > 1 {
                cells.push((1, 0, wide_g));
                cells.push((1, 3, sym(1, 1)));
            }
            for session in [false, true] {
                res.push(Hist { h, w, clear0: false, init: None, session, px, steps: vec![frame(h, w, &cells), frame(h, w, &[(0, 1, gly(slot)), (0, 3, sym(2, 0))]), frame(h, w, &cells)] });
            }
        }
    }
    // the frame is drawn before clear() (frame-drop path), directly and through run_render
    for session in [false, true] {
        res.push(Hist { h: 1, w: 3, clear0: false, init: None, session, px: (0, 0), steps: vec![frame(1, 3, &[(0, 0, sym(3, 0))]), Step::ClearAfterDraw, frame(1, 3, &[(0, 1, sym(1, 1))])] });
        res.push(Hist { h: 3, w: 6, clear0: false, init: None, session, px: (0, 0), steps: vec![frame(3, 6, &[(0, 0, img(1, 1)), (2, 5, sym(2, 0))]), Step::ClearAfterDraw, frame(3, 6, &[(1, 2, gly(2)), (0, 0, sym(4, 0))]), Step::Skip, frame(3, 6, &[(1, 2, gly(2))])] });
    }
    // resize in run_render: the old images must be erased and everything repainted
    res.push(Hist { h: 3, w: 6, clear0: false, init: None, session: true, px: (0, 0), steps: vec![frame(3, 6, &[(0, 0, img(1, 1)), (2, 5, sym(2, 0))]), Step::Recreate, frame(3, 6, &[(2, 0, sym(1, 0))]), Step::Recreate, Step::Skip, frame(3, 6, &[])] });
    res.push(Hist { h: 1, w: 3, clear0: false, init: None, session: true, px: (0, 0), steps: vec![frame(1, 3, &[(0, 0, sym(3, 0))]), Step::Recreate, frame(1, 3, &[])] });
    res.push(Hist { h: 2, w: 4, clear0: false, init: None, session: true, px: (0, 0), steps: vec![frame(2, 4, &[(0, 0, gly(1))]), Step::Recreate, Step::ClearAfterDraw, frame(2, 4, &[(1, 1, gly(1))])] });
    // wide characters hidden under an image: wholly inside, and cut by its right edge
    res.push(Hist { h: 3, w: 6, clear0: false, init: None, session: false, px: (0, 0), steps: vec![frame(3, 6, &[(0, 1, img(1, 1)), (1, 2, sym(4, 0))]), frame(3, 6, &[(0, 1, img(1, 1)), (1, 1, sym(5, 2)), (1, 4, sym(1, 0))]), frame(3, 6, &[(1, 2, sym(4, 0))])] });
    res.push(Hist { h: 3, w: 6, clear0: false, init: None, session: false, px: (0, 0), steps: vec![frame(3, 6, &[(0, 1, img(1, 1)), (1, 3, sym(4, 0)), (1, 4, sym(1, 0))]), frame(3, 6, &[(0, 1, img(1, 1)), (1, 3, sym(4, 0)), (1, 4, sym(2, 0))])] });
    // known finding, sub-class cut: a wide character hidden under the LAST column of a new image whose
    // cell was damaged by the erase of an old image is painted and casts its shadow outside the image
    res.push(Hist { h: 3, w: 6, clear0: false, init: None, session: false, px: (0, 0), steps: vec![frame(3, 6, &[(1, 1, img(0, 0))]), frame(3, 6, &[(0, 0, img(1, 1)), (1, 2, sym(4, 0)), (1, 3, sym(3, 0))])] });
    // empty terminals
    for (h, w) in [(0usize, 0usize), (0, 3), (2, 0)] {
        res.push(Hist { h, w, clear0: true, init: None, session: false, px: (0, 0), steps: vec![Step::Frame(vec![]), Step::Clear, Step::Frame(vec![]), Step::Recreate, Step::Frame(vec![])] });
    }
    // a terminal that shows something else when the renderer is created with clear = true
    let g: Vec<u8> = vec![sym(4, 1), 0, sym(3, 2), sym(5, 0), 0, sym(1, 1)];
    res.push(Hist { h: 2, w: 3, clear0: true, init: Some(g.clone()), session: false, px: (0, 0), steps: vec![blank(2, 3)] });
    res.push(Hist { h: 2, w: 3, clear0: true, init: Some(g), session: false, px: (0, 0), steps: vec![frame(2, 3, &[(0, 1, sym(4, 0)), (1, 0, sym(2, 2))])] });
    res
}

// ---------------------------------------------------------------- main

struct Ctx<'a> {
    world: &'a World,
    out: Out,
    n_clean: u64,
    n_ill: u64,
    n_clean_fail: u64,
    n_ill_fail: BTreeMap<&'static str, u64>,
    n_in_domain: u64,
    n_oracle_lines: u64,
    oracle_budget: u64,
    n_panics: u64,
    n_sessions: u64,
    /// failures outside the known finding are reported first (the evidence keeps the first 50 only)
    unlisted: Vec<(Hist, Verdict)>,
    listed: Vec<(Hist, Verdict)>,
}

const WHAT_PLAIN: &str = "C01: after a rendered frame the terminal does not show the drawn surface";
const WHAT_PANIC: &str = "C01: renderer panicked";

fn what_of(v: &Verdict) -> String {
    if v.panicked {
        WHAT_PANIC.to_string()
    } else {
        match v.class {
            None => WHAT_PLAIN.to_string(),
            Some(c) => format!("C01-img/{c}: ill-placed image"),
        }
    }
}

impl Ctx<'_> {
    fn one(&mut self, hist: &Hist, label: &str) {
        let world = self.world;
        let v = judge(world, hist);
        if v.panicked {
            self.n_panics += 1;
        }
        if hist.session {
            self.n_sessions += 1;
        }
        let req = hist_request(world, hist);
        let frames = hist.steps.iter().filter(|s| matches!(s, Step::Frame(_))).count();
        let nontrivial = hist.steps.iter().any(|s| matches!(s, Step::Frame(f) if f.iter().any(|&x| x != 0)));
        self.out.case(&format!("{req} {}", hist.session), nontrivial);
        self.out.hist(&format!("class:{label}"));
        self.out.hist(if hist.session { "driver:run_render" } else { "driver:direct" });
        self.out.hist(&format!("steps:{}", hist.steps.len().min(9)));
        self.out.hist(&format!("cells:{}", match hist.h * hist.w { 0 => "0", 1..=4 => "1-4", 5..=12 => "5-12", 13..=24 => "13-24", 25..=40 => "25-40", _ => "41-240" }));
        let any_ill = hist.steps.iter().any(|s| matches!(s, Step::Frame(f) if frame_class(world, hist.h, hist.w, f).is_some()));
        self.out.hist(if any_ill { "ill-placed" } else { "well-placed" });
        if v.all_in_domain {
            self.n_in_domain += 1;
        }
        for s in &hist.steps {
            self.out.hist(match s {
                Step::Frame(_) => "step:frame",
                Step::Skip => "step:skip",
                Step::Clear => "step:clear",
                Step::ClearAfterDraw => "step:clear-after-draw",
                Step::Recreate => "step:recreate",
            });
        }
        if any_ill { self.n_ill += 1 } else { self.n_clean += 1 }
        if !v.panicked && v.cmds.len() == hist.steps.len() {
            let answer: Vec<String> = v.cmds.iter().map(|c| show_cmds(c)).collect();
            self.out.corr(&req, &answer.join("|"));
        }
        if self.out.evaluations % 40 == 1 && hist.h * hist.w > 0 && hist.h * hist.w <= 40 {
            // the harness' domain predicate against the Lean one
            for s in &hist.steps {
                if let Step::Frame(f) = s {
                    self.out.corr(
                        &format!("c01 wp {} {}", header(world, hist), world.sym_str(f)),
                        if well_placed(world, hist.h, hist.w, f) { "true" } else { "false" },
                    );
                }
            }
        }
        match v.fail_step {
            None => {
                // second opinion of the Lean reference terminal and specification
                if !any_ill && frames > 0 && self.n_oracle_lines < self.oracle_budget {
                    self.n_oracle_lines += 1;
                    self.out.oracle(&exec_request(world, hist, &v.cmds), "ok");
                }
            }
            Some(_) => {
                if v.class.is_none() || v.panicked {
                    self.n_clean_fail += 1;
                    if self.unlisted.len() < 40 {
                        self.unlisted.push((hist.clone(), v));
                    }
                } else {
                    *self.n_ill_fail.entry(v.class.unwrap()).or_insert(0) += 1;
                    if self.listed.len() < 12 {
                        self.listed.push((hist.clone(), v));
                    }
                }
                return;
            }
        }
        if self.out.evaluations % 997 == 3 {
            self.out.sample(json!({"request": req.chars().take(600).collect::<String>(), "session": hist.session}));
        }
    }

    fn report_failures(&mut self) {
        let world = self.world;
        let unlisted = std::mem::take(&mut self.unlisted);
        let listed = std::mem::take(&mut self.listed);
        for (k, (hist, v)) in unlisted.iter().chain(listed.iter()).enumerate() {
            let shrink_it = k < 8 || (k >= unlisted.len() && k < unlisted.len() + 4);
            if shrink_it {
                let small = shrink(world, hist, v.class, v.panicked);
                let sv = judge(world, &small);
                let mut input = hist_json(world, &small, if sv.panicked { None } else { sv.class });
                input["failing_step"] = json!(sv.fail_step);
                input["commands"] = json!(sv.cmds.iter().map(|c| show_cmds(c)).collect::<Vec<_>>());
                self.out.fail(&what_of(&sv), input, json!(sv.expected), json!(sv.got));
            } else {
                self.out.fail(&what_of(v), hist_json(world, hist, if v.panicked { None } else { v.class }), json!(v.expected), json!(v.got));
            }
        }
        // the failures that are only counted
        let total_listed: u64 = self.n_ill_fail.values().sum();
        for _ in (unlisted.len() as u64)..self.n_clean_fail {
            self.out.failure_count += 1;
        }
        for _ in (listed.len() as u64)..total_listed {
            self.out.failure_count += 1;
        }
    }
}

fn main() {
    let cfg = Cfg::from_env();
    let out = cfg.out();
    // start-up cross-checks of the alphabet panic with their message
    let world = World::new();
    verif_harness::silence_panics();
    let mut ctx = Ctx {
        world: &world,
        out,
        n_clean: 0,
        n_ill: 0,
        n_clean_fail: 0,
        n_ill_fail: BTreeMap::new(),
        n_in_domain: 0,
        n_oracle_lines: 0,
        oracle_budget: if cfg.thorough { 30_000 } else { u64::MAX },
        n_panics: 0,
        n_sessions: 0,
        unlisted: Vec::new(),
        listed: Vec::new(),
    };
    let rule = "one case = one history (terminal 1..5 x 1..8, thorough also 0..12 x 0..20; 1..8 steps of frame / skipped frame / clear / clear after the frame was drawn / clear+new(clear=true); a quarter of them driven through Terminal::run_render with Resize events and frame drops; cells from {space, 3 narrow, 2 wide, 2 images of 1x2 and 2x3 cells, 1 glyph} x 5 faces incl. bg=#010203, underline and reverse; optional foreign initial screen content); non-trivial = some frame draws a non-default cell; distinct by request line and driver";
    if let Some(rep) = &cfg.replay {
        if let Some(h) = parse_hist(&world, &rep["failure"]["input"]) {
            ctx.one(&h, "replay");
        }
        ctx.report_failures();
        ctx.out.finish(rule);
        return;
    }
    for h in corner_cases(&world) {
        ctx.one(&h, "corner");
    }
    let mut rng = Rng::new(cfg.seed);
    let n = if cfg.thorough { 200_000 } else { 4_000 };
    for _ in 0..n {
        let (h, class) = random_hist(&world, &mut rng, cfg.thorough);
        let label = match class {
            Class::Narrow => "narrow",
            Class::Wide => "wide",
            Class::ImagesPlaced => "images-placed",
            Class::WidePlaced => "images+wide-placed",
            Class::Free => "free",
            Class::Kept => "kept-images",
        };
        ctx.one(&h, label);
    }
    ctx.report_failures();
    let stats = json!({
        "clean_histories": ctx.n_clean, "clean_failing": ctx.n_clean_fail,
        "ill_placed_histories": ctx.n_ill, "ill_placed_failing_by_class": ctx.n_ill_fail,
        "histories_in_lean_domain": ctx.n_in_domain, "run_render_sessions": ctx.n_sessions,
        "lean_exec_oracle_lines": ctx.n_oracle_lines, "renderer_panics": ctx.n_panics,
    });
    ctx.out.extra("c01", stats);
    ctx.out.finish(rule);
}
