//! C08: `ViewBounds::view_bounds` for every selector form × every integer type.
//! Correspondence: Lean checked machine-integer model `SurfModel.Slice.viewBoundsC` (proved fault-free and
//! equal to the `Int` model `viewBounds`, which is proved equal to the Python spec).
//! Oracle: independent Python-slice implementation below (i128 arithmetic).
//! External anchors (independent of both): the crate's own `test_view_bounds` literals, and a table produced
//! once by CPython's `slice(a, b).indices(n)` (corpus/C08/python_slices.txt, embedded at build time) — the
//! implementation (Rust oracle, `fail`) and the Lean specification `pySlice` (`O` lines) are checked against
//! both.
#![allow(unused_mut)]
use verif_harness::{Cfg, r#gen::Rng, out::Out};
use serde_json::json;
use std::collections::HashSet;
use std::panic::{AssertUnwindSafe, catch_unwind};
use surf_n_term::surface::ViewBounds;

fn py_idx(i: i128, n: i128) -> i128 {
    if i < 0 { (i + n).max(0) } else { i.min(n) }
}
fn py_end_incl(e: i128, n: i128) -> i128 {
    if e >= n {
        n
    } else if e < -n {
        0
    } else {
        (if e < 0 { e + n } else { e }) + 1
    }
}
/// Python reference; forms: 0 idx, 1 a..b, 2 a.., 3 ..b, 4 a..=b, 5 ..=b, 6 ..
fn py(form: u8, a: i128, b: i128, n: i128) -> Option<(usize, usize)> {
    let (s, e) = match form {
        0 => {
            if -n <= a && a < n {
                let s = if a < 0 { a + n } else { a };
                (s, s + 1)
            } else {
                return None;
            }
        }
        1 => (py_idx(a, n), py_idx(b, n)),
        2 => (py_idx(a, n), n),
        3 => (0, py_idx(b, n)),
        4 => (py_idx(a, n), py_end_incl(b, n)),
        5 => (0, py_end_incl(b, n)),
        _ => (0, n),
    };
    if s < e { Some((s as usize, e as usize)) } else { None }
}

fn show(r: &Result<Option<(usize, usize)>, ()>) -> String {
    match r {
        Err(()) => "panic".to_string(),
        Ok(None) => "none".to_string(),
        Ok(Some((a, b))) => format!("some {a} {b}"),
    }
}

struct Ctx {
    out: Out,
    seen: HashSet<String>,
    /// which kinds of bound values each (integer type, selector form) pair has been run with: bit 0 a negative
    /// bound, 1 zero, 2 the type's MIN, 3 the type's MAX, 4 a bound >= n (n > 0), 5 a bound < -n (n > 0)
    cover: std::collections::BTreeMap<(String, u8), u8>,
}

/// value range of the ten integer types, written out (not taken from the crate or from `as` conversions)
const TYPES: [(&str, bool, i128, i128); 10] = [
    ("i8", true, -128, 127),
    ("u8", false, 0, 255),
    ("i16", true, -32768, 32767),
    ("u16", false, 0, 65535),
    ("i32", true, -2147483648, 2147483647),
    ("u32", false, 0, 4294967295),
    ("i64", true, -9223372036854775808, 9223372036854775807),
    ("u64", false, 0, 18446744073709551615),
    ("isize", true, -9223372036854775808, 9223372036854775807),
    ("usize", false, 0, 18446744073709551615),
];

impl Ctx {
    fn check(
        &mut self,
        ty: &str,
        signed: bool,
        form: u8,
        a: i128,
        b: i128,
        n: usize,
        got: Result<Option<(usize, usize)>, ()>,
    ) {
        let req = match form {
            0 if signed => format!("c08 checked idxS {a} {n}"),
            0 => format!("c08 checked idxU {a} {n}"),
            1 => format!("c08 checked range {a} {b} {n}"),
            2 => format!("c08 checked from {a} {n}"),
            3 => format!("c08 checked to {b} {n}"),
            4 => format!("c08 checked incl {a} {b} {n}"),
            5 => format!("c08 checked toIncl {b} {n}"),
            _ => format!("c08 checked full {n}"),
        };
        if let Some((_, _, lo, hi)) = TYPES.iter().find(|t| t.0 == ty) {
            let bounds: &[i128] = match form {
                0 | 2 => &[a],
                3 | 5 => &[b],
                1 | 4 => &[a, b],
                _ => &[],
            };
            let mut mask = 0u8;
            for &v in bounds {
                mask |= (v < 0) as u8 | ((v == 0) as u8) << 1 | ((v == *lo) as u8) << 2 | ((v == *hi) as u8) << 3;
                if n > 0 {
                    mask |= ((v >= n as i128) as u8) << 4 | ((v < -(n as i128)) as u8) << 5;
                }
            }
            *self.cover.entry((ty.to_string(), form)).or_insert(0) |= mask;
        }
        let got_s = show(&got);
        let key = format!("{req} {got_s}");
        let expected = py(form, a, b, n as i128);
        let nontrivial = n > 0 && (a < 0 || b < 0 || a >= n as i128 || b >= n as i128 || expected.is_some());
        self.out.case(&key, nontrivial);
        self.out.hist(&format!("form{form}"));
        self.out.hist(match &got {
            Err(()) => "res:panic",
            Ok(None) => "res:none",
            Ok(Some(_)) => "res:some",
        });
        if self.seen.insert(key) {
            self.out.corr(&req, &got_s);
        }
        if got != Ok(expected) {
            self.out.fail(
                "view_bounds differs from Python slice semantics",
                json!({"type": ty, "form": form, "a": a.to_string(), "b": b.to_string(), "n": n.to_string(), "request": req}),
                json!(show(&Ok(expected))),
                json!(got_s),
            );
        }
        if self.out.evaluations % 97_003 == 1 {
            self.out.sample(json!({"type": ty, "request": req, "impl": got_s}));
        }
    }
}

macro_rules! run_type {
    ($ctx:expr, $t:ty, $signed:expr, $ns:expr, $bounds:expr, $rng:expr, $random:expr) => {{
        let ty = stringify!($t);
        let lo = <$t>::MIN as i128;
        let hi = <$t>::MAX as i128;
        for &n in $ns.iter() {
            let mut vals: Vec<i128> = $bounds.iter().cloned().collect();
            let nn = n as i128;
            for d in [-2i128, -1, 0, 1, 2] {
                vals.extend([nn + d, -nn + d, 2 * nn + d, -2 * nn + d]);
            }
            vals.extend([lo, lo + 1, lo + 2, hi - 2, hi - 1, hi, 0]);
            vals.retain(|v| *v >= lo && *v <= hi);
            vals.sort();
            vals.dedup();
            one_n!($ctx, $t, ty, $signed, n, vals);
        }
        // random part (thorough): bounds anywhere in the type, n anywhere
        for _ in 0..$random {
            let n: usize = match $rng.below(4) {
                0 => $rng.below(64) as usize,
                1 => $rng.below(1 << 20) as usize,
                2 => $rng.next() as usize,
                _ => (1usize << ($rng.below(64) as u32)).wrapping_sub($rng.below(3) as usize),
            };
            let mut pickv = |rng: &mut Rng| -> i128 {
                let v: i128 = match rng.below(4) {
                    0 => rng.range(-70, 70) as i128,
                    1 => (n as i128) * (rng.range(-2, 2) as i128) + rng.range(-2, 2) as i128,
                    2 => rng.next() as i64 as i128,
                    _ => rng.next() as i128,
                };
                v.clamp(lo, hi)
            };
            let a = pickv(&mut $rng);
            let b = pickv(&mut $rng);
            let vals = vec![a, b];
            one_n!($ctx, $t, ty, $signed, n, vals);
        }
    }};
}

macro_rules! one_n {
    ($ctx:expr, $t:ty, $ty:expr, $signed:expr, $n:expr, $vals:expr) => {{
        let n: usize = $n;
        for &a in $vals.iter() {
            let x = a as $t;
            $ctx.check($ty, $signed, 0, a, 0, n, catch_unwind(AssertUnwindSafe(|| x.view_bounds(n))).map_err(|_| ()));
            $ctx.check($ty, $signed, 2, a, 0, n, catch_unwind(AssertUnwindSafe(|| (x..).view_bounds(n))).map_err(|_| ()));
            $ctx.check($ty, $signed, 3, 0, a, n, catch_unwind(AssertUnwindSafe(|| (..x).view_bounds(n))).map_err(|_| ()));
            $ctx.check($ty, $signed, 5, 0, a, n, catch_unwind(AssertUnwindSafe(|| (..=x).view_bounds(n))).map_err(|_| ()));
            for &b in $vals.iter() {
                let y = b as $t;
                $ctx.check($ty, $signed, 1, a, b, n, catch_unwind(AssertUnwindSafe(|| (x..y).view_bounds(n))).map_err(|_| ()));
                $ctx.check($ty, $signed, 4, a, b, n, catch_unwind(AssertUnwindSafe(|| (x..=y).view_bounds(n))).map_err(|_| ()));
            }
        }
    }};
}

/// the selector (form, a, b) in the mathematical values given, written in type `$t`
macro_rules! typed_call {
    ($t:ty, $form:expr, $a:expr, $b:expr, $n:expr) => {{
        let (x, y, n) = ($a as $t, $b as $t, $n);
        catch_unwind(AssertUnwindSafe(|| match $form {
            0 => x.view_bounds(n),
            1 => (x..y).view_bounds(n),
            2 => (x..).view_bounds(n),
            3 => (..y).view_bounds(n),
            4 => (x..=y).view_bounds(n),
            5 => (..=y).view_bounds(n),
            _ => (..).view_bounds(n),
        }))
        .map_err(|_| ())
    }};
}

/// run the selector in EVERY integer type that can hold its bounds; (type name, signed, result)
fn all_types(form: u8, a: i128, b: i128, n: usize) -> Vec<(&'static str, bool, Result<Option<(usize, usize)>, ()>)> {
    let mut res = Vec::new();
    macro_rules! one {
        ($t:ty, $signed:expr) => {
            let fits = |v: i128| v >= <$t>::MIN as i128 && v <= <$t>::MAX as i128;
            let need_a = matches!(form, 0 | 1 | 2 | 4);
            let need_b = matches!(form, 1 | 3 | 4 | 5);
            if (!need_a || fits(a)) && (!need_b || fits(b)) {
                res.push((stringify!($t), $signed, typed_call!($t, form, a, b, n)));
            }
        };
    }
    one!(i8, true);
    one!(u8, false);
    one!(i16, true);
    one!(u16, false);
    one!(i32, true);
    one!(u32, false);
    one!(i64, true);
    one!(u64, false);
    one!(isize, true);
    one!(usize, false);
    res
}

fn spec_request(form: u8, signed: bool, a: i128, b: i128, n: usize) -> String {
    match form {
        0 if signed => format!("c08 spec idxS {a} {n}"),
        0 => format!("c08 spec idxU {a} {n}"),
        1 => format!("c08 spec range {a} {b} {n}"),
        2 => format!("c08 spec from {a} {n}"),
        3 => format!("c08 spec to {b} {n}"),
        4 => format!("c08 spec incl {a} {b} {n}"),
        5 => format!("c08 spec toIncl {b} {n}"),
        _ => format!("c08 spec full {n}"),
    }
}

/// anchor case: `expected` comes from OUTSIDE this harness (the crate's test or CPython)
fn anchor(ctx: &mut Ctx, source: &str, form: u8, a: i128, b: i128, n: usize, expected: Option<(usize, usize)>) {
    let want = show(&Ok(expected));
    // the Rust reference of this harness must agree with the anchor too (a disagreement is a defect of the
    // harness, reported loudly because every other verdict rests on `py`)
    if py(form, a, b, n as i128) != expected {
        ctx.out.fail(
            &format!("HARNESS: Rust reference `py` disagrees with {source}"),
            json!({"form": form, "a": a.to_string(), "b": b.to_string(), "n": n.to_string()}),
            json!(want),
            json!(show(&Ok(py(form, a, b, n as i128)))),
        );
    }
    let mut signs = Vec::new();
    for (ty, signed, got) in all_types(form, a, b, n) {
        ctx.out.case(&format!("anchor {source} {ty} {form} {a} {b} {n}"), true);
        ctx.out.hist(&format!("anchor:{source}"));
        if got != Ok(expected) {
            ctx.out.fail(
                &format!("view_bounds differs from {source}"),
                json!({"type": ty, "form": form, "a": a.to_string(), "b": b.to_string(), "n": n.to_string()}),
                json!(want),
                json!(show(&got)),
            );
        }
        if !signs.contains(&signed) {
            signs.push(signed);
        }
        // the usual judgement and correspondence line as well
        ctx.check(ty, signed, form, a, b, n, got);
    }
    // the Lean specification against the anchor (single index: once per signedness that occurs)
    if form != 0 {
        signs.truncate(1);
    }
    for signed in signs {
        ctx.out.oracle(&spec_request(form, signed, a, b, n), &want);
    }
}

/// the fifteen assertions of `test_view_bounds` (src/surface.rs)
const CRATE_TEST: [(u8, i128, i128, usize, Option<(usize, usize)>); 15] = [
    (6, 0, 0, 10, Some((0, 10))),
    (3, 0, -1, 10, Some((0, 9))),
    (5, 0, -1, 10, Some((0, 10))),
    (1, -5, 8, 10, Some((5, 8))),
    (2, -10, 0, 10, Some((0, 10))),
    (3, 0, 20, 10, Some((0, 10))),
    (1, 10, 20, 10, None),
    (1, 9, 20, 10, Some((9, 10))),
    (2, 10, 0, 10, None),
    (0, 1, 0, 10, Some((1, 2))),
    (0, -1, 0, 10, Some((9, 10))),
    (0, -10, 0, 10, Some((0, 1))),
    (0, -11, 0, 10, None),
    (0, 10, 0, 10, None),
    (0, 10, 0, 0, None),
];

/// `slice(a, b).indices(n)` as evaluated by CPython (generated once, see corpus/C08/gen_python_slices.py)
const PYTHON_TABLE: &str = include_str!("../../../corpus/C08/python_slices.txt");

fn anchors(ctx: &mut Ctx) {
    for (form, a, b, n, expected) in CRATE_TEST {
        anchor(ctx, "the crate's test_view_bounds", form, a, b, n, expected);
    }
    let mut rows = 0u64;
    for line in PYTHON_TABLE.lines() {
        if line.starts_with('#') || line.trim().is_empty() {
            continue;
        }
        let f: Vec<&str> = line.split(' ').collect();
        assert!(f.len() == 5, "malformed table line {line}");
        let opt = |s: &str| if s == "-" { None } else { Some(s.parse::<i128>().expect("table bound")) };
        let (a, b) = (opt(f[0]), opt(f[1]));
        let n: usize = f[2].parse().expect("table n");
        let start: i128 = f[3].parse().expect("table start");
        let stop: i128 = f[4].parse().expect("table stop");
        let expected = if start < stop { Some((start as usize, stop as usize)) } else { None };
        let form = match (a, b) {
            (Some(_), Some(_)) => 1,
            (Some(_), None) => 2,
            (None, Some(_)) => 3,
            (None, None) => 6,
        };
        anchor(ctx, "CPython slice.indices", form, a.unwrap_or(0), b.unwrap_or(0), n, expected);
        rows += 1;
    }
    ctx.out.extra("anchors", json!({"crate_test_literals": CRATE_TEST.len(), "cpython_table_rows": rows}));
}

/// a selector of any form over `i32`, resolved by the crate's own implementations (forwarding only)
#[derive(Clone, Copy)]
struct Sel(u8, i32, i32);

impl ViewBounds for Sel {
    fn view_bounds(self, n: usize) -> Option<(usize, usize)> {
        match self.0 {
            0 => self.1.view_bounds(n),
            1 => (self.1..self.2).view_bounds(n),
            2 => (self.1..).view_bounds(n),
            3 => (..self.2).view_bounds(n),
            4 => (self.1..=self.2).view_bounds(n),
            5 => (..=self.2).view_bounds(n),
            _ => (..).view_bounds(n),
        }
    }
}

/// The routes by which a (row, column) selector pair reaches the resolver: `Shape::view`, `Surface::view` of an
/// owned surface and of a view of it (the selector of the nested view is resolved against the VIEW's axes, rows
/// against its height and columns against its width), `Image::crop`. Oracle only: the extent of the window must be
/// the one the Python slice of each axis has; which cells the window holds is C07's business.
fn routes(ctx: &mut Ctx, rng: &mut Rng, count: u64) {
    for _ in 0..count {
        let (h, w) = (1 + rng.below(7) as usize, 1 + rng.below(7) as usize);
        let mut sel = |rng: &mut Rng| Sel(rng.below(7) as u8, rng.range(-9, 9) as i32, rng.range(-9, 9) as i32);
        let (r1, c1, r2, c2) = (sel(rng), sel(rng), sel(rng), sel(rng));
        route_case(ctx, h, w, r1, c1, r2, c2);
    }
}

fn route_case(ctx: &mut Ctx, h: usize, w: usize, r1: Sel, c1: Sel, r2: Sel, c2: Sel) {
    use surf_n_term::surface::{Shape, Surface, SurfaceOwned};
    use surf_n_term::{Image, RGBA, Size};
    {
        let want = |s: Sel, n: usize| py(s.0, s.1 as i128, s.2 as i128, n as i128);
        let dims = |r: Sel, c: Sel, h: usize, w: usize| match (want(r, h), want(c, w)) {
            (Some((a, b)), Some((x, y))) => (b - a, y - x),
            _ => (0, 0),
        };
        let e1 = dims(r1, c1, h, w);
        let e2 = dims(r2, c2, e1.0, e1.1);
        let got = catch_unwind(AssertUnwindSafe(|| {
            let size = Size { height: h, width: w };
            let shape = Shape::from(size).view(r1, c1);
            let owned: SurfaceOwned<RGBA> = SurfaceOwned::new(size);
            let v1 = owned.view(r1, c1);
            let v2 = v1.view(r2, c2);
            let s2 = shape.view(r2, c2);
            let img = Image::new(SurfaceOwned::<RGBA>::new(size));
            let i1 = img.crop(r1, c1);
            let i2 = i1.crop(r2, c2);
            vec![
                ("Shape::view", (shape.height, shape.width), e1),
                ("Surface::view", (v1.height(), v1.width()), e1),
                ("Image::crop", (i1.height(), i1.width()), e1),
                ("Shape::view of a view", (s2.height, s2.width), e2),
                ("Surface::view of a view", (v2.height(), v2.width()), e2),
                ("Image::crop of a crop", (i2.height(), i2.width()), e2),
            ]
        }));
        let input = json!({"route": true, "h": h, "w": w, "rows": [r1.0, r1.1, r1.2], "cols": [c1.0, c1.1, c1.2],
            "rows2": [r2.0, r2.1, r2.2], "cols2": [c2.0, c2.1, c2.2], "selector": "[form, a, b] over i32, forms as in the grid"});
        ctx.out.case(&format!("route {h} {w} {:?} {:?} {:?} {:?}", (r1.0, r1.1, r1.2), (c1.0, c1.1, c1.2), (r2.0, r2.1, r2.2), (c2.0, c2.1, c2.2)), e2 != (0, 0));
        ctx.out.hist("route");
        match got {
            Err(_) => ctx.out.fail("a view taken through Shape::view / Surface::view / Image::crop panics", input, json!([e1, e2]), json!("panic")),
            Ok(rows) => {
                for (what, got, exp) in rows {
                    if got != exp {
                        ctx.out.fail(&format!("{what}: extent of the window differs from the Python slices of its axes"), input.clone(), json!(exp), json!(got));
                    }
                }
            }
        }
    }
}

fn main() {
    let cfg = Cfg::from_env();
    let out = cfg.out();
    verif_harness::silence_panics();
    let mut ctx = Ctx { out, seen: HashSet::new(), cover: Default::default() };
    let mut rng = Rng::new(cfg.seed);
    if let Some(r) = &cfg.replay {
        // re-run exactly the recorded selector (in the recorded integer type, or in every type that holds it)
        let inp = &r["failure"]["input"];
        if inp["route"].as_bool() == Some(true) {
            // a recorded selector pair on a route (Shape::view / Surface::view / Image::crop, and nested)
            let sel = |k: &str| Sel(inp[k][0].as_u64().unwrap_or(6) as u8, inp[k][1].as_i64().unwrap_or(0) as i32, inp[k][2].as_i64().unwrap_or(0) as i32);
            let dim = |k: &str| inp[k].as_u64().unwrap_or(1) as usize;
            route_case(&mut ctx, dim("h"), dim("w"), sel("rows"), sel("cols"), sel("rows2"), sel("cols2"));
            ctx.out.sample(json!({"replay": inp}));
            ctx.out.finish("replay of one recorded selector pair on the view / crop routes");
            return;
        }
        let num = |k: &str| inp[k].as_str().and_then(|s| s.parse::<i128>().ok()).unwrap_or(0);
        let form = inp["form"].as_u64().unwrap_or(6) as u8;
        let (a, b) = (num("a"), num("b"));
        let n = inp["n"].as_str().and_then(|s| s.parse::<usize>().ok()).unwrap_or(0);
        let want_ty = inp["type"].as_str().unwrap_or("-").to_string();
        for (ty, signed, got) in all_types(form, a, b, n) {
            if want_ty == "-" || want_ty == ty || form == 6 {
                ctx.check(ty, signed, form, a, b, n, got);
            }
        }
        ctx.out.sample(json!({"replay": inp}));
        ctx.out.finish("replay of one recorded selector");
        return;
    }
    anchors(&mut ctx);
    let mut ns: Vec<usize> = (0..=12).collect();
    ns.extend([127, 128, 200, 255, 256, 1 << 31, (1 << 63) - 1, 1 << 63, usize::MAX]);
    // axis lengths 13..=40: full span in the thorough tier, reduced span (plus the n-relative and type-extreme
    // values `run_type` always adds) in the quick tier
    let ns_mid: Vec<usize> = (13..=40).collect();
    if cfg.thorough {
        ns.extend(13..=40);
        ns.extend([32767, 32768, 65535, 65536, u32::MAX as usize, (u32::MAX as usize) + 1]);
    }
    let span: i128 = if cfg.thorough { 30 } else { 14 };
    let bounds: Vec<i128> = (-span..=span).collect();
    let span_mid: i128 = 3;
    let bounds_mid: Vec<i128> = (-span_mid..=span_mid).collect();
    let random: u64 = if cfg.thorough { 400_000 } else { 4_000 };

    // `..` has no integer type
    for &n in ns.iter() {
        ctx.check("-", false, 6, 0, 0, n, catch_unwind(AssertUnwindSafe(|| (..).view_bounds(n))).map_err(|_| ()));
    }
    run_type!(ctx, i8, true, ns, bounds, rng, random);
    run_type!(ctx, u8, false, ns, bounds, rng, random);
    run_type!(ctx, i16, true, ns, bounds, rng, random);
    run_type!(ctx, u16, false, ns, bounds, rng, random);
    run_type!(ctx, i32, true, ns, bounds, rng, random);
    run_type!(ctx, u32, false, ns, bounds, rng, random);
    run_type!(ctx, i64, true, ns, bounds, rng, random);
    run_type!(ctx, u64, false, ns, bounds, rng, random);
    run_type!(ctx, isize, true, ns, bounds, rng, random);
    run_type!(ctx, usize, false, ns, bounds, rng, random);
    if !cfg.thorough {
        for &n in ns_mid.iter() {
            ctx.check("-", false, 6, 0, 0, n, catch_unwind(AssertUnwindSafe(|| (..).view_bounds(n))).map_err(|_| ()));
        }
        run_type!(ctx, i8, true, ns_mid, bounds_mid, rng, 0);
        run_type!(ctx, u8, false, ns_mid, bounds_mid, rng, 0);
        run_type!(ctx, i16, true, ns_mid, bounds_mid, rng, 0);
        run_type!(ctx, u16, false, ns_mid, bounds_mid, rng, 0);
        run_type!(ctx, i32, true, ns_mid, bounds_mid, rng, 0);
        run_type!(ctx, u32, false, ns_mid, bounds_mid, rng, 0);
        run_type!(ctx, i64, true, ns_mid, bounds_mid, rng, 0);
        run_type!(ctx, u64, false, ns_mid, bounds_mid, rng, 0);
        run_type!(ctx, isize, true, ns_mid, bounds_mid, rng, 0);
        run_type!(ctx, usize, false, ns_mid, bounds_mid, rng, 0);
    }
    routes(&mut ctx, &mut rng, if cfg.thorough { 200_000 } else { 20_000 });
    // every (integer type, selector form) pair must have met: zero, the type's MIN and MAX, a bound beyond the axis,
    // and for the signed types a negative bound and one below -n — otherwise the grid itself is defective
    let mut missing = Vec::new();
    for (ty, signed, _, _) in TYPES {
        for form in 0u8..=5 {
            let need: u8 = if signed { 0b111111 } else { 0b011110 };
            let have = ctx.cover.get(&(ty.to_string(), form)).copied().unwrap_or(0);
            if have & need != need {
                missing.push(format!("{ty} form {form}: have {have:06b} need {need:06b}"));
            }
        }
    }
    if !missing.is_empty() {
        ctx.out.fail("HARNESS: a (type, form) pair was not exercised with every class of bound value", json!({"missing": missing}), json!("all classes"), json!("see input"));
    }
    ctx.out.extra("type_form_coverage", json!({"pairs": ctx.cover.len(), "classes": "negative, zero, MIN, MAX, >= n, < -n", "missing": missing}));
    ctx.out.extra("exhaustive_grid", json!({"axis_lengths": ns.iter().map(|n| n.to_string()).collect::<Vec<_>>(), "bound_span": span, "axis_lengths_reduced_span": if cfg.thorough { vec![] } else { ns_mid.iter().map(|n| n.to_string()).collect::<Vec<_>>() }, "reduced_span": span_mid, "types": 10, "forms": 7}));
    ctx.out.finish("anchors first (the crate's 15 test_view_bounds literals and the CPython slice.indices table, each in every integer type that holds the bounds); grid: every axis length in the list x every bound in [-span, span] + type MIN/MAX neighbourhood + multiples of n, for each of the 10 integer types and 7 selector forms (quick tier: axis lengths 13..=40 with span 3), plus random bounds over the whole type; non-trivial = n > 0 and (some bound negative or beyond the axis, or the selection non-empty); distinct by (request, answer)");
}
