//! C08: `ViewBounds::view_bounds` for every selector form × every integer type.
//! Correspondence: Lean model `SurfModel.Slice.viewBounds` (proved equal to the Python spec).
//! Oracle: independent Python-slice implementation below (i128 arithmetic).
use verif_harness::{Cfg, r#gen::Rng, out::Out};
use serde_json::json;
use std::collections::HashSet;
use std::panic::{AssertUnwindSafe, catch_unwind};
use surf_n_term::surface::ViewBounds;

fn py_idx(i: i128, n: i128) -> i128 {
    if i < 0 { (i + n).max(0) } else { i.min(n) }
}
fn py_end_incl(e: i128, n: i128) -> i128 {
    if e >= n {
        n
    } else if e < -n {
        0
    } else {
        (if e < 0 { e + n } else { e }) + 1
    }
}
/// Python reference; forms: 0 idx, 1 a..b, 2 a.., 3 ..b, 4 a..=b, 5 ..=b, 6 ..
fn py(form: u8, a: i128, b: i128, n: i128) -> Option<(usize, usize)> {
    let (s, e) = match form {
        0 => {
            if -n <= a && a < n {
                let s = if a < 0 { a + n } else { a };
                (s, s + 1)
            } else {
                return None;
            }
        }
        1 => (py_idx(a, n), py_idx(b, n)),
        2 => (py_idx(a, n), n),
        3 => (0, py_idx(b, n)),
        4 => (py_idx(a, n), py_end_incl(b, n)),
        5 => (0, py_end_incl(b, n)),
        _ => (0, n),
    };
    if s < e { Some((s as usize, e as usize)) } else { None }
}

fn show(r: &Result<Option<(usize, usize)>, ()>) -> String {
    match r {
        Err(()) => "panic".to_string(),
        Ok(None) => "none".to_string(),
        Ok(Some((a, b))) => format!("some {a} {b}"),
    }
}

struct Ctx {
    out: Out,
    seen: HashSet<String>,
}

impl Ctx {
    fn check(
        &mut self,
        ty: &str,
        signed: bool,
        form: u8,
        a: i128,
        b: i128,
        n: usize,
        got: Result<Option<(usize, usize)>, ()>,
    ) {
        let req = match form {
            0 if signed => format!("c08 model idxS {a} {n}"),
            0 => format!("c08 model idxU {a} {n}"),
            1 => format!("c08 model range {a} {b} {n}"),
            2 => format!("c08 model from {a} {n}"),
            3 => format!("c08 model to {b} {n}"),
            4 => format!("c08 model incl {a} {b} {n}"),
            5 => format!("c08 model toIncl {b} {n}"),
            _ => format!("c08 model full {n}"),
        };
        let got_s = show(&got);
        let key = format!("{req} {got_s}");
        let expected = py(form, a, b, n as i128);
        let nontrivial = n > 0 && (a < 0 || b < 0 || a >= n as i128 || b >= n as i128 || expected.is_some());
        self.out.case(&key, nontrivial);
        self.out.hist(&format!("form{form}"));
        self.out.hist(match &got {
            Err(()) => "res:panic",
            Ok(None) => "res:none",
            Ok(Some(_)) => "res:some",
        });
        if self.seen.insert(key) {
            self.out.corr(&req, &got_s);
        }
        if got != Ok(expected) {
            self.out.fail(
                "view_bounds differs from Python slice semantics",
                json!({"type": ty, "form": form, "a": a.to_string(), "b": b.to_string(), "n": n.to_string(), "request": req}),
                json!(show(&Ok(expected))),
                json!(got_s),
            );
        }
        if self.out.evaluations % 97_003 == 1 {
            self.out.sample(json!({"type": ty, "request": req, "impl": got_s}));
        }
    }
}

macro_rules! run_type {
    ($ctx:expr, $t:ty, $signed:expr, $ns:expr, $bounds:expr, $rng:expr, $random:expr) => {{
        let ty = stringify!($t);
        let lo = <$t>::MIN as i128;
        let hi = <$t>::MAX as i128;
        for &n in $ns.iter() {
            let mut vals: Vec<i128> = $bounds.iter().cloned().collect();
            let nn = n as i128;
            for d in [-2i128, -1, 0, 1, 2] {
                vals.extend([nn + d, -nn + d, 2 * nn + d, -2 * nn + d]);
            }
            vals.extend([lo, lo + 1, lo + 2, hi - 2, hi - 1, hi, 0]);
            vals.retain(|v| *v >= lo && *v <= hi);
            vals.sort();
            vals.dedup();
            one_n!($ctx, $t, ty, $signed, n, vals);
        }
        // random part (thorough): bounds anywhere in the type, n anywhere
        for _ in 0..$random {
            let n: usize = match $rng.below(4) {
                0 => $rng.below(64) as usize,
                1 => $rng.below(1 << 20) as usize,
                2 => $rng.next() as usize,
                _ => (1usize << ($rng.below(64) as u32)).wrapping_sub($rng.below(3) as usize),
            };
            let mut pickv = |rng: &mut Rng| -> i128 {
                let v: i128 = match rng.below(4) {
                    0 => rng.range(-70, 70) as i128,
                    1 => (n as i128) * (rng.range(-2, 2) as i128) + rng.range(-2, 2) as i128,
                    2 => rng.next() as i64 as i128,
                    _ => rng.next() as i128,
                };
                v.clamp(lo, hi)
            };
            let a = pickv(&mut $rng);
            let b = pickv(&mut $rng);
            let vals = vec![a, b];
            one_n!($ctx, $t, ty, $signed, n, vals);
        }
    }};
}

macro_rules! one_n {
    ($ctx:expr, $t:ty, $ty:expr, $signed:expr, $n:expr, $vals:expr) => {{
        let n: usize = $n;
        for &a in $vals.iter() {
            let x = a as $t;
            $ctx.check($ty, $signed, 0, a, 0, n, catch_unwind(AssertUnwindSafe(|| x.view_bounds(n))).map_err(|_| ()));
            $ctx.check($ty, $signed, 2, a, 0, n, catch_unwind(AssertUnwindSafe(|| (x..).view_bounds(n))).map_err(|_| ()));
            $ctx.check($ty, $signed, 3, 0, a, n, catch_unwind(AssertUnwindSafe(|| (..x).view_bounds(n))).map_err(|_| ()));
            $ctx.check($ty, $signed, 5, 0, a, n, catch_unwind(AssertUnwindSafe(|| (..=x).view_bounds(n))).map_err(|_| ()));
            for &b in $vals.iter() {
                let y = b as $t;
                $ctx.check($ty, $signed, 1, a, b, n, catch_unwind(AssertUnwindSafe(|| (x..y).view_bounds(n))).map_err(|_| ()));
                $ctx.check($ty, $signed, 4, a, b, n, catch_unwind(AssertUnwindSafe(|| (x..=y).view_bounds(n))).map_err(|_| ()));
            }
        }
    }};
}

fn main() {
    let cfg = Cfg::from_env();
    let out = cfg.out();
    verif_harness::silence_panics();
    let mut ctx = Ctx { out, seen: HashSet::new() };
    let mut rng = Rng::new(cfg.seed);
    let mut ns: Vec<usize> = (0..=12).collect();
    ns.extend([127, 128, 200, 255, 256, 1 << 31, (1 << 63) - 1, 1 << 63, usize::MAX]);
    if cfg.thorough {
        ns.extend(13..=40);
        ns.extend([32767, 32768, 65535, 65536, u32::MAX as usize, (u32::MAX as usize) + 1]);
    }
    let span: i128 = if cfg.thorough { 30 } else { 14 };
    let bounds: Vec<i128> = (-span..=span).collect();
    let random: u64 = if cfg.thorough { 400_000 } else { 4_000 };

    // `..` has no integer type
    for &n in ns.iter() {
        ctx.check("-", false, 6, 0, 0, n, catch_unwind(AssertUnwindSafe(|| (..).view_bounds(n))).map_err(|_| ()));
    }
    run_type!(ctx, i8, true, ns, bounds, rng, random);
    run_type!(ctx, u8, false, ns, bounds, rng, random);
    run_type!(ctx, i16, true, ns, bounds, rng, random);
    run_type!(ctx, u16, false, ns, bounds, rng, random);
    run_type!(ctx, i32, true, ns, bounds, rng, random);
    run_type!(ctx, u32, false, ns, bounds, rng, random);
    run_type!(ctx, i64, true, ns, bounds, rng, random);
    run_type!(ctx, u64, false, ns, bounds, rng, random);
    run_type!(ctx, isize, true, ns, bounds, rng, random);
    run_type!(ctx, usize, false, ns, bounds, rng, random);
    ctx.out.extra("exhaustive_grid", json!({"axis_lengths": ns.iter().map(|n| n.to_string()).collect::<Vec<_>>(), "bound_span": span, "types": 10, "forms": 7}));
    ctx.out.finish("grid: every axis length in the list x every bound in [-span, span] + type MIN/MAX neighbourhood + multiples of n, for each of the 10 integer types and 7 selector forms, plus random bounds over the whole type; non-trivial = n > 0 and (some bound negative or beyond the axis, or the selection non-empty); distinct by (request, answer)");
}
