//! C10: view layout honours constraints, never panics, draws where it says it does.
//! Correspondence: layout tree, probe shapes and find_path chains of the implementation vs the Lean
//! model `SurfModel.ViewLayout`.  Oracle (independent, below): no panic / abort, sentinel containment,
//! reported size within the constraint, probe region = rectangle recorded in the layout tree
//! (composed along the path and clipped), painted cells inside the rectangle of their painter,
//! find_path consistency.
use serde::de::DeserializeSeed;
use serde_json::{Value, json};
use std::collections::HashMap;
use std::io::Write as _;
use std::sync::{Arc, Mutex};
use surf_n_term::view::*;
use surf_n_term::*;
use verif_harness::{Cfg, r#gen::Rng, guarded, out::Out};

// ---------------------------------------------------------------------------------------------
// trees

#[derive(Clone, Debug, PartialEq)]
enum Ch {
    Nl,
    Cr,
    Tab,
    W(u8),
}

#[derive(Clone, Debug, PartialEq)]
enum TC {
    Ch(Ch),
    /// image cell, pixel size
    Img(usize, usize),
    Glyph(usize, usize, Vec<Ch>),
}

#[derive(Clone, Debug, PartialEq)]
enum Al {
    S,
    C,
    E,
    X,
    K,
    O(i32),
}

#[derive(Clone, Debug, PartialEq)]
enum Fac {
    None,
    /// positive factor num/den given through the API
    Pos(u64, u64),
    /// raw factor before the filter of `push_child_ext` / `from_json_value`
    Raw(bool, u64, u64),
    /// 1e308: finite, positive, far outside the grid
    Big,
    /// a special value handed to `push_child_ext`: 0 = +inf (passes its filter), 1 = -inf, 2 = NaN
    ApiSpecial(u8),
    /// handed to `FlexChild::flex` unfiltered (flex built as `FlexRef`): finite k/4 with sign, or special
    Direct(FV),
}

#[derive(Clone, Debug, PartialEq)]
enum FV {
    Fin(bool, u64, u64),
    Inf(bool),
    Nan,
}
fn fv_tok(v: &FV) -> String {
    match v {
        FV::Fin(neg, n, d) => format!("{}{n}/{d}", if *neg { "-" } else { "" }),
        FV::Inf(neg) => if *neg { "-inf".into() } else { "inf".into() },
        FV::Nan => "nan".into(),
    }
}
fn fv_f64(v: &FV) -> f64 {
    match v {
        FV::Fin(neg, n, d) => if *neg { -(*n as f64) / *d as f64 } else { *n as f64 / *d as f64 },
        FV::Inf(neg) => if *neg { f64::NEG_INFINITY } else { f64::INFINITY },
        FV::Nan => f64::NAN,
    }
}

#[derive(Clone, Debug, PartialEq)]
struct FC {
    flex: Fac,
    align: Al,
    face: bool,
    view: T,
}

#[derive(Clone, Debug, PartialEq)]
enum T {
    Text(Vec<TC>, bool),
    Str(Vec<Ch>),
    Glyph(usize, usize, Vec<Ch>),
    Probe(usize, usize),
    Surface(usize, usize),
    /// ascii image view of an image of h x w pixels
    Ascii(usize, usize),
    Image(usize, usize),
    Fill,
    Unit,
    /// scroll bar: horizontal?, visible fraction, offset fraction (any f64)
    Bar(bool, f64, f64),
    None_,
    Flex(bool, u8, Vec<FC>),
    Cont(usize, usize, Al, Al, [usize; 4], bool, Box<T>),
    Frame(Box<T>),
    Tag(Box<T>),
    Dyn(usize, Box<T>, Box<T>),
}

fn ch_tok(c: &Ch) -> String {
    match c {
        Ch::Nl => "nl".into(),
        Ch::Cr => "cr".into(),
        Ch::Tab => "tab".into(),
        Ch::W(n) => format!("w{n}"),
    }
}
fn chs_tok(cs: &[Ch]) -> String {
    if cs.is_empty() { "-".into() } else { cs.iter().map(ch_tok).collect::<Vec<_>>().join(".") }
}
fn al_tok(a: &Al) -> String {
    match a {
        Al::S => "s".into(),
        Al::C => "c".into(),
        Al::E => "e".into(),
        Al::X => "x".into(),
        Al::K => "k".into(),
        Al::O(o) => format!("o{o}"),
    }
}
fn round_up(a: usize, b: usize) -> usize {
    if b == 0 || a == 0 { 0 } else { a / b + (a % b != 0) as usize }
}
fn cells_of(ppc: (usize, usize), ph: usize, pw: usize) -> (usize, usize) {
    if ppc.0 == 0 || ppc.1 == 0 || ph == 0 || pw == 0 { (0, 0) } else { (round_up(ph, ppc.0), round_up(pw, ppc.1)) }
}

/// tokens for the Lean model; `id` numbers the nodes in preorder (probe id = node id + 1)
fn tokens(t: &T, ppc: (usize, usize), id: &mut usize, out: &mut Vec<String>) {
    let me = *id;
    *id += 1;
    match t {
        T::Text(cells, wraps) => {
            out.push("T".into());
            out.push(if *wraps { "1" } else { "0" }.into());
            out.push(cells.len().to_string());
            for c in cells {
                out.push(match c {
                    TC::Ch(c) => ch_tok(c),
                    TC::Img(ph, pw) => {
                        let (h, w) = cells_of(ppc, *ph, *pw);
                        format!("i{h}x{w}")
                    }
                    TC::Glyph(h, w, fb) => format!("g{h}x{w}:{}", chs_tok(fb)),
                });
            }
        }
        T::Str(cs) => {
            out.push("S".into());
            out.push(chs_tok(cs));
        }
        T::Glyph(h, w, fb) => {
            out.push("G".into());
            out.push(format!("{h}x{w}"));
            out.push(chs_tok(fb));
        }
        T::Probe(h, w) => out.extend(["X".into(), (me + 1).to_string(), format!("{h}x{w}")]),
        T::Surface(h, w) => out.extend(["X".into(), "0".into(), format!("{h}x{w}")]),
        T::Ascii(h, w) => out.extend(["X".into(), "0".into(), format!("{}x{w}", h / 2 + h % 2)]),
        T::Image(h, w) => out.extend(["I".into(), format!("{h}x{w}")]),
        T::Fill => out.push("F".into()),
        T::Unit => out.push("U".into()),
        T::Bar(hor, _, _) => out.extend(["B".into(), if *hor { "h" } else { "v" }.into()]),
        T::None_ => out.push("N".into()),
        T::Flex(hor, j, cs) => {
            out.extend(["L".into(), if *hor { "h" } else { "v" }.into(), j.to_string(), cs.len().to_string()]);
            for c in cs {
                out.push(match &c.flex {
                    Fac::None => "-".into(),
                    Fac::Pos(n, d) => format!("{n}/{d}"),
                    Fac::Raw(neg, n, d) => format!("j{}{n}/{d}", if *neg { "-" } else { "" }),
                    Fac::Big => "big".into(),
                    Fac::ApiSpecial(k) => ["ainf", "a-inf", "anan"][(*k).min(2) as usize].into(),
                    Fac::Direct(v) => fv_tok(v),
                });
                out.push(al_tok(&c.align));
                out.push(if c.face { "1" } else { "0" }.into());
                tokens(&c.view, ppc, id, out);
            }
        }
        T::Cont(h, w, av, ah, m, face, child) => {
            out.extend([
                "C".into(),
                format!("{h}x{w}"),
                al_tok(av),
                al_tok(ah),
                m[0].to_string(),
                m[1].to_string(),
                m[2].to_string(),
                m[3].to_string(),
                if *face { "1" } else { "0" }.into(),
            ]);
            tokens(child, ppc, id, out);
        }
        T::Frame(c) => {
            out.push("R".into());
            tokens(c, ppc, id, out);
        }
        T::Tag(c) => {
            out.push("A".into());
            tokens(c, ppc, id, out);
        }
        T::Dyn(thr, a, b) => {
            out.extend(["D".into(), thr.to_string()]);
            tokens(a, ppc, id, out);
            tokens(b, ppc, id, out);
        }
    }
}

// ---- replay form (lossless; the model tokens lose pixel sizes) -------------------------------

fn ch_json(c: &Ch) -> Value {
    json!(ch_tok(c))
}
fn ch_parse(v: &Value) -> Ch {
    match v.as_str().unwrap_or("") {
        "nl" => Ch::Nl,
        "cr" => Ch::Cr,
        "tab" => Ch::Tab,
        s => Ch::W(s.trim_start_matches('w').parse().unwrap_or(1)),
    }
}
fn al_parse(v: &Value) -> Al {
    match v.as_str().unwrap_or("s") {
        "s" => Al::S,
        "c" => Al::C,
        "e" => Al::E,
        "x" => Al::X,
        "k" => Al::K,
        s => Al::O(s.trim_start_matches('o').parse().unwrap_or(0)),
    }
}
fn us(v: &Value) -> usize {
    v.as_str().and_then(|s| s.parse().ok()).or(v.as_u64().map(|x| x as usize)).unwrap_or(0)
}
fn tree_json(t: &T) -> Value {
    let s = |n: &usize| json!(n.to_string());
    match t {
        T::Text(cells, wraps) => json!({"k": "text", "wraps": wraps, "cells": cells.iter().map(|c| match c {
            TC::Ch(c) => json!({"c": ch_json(c)}),
            TC::Img(h, w) => json!({"i": [s(h), s(w)]}),
            TC::Glyph(h, w, fb) => json!({"g": [s(h), s(w)], "fb": fb.iter().map(ch_json).collect::<Vec<_>>()}),
        }).collect::<Vec<_>>()}),
        T::Str(cs) => json!({"k": "str", "cs": cs.iter().map(ch_json).collect::<Vec<_>>()}),
        T::Glyph(h, w, fb) => json!({"k": "glyph", "h": s(h), "w": s(w), "fb": fb.iter().map(ch_json).collect::<Vec<_>>()}),
        T::Probe(h, w) => json!({"k": "probe", "h": s(h), "w": s(w)}),
        T::Surface(h, w) => json!({"k": "surface", "h": s(h), "w": s(w)}),
        T::Ascii(h, w) => json!({"k": "ascii", "h": s(h), "w": s(w)}),
        T::Image(h, w) => json!({"k": "image", "h": s(h), "w": s(w)}),
        T::Fill => json!({"k": "fill"}),
        T::Unit => json!({"k": "unit"}),
        T::Bar(hor, v, o) => json!({"k": "bar", "hor": hor, "vis": v.to_bits().to_string(), "off": o.to_bits().to_string()}),
        T::None_ => json!({"k": "none"}),
        T::Flex(hor, j, cs) => json!({"k": "flex", "hor": hor, "j": j, "cs": cs.iter().map(|c| json!({
            "flex": match &c.flex { Fac::None => json!(null), Fac::Pos(n, d) => json!(["pos", n, d]),
                                    Fac::Raw(neg, n, d) => json!(["raw", neg, n, d]), Fac::Big => json!(["big"]),
                                    Fac::ApiSpecial(k) => json!(["apispecial", k]),
                                    Fac::Direct(FV::Fin(neg, n, d)) => json!(["direct", neg, n, d]),
                                    Fac::Direct(FV::Inf(neg)) => json!(["directinf", neg]),
                                    Fac::Direct(FV::Nan) => json!(["directnan"]) },
            "align": al_tok(&c.align), "face": c.face, "view": tree_json(&c.view)})).collect::<Vec<_>>()}),
        T::Cont(h, w, av, ah, m, face, c) => json!({"k": "cont", "h": s(h), "w": s(w), "av": al_tok(av), "ah": al_tok(ah),
            "m": m.iter().map(|x| x.to_string()).collect::<Vec<_>>(), "face": face, "child": tree_json(c)}),
        T::Frame(c) => json!({"k": "frame", "child": tree_json(c)}),
        T::Tag(c) => json!({"k": "tag", "child": tree_json(c)}),
        T::Dyn(thr, a, b) => json!({"k": "dyn", "thr": s(thr), "a": tree_json(a), "b": tree_json(b)}),
    }
}
fn tree_parse(v: &Value) -> T {
    let chs = |v: &Value| v.as_array().map(|a| a.iter().map(ch_parse).collect::<Vec<_>>()).unwrap_or_default();
    match v["k"].as_str().unwrap_or("") {
        "text" => T::Text(
            v["cells"].as_array().map(|a| a.iter().map(|c| {
                if !c["c"].is_null() { TC::Ch(ch_parse(&c["c"])) }
                else if !c["i"].is_null() { TC::Img(us(&c["i"][0]), us(&c["i"][1])) }
                else { TC::Glyph(us(&c["g"][0]), us(&c["g"][1]), chs(&c["fb"])) }
            }).collect()).unwrap_or_default(),
            v["wraps"].as_bool().unwrap_or(true),
        ),
        "str" => T::Str(chs(&v["cs"])),
        "glyph" => T::Glyph(us(&v["h"]), us(&v["w"]), chs(&v["fb"])),
        "probe" => T::Probe(us(&v["h"]), us(&v["w"])),
        "surface" => T::Surface(us(&v["h"]), us(&v["w"])),
        "ascii" => T::Ascii(us(&v["h"]), us(&v["w"])),
        "image" => T::Image(us(&v["h"]), us(&v["w"])),
        "fill" => T::Fill,
        "unit" => T::Unit,
        "bar" => T::Bar(
            v["hor"].as_bool().unwrap_or(true),
            f64::from_bits(v["vis"].as_str().and_then(|s| s.parse().ok()).unwrap_or(0)),
            f64::from_bits(v["off"].as_str().and_then(|s| s.parse().ok()).unwrap_or(0)),
        ),
        "flex" => T::Flex(
            v["hor"].as_bool().unwrap_or(true),
            v["j"].as_u64().unwrap_or(0) as u8,
            v["cs"].as_array().map(|a| a.iter().map(|c| FC {
                flex: match c["flex"][0].as_str() {
                    Some("pos") => Fac::Pos(c["flex"][1].as_u64().unwrap_or(1), c["flex"][2].as_u64().unwrap_or(1)),
                    Some("raw") => Fac::Raw(c["flex"][1].as_bool().unwrap_or(false), c["flex"][2].as_u64().unwrap_or(1), c["flex"][3].as_u64().unwrap_or(1)),
                    Some("big") => Fac::Big,
                    Some("apispecial") => Fac::ApiSpecial(c["flex"][1].as_u64().unwrap_or(0) as u8),
                    Some("direct") => Fac::Direct(FV::Fin(c["flex"][1].as_bool().unwrap_or(false), c["flex"][2].as_u64().unwrap_or(1), c["flex"][3].as_u64().unwrap_or(1))),
                    Some("directinf") => Fac::Direct(FV::Inf(c["flex"][1].as_bool().unwrap_or(false))),
                    Some("directnan") => Fac::Direct(FV::Nan),
                    _ => Fac::None,
                },
                align: al_parse(&c["align"]),
                face: c["face"].as_bool().unwrap_or(false),
                view: tree_parse(&c["view"]),
            }).collect()).unwrap_or_default(),
        ),
        "cont" => T::Cont(us(&v["h"]), us(&v["w"]), al_parse(&v["av"]), al_parse(&v["ah"]),
            [us(&v["m"][0]), us(&v["m"][1]), us(&v["m"][2]), us(&v["m"][3])],
            v["face"].as_bool().unwrap_or(false), Box::new(tree_parse(&v["child"]))),
        "frame" => T::Frame(Box::new(tree_parse(&v["child"]))),
        "tag" => T::Tag(Box::new(tree_parse(&v["child"]))),
        "dyn" => T::Dyn(us(&v["thr"]), Box::new(tree_parse(&v["a"])), Box::new(tree_parse(&v["b"]))),
        _ => T::None_,
    }
}

// ---------------------------------------------------------------------------------------------
// generator

const HUGE: [usize; 6] = [(1 << 20) - 1, 1 << 32, (1 << 63) - 1, 1 << 63, usize::MAX - 1, usize::MAX];

fn gen_extent(rng: &mut Rng, huge: bool) -> usize {
    match rng.below(12) {
        0 | 1 => 0,
        2 => 1,
        3 => 2,
        4..=8 => rng.below(14) as usize,
        9 => rng.below(60) as usize,
        10 => 20 + rng.below(40) as usize,
        _ => {
            if huge { *rng.pick(&HUGE) } else { rng.below(30) as usize }
        }
    }
}
fn gen_ch(rng: &mut Rng, special: bool) -> Ch {
    match rng.below(16) {
        0 if special => Ch::Nl,
        1 if special => Ch::Cr,
        2 if special => Ch::Tab,
        3 => Ch::W(0),
        4 | 5 => Ch::W(2),
        _ => Ch::W(1),
    }
}
fn gen_chs(rng: &mut Rng, special: bool, max: u64) -> Vec<Ch> {
    (0..rng.below(max + 1)).map(|_| gen_ch(rng, special)).collect()
}
fn gen_align(rng: &mut Rng) -> Al {
    match rng.below(9) {
        0 => Al::S,
        1 => Al::C,
        2 => Al::E,
        3 => Al::X,
        4 | 5 => Al::K,
        6 => Al::O(rng.range(-6, 6) as i32),
        7 => Al::O(*rng.pick(&[i32::MIN, i32::MAX, -1, 0, 1, 1000, -1000])),
        _ => Al::C,
    }
}
fn gen_size(rng: &mut Rng, huge: bool) -> usize {
    match rng.below(10) {
        0..=2 => 0,
        3 => 1,
        9 if huge => *rng.pick(&HUGE),
        _ => rng.below(20) as usize,
    }
}
fn gen_leaf(rng: &mut Rng, huge: bool) -> T {
    match rng.below(17) {
        0 | 1 => {
            let n = rng.below(14);
            let cells = (0..n)
                .map(|_| match rng.below(14) {
                    0 => TC::Img(rng.below(90) as usize, rng.below(70) as usize),
                    1 => TC::Glyph(
                        if huge && rng.chance(1, 6) { *rng.pick(&HUGE) } else { rng.below(3) as usize },
                        if huge && rng.chance(1, 6) { *rng.pick(&HUGE) } else { rng.below(4) as usize },
                        gen_chs(rng, false, 7),
                    ),
                    _ => TC::Ch(gen_ch(rng, true)),
                })
                .collect();
            T::Text(cells, rng.chance(3, 4))
        }
        2 => T::Str(gen_chs(rng, true, 12)),
        3 => T::Glyph(gen_size(rng, huge), gen_size(rng, huge), gen_chs(rng, false, 8)),
        4..=7 => T::Probe(gen_size(rng, huge), gen_size(rng, huge)),
        8 => T::Surface(*rng.pick(&[0usize, 1, 2, 3]), *rng.pick(&[0usize, 1, 3, 7, 20])),
        9 => T::Ascii(rng.below(9) as usize, rng.below(12) as usize),
        10 | 15 => T::Image(*rng.pick(&[0usize, 1, 20, 37, 74, 75, 120, 300, 500]), *rng.pick(&[0usize, 1, 15, 16, 30, 70, 200, 400])),
        11 | 12 => T::Fill,
        13 => T::Unit,
        14 => T::Bar(rng.chance(1, 2), gen_fraction(rng), gen_fraction(rng)),
        _ => T::None_,
    }
}
/// scroll bar fractions: mostly inside [0, 1], also negative, above one, off any grid and special values
fn gen_fraction(rng: &mut Rng) -> f64 {
    match rng.below(12) {
        0 => f64::NAN,
        1 => *rng.pick(&[f64::INFINITY, f64::NEG_INFINITY, 1e300, -1e300, 1.0 - f64::EPSILON / 2.0, f64::MIN_POSITIVE]),
        2 => -(rng.below(17) as f64) / 8.0,
        3 => 1.0 + rng.below(40) as f64 / 8.0,
        4 | 5 => rng.below(1001) as f64 / 1000.0,
        _ => rng.below(9) as f64 / 8.0,
    }
}
fn gen_direct(rng: &mut Rng) -> Fac {
    match rng.below(12) {
        0..=3 => Fac::None,
        4 => Fac::Direct(FV::Nan),
        5 => Fac::Direct(FV::Inf(rng.chance(1, 3))),
        6 | 7 => Fac::Direct(FV::Fin(true, rng.below(13), 4)),
        8 => Fac::Direct(FV::Fin(false, 0, 4)),
        _ => Fac::Direct(FV::Fin(false, 1 + rng.below(16), 4)),
    }
}
fn gen_factor(rng: &mut Rng, raw: bool) -> Fac {
    match rng.below(10) {
        0..=3 => Fac::None,
        4 if raw => Fac::Raw(rng.chance(1, 2), rng.below(9), 4),
        5 if raw => Fac::Raw(false, 0, 4),
        6 if raw && rng.chance(1, 3) => Fac::ApiSpecial(rng.below(3) as u8),
        _ => {
            let top = if rng.chance(1, 4) { 64 } else { 12 };
            Fac::Pos(1 + rng.below(top), 4)
        }
    }
}
fn gen_tree(rng: &mut Rng, depth: u32, huge: bool, raw: bool) -> T {
    if depth == 0 || rng.chance(1, 5) {
        return gen_leaf(rng, huge);
    }
    match rng.below(12) {
        0..=4 => {
            let n = match rng.below(8) {
                0 => 0,
                1 => 1,
                _ => rng.below(6),
            };
            let direct = rng.chance(1, 8);
            let mut cs: Vec<FC> = (0..n)
                .map(|_| FC { flex: if direct { gen_direct(rng) } else { gen_factor(rng, raw) }, align: gen_align(rng), face: rng.chance(1, 3), view: gen_tree(rng, depth - 1, huge, raw) })
                .collect();
            if !direct && rng.chance(1, 12) {
                // a finite factor far outside of the grid, as the last flex child
                if let Some(c) = cs.iter_mut().rev().find(|c| matches!(c.flex, Fac::Pos(..) | Fac::Raw(false, 1.., _))) {
                    c.flex = Fac::Big;
                }
            }
            T::Flex(rng.chance(1, 2), rng.below(6) as u8, cs)
        }
        5..=7 => {
            let mut m = [0usize; 4];
            if rng.chance(1, 2) {
                for x in m.iter_mut() {
                    *x = match rng.below(8) {
                        0..=2 => 0,
                        7 if huge => *rng.pick(&HUGE),
                        _ => rng.below(5) as usize,
                    };
                }
            }
            T::Cont(gen_size(rng, huge), gen_size(rng, huge), gen_align(rng), gen_align(rng), m, rng.chance(1, 2), Box::new(gen_tree(rng, depth - 1, huge, raw)))
        }
        8 => T::Frame(Box::new(gen_tree(rng, depth - 1, huge, raw))),
        9 => T::Tag(Box::new(gen_tree(rng, depth - 1, huge, raw))),
        10 => T::Dyn(*rng.pick(&[0usize, 1, 3, 8, 20]), Box::new(gen_tree(rng, depth - 1, huge, raw)), Box::new(gen_tree(rng, depth - 1, huge, raw))),
        _ => gen_leaf(rng, huge),
    }
}

#[derive(Clone, Debug)]
struct Case {
    tree: T,
    glyphs: bool,
    ppc: (usize, usize),
    ct: [usize; 4], // min h, min w, max h, max w
    surf: (usize, usize),
    json: bool,
    /// render into a transposed (column major) window
    transposed: bool,
}

fn gen_case(rng: &mut Rng) -> Case {
    let huge = rng.chance(1, 4);
    let json = rng.chance(1, 4);
    let depth = 1 + rng.below(4) as u32;
    let tree = gen_tree(rng, depth, huge, true);
    let mut ct = [0usize; 4];
    for d in 0..2 {
        let a = gen_extent(rng, huge);
        let b = gen_extent(rng, huge);
        let (lo, hi) = if a <= b { (a, b) } else { (b, a) };
        ct[d] = match rng.below(4) {
            0 | 1 => 0,
            2 => lo,
            _ => hi,
        };
        ct[2 + d] = hi;
    }
    let surf = match rng.below(4) {
        0 => (ct[2].min(24), ct[3].min(40)),
        _ => (rng.below(14) as usize, rng.below(30) as usize),
    };
    let glyphs = rng.chance(1, 2);
    let mut ppc = *rng.pick(&[(37usize, 15usize), (37, 15), (20, 10), (16, 8), (9, 5), (0, 0)]);
    if rng.chance(1, 5) && !(glyphs && has_frame(&tree)) {
        // large cells (a frame would rasterise 3x3 cells of that many pixels: kept to the small values)
        let big = [100usize, 4096, 1 << 20, 1 << 32, (1 << 62) + 1, 1 << 63, usize::MAX];
        ppc = (*rng.pick(&big), *rng.pick(&big));
    }
    let json = json && !api_only(&tree);
    let transposed = rng.chance(1, 4);
    Case { tree, glyphs, ppc, ct, surf, json, transposed }
}

fn has_flex_factor(t: &T) -> bool {
    match t {
        T::Flex(_, _, cs) => cs.iter().any(|c| c.flex != Fac::None || has_flex_factor(&c.view)),
        T::Cont(.., c) | T::Frame(c) | T::Tag(c) => has_flex_factor(c),
        T::Dyn(_, a, b) => has_flex_factor(a) || has_flex_factor(b),
        _ => false,
    }
}
/// a Dynamic / cached view directly (or through views that share the layout node) inside another one:
/// tried in a child process first, the pinned code recursed forever there (`Tag` stands for the
/// cached `ref` view the JSON route may use for it)
fn dyn_in_dyn(t: &T, under: bool) -> bool {
    match t {
        T::Dyn(_, a, b) => under || dyn_in_dyn(a, true) || dyn_in_dyn(b, true),
        T::Tag(c) => under || dyn_in_dyn(c, true),
        T::None_ => under, // the JSON route may spell it as a `ref` that misses the cache
        T::Frame(c) => dyn_in_dyn(c, under),
        T::Cont(.., c) => dyn_in_dyn(c, false),
        T::Flex(_, _, cs) => cs.iter().any(|c| dyn_in_dyn(&c.view, false)),
        _ => false,
    }
}
/// factors only the API can express (special values, unfiltered ones)
fn api_only(t: &T) -> bool {
    match t {
        T::Flex(_, _, cs) => cs.iter().any(|c| matches!(c.flex, Fac::ApiSpecial(_) | Fac::Direct(_)) || api_only(&c.view)),
        T::Cont(.., c) | T::Frame(c) | T::Tag(c) => api_only(c),
        T::Dyn(_, a, b) => api_only(a) || api_only(b),
        _ => false,
    }
}
fn has_frame(t: &T) -> bool {
    match t {
        T::Frame(_) => true,
        T::Flex(_, _, cs) => cs.iter().any(|c| has_frame(&c.view)),
        T::Cont(.., c) | T::Tag(c) => has_frame(c),
        T::Dyn(_, a, b) => has_frame(a) || has_frame(b),
        _ => false,
    }
}
/// scroll bars under huge extents: `ScrollBar::render` iterates over the whole major extent
const BAR_HUGE: bool = true;
fn has_bar(t: &T) -> bool {
    match t {
        T::Bar(..) => true,
        T::Flex(_, _, cs) => cs.iter().any(|c| has_bar(&c.view)),
        T::Cont(.., c) | T::Frame(c) | T::Tag(c) => has_bar(c),
        T::Dyn(_, a, b) => has_bar(a) || has_bar(b),
        _ => false,
    }
}
fn count_nodes(t: &T) -> usize {
    1 + match t {
        T::Flex(_, _, cs) => cs.iter().map(|c| count_nodes(&c.view)).sum(),
        T::Cont(.., c) | T::Frame(c) | T::Tag(c) => count_nodes(c),
        T::Dyn(_, a, b) => count_nodes(a) + count_nodes(b),
        _ => 0,
    }
}

// ---------------------------------------------------------------------------------------------
// building the real views

struct Rec {
    size: TerminalSize,
    caps: TerminalCaps,
}
impl std::io::Write for Rec {
    fn write(&mut self, buf: &[u8]) -> std::io::Result<usize> {
        Ok(buf.len())
    }
    fn flush(&mut self) -> std::io::Result<()> {
        Ok(())
    }
}
impl Terminal for Rec {
    fn execute(&mut self, _cmd: TerminalCommand) -> Result<(), Error> {
        Ok(())
    }
    fn poll(&mut self, _t: Option<std::time::Duration>) -> Result<Option<TerminalEvent>, Error> {
        Ok(None)
    }
    fn size(&self) -> Result<TerminalSize, Error> {
        Ok(self.size)
    }
    fn position(&mut self) -> Result<Position, Error> {
        Ok(ps(0, 0))
    }
    fn waker(&self) -> TerminalWaker {
        TerminalWaker::new(|| Ok(()))
    }
    fn frames_pending(&self) -> usize {
        0
    }
    fn frames_drop(&mut self) {}
    fn dyn_ref(&mut self) -> &mut dyn Terminal {
        self
    }
    fn capabilities(&self) -> &TerminalCaps {
        &self.caps
    }
}
fn make_ctx(glyphs: bool, ppc: (usize, usize)) -> ViewContext {
    let term = Rec {
        size: TerminalSize { cells: sz(1, 1), pixels: sz(ppc.0, ppc.1) },
        caps: TerminalCaps { glyphs, ..TerminalCaps::default() },
    };
    ViewContext::new(&term).expect("ctx")
}

fn node_color(id: usize) -> RGBA {
    RGBA::new(((id + 1) & 0xff) as u8, (((id + 1) >> 8) & 0xff) as u8, 0x77, 255)
}
fn strip_color(id: usize) -> RGBA {
    RGBA::new(((id + 1) & 0xff) as u8, (((id + 1) >> 8) & 0xff) as u8, 0x78, 255)
}
fn frame_color() -> RGBA {
    RGBA::new(3, 3, 0x79, 255)
}
fn sentinel() -> Cell {
    Cell::new_char(Face::new(Some(RGBA::new(9, 9, 9, 255)), Some(RGBA::new(9, 9, 9, 255)), FaceAttrs::EMPTY), '#')
}
fn bg(c: RGBA) -> Face {
    Face::new(None, Some(c), FaceAttrs::EMPTY)
}
fn ch_char(c: &Ch) -> char {
    match c {
        Ch::Nl => '\n',
        Ch::Cr => '\r',
        Ch::Tab => '\t',
        Ch::W(0) => '\u{0301}',
        Ch::W(2) => '世',
        Ch::W(_) => 'a',
    }
}

type Trace = Arc<Mutex<Vec<(usize, [usize; 4], (usize, usize))>>>;
type ProbeLog = Arc<Mutex<Vec<(usize, Shape)>>>;

#[derive(Clone, Default)]
struct Env {
    probes: ProbeLog,
    trace: Trace,
    /// views stored as layout data (by `Dynamic`, cached `ref`): address -> what the model calls it
    data: Arc<Mutex<HashMap<usize, char>>>,
    /// node whose `render` is replaced by a no-op (differential rendering)
    mute: Option<usize>,
}
fn view_addr(v: &ArcView<'static>) -> usize {
    Arc::as_ptr(v) as *const () as usize
}

/// same layout as the wrapped view, draws nothing
struct Mute(ArcView<'static>);
impl View for Mute {
    fn render(&self, _ctx: &ViewContext, _surf: TerminalSurface<'_>, _layout: ViewLayout<'_>) -> Result<(), Error> {
        Ok(())
    }
    fn layout(&self, ctx: &ViewContext, ct: BoxConstraint, layout: ViewMutLayout<'_>) -> Result<(), Error> {
        self.0.layout(ctx, ct, layout)
    }
}

struct Probe {
    id: usize,
    size: Size,
    log: ProbeLog,
}
impl View for Probe {
    fn render(&self, _ctx: &ViewContext, surf: TerminalSurface<'_>, layout: ViewLayout<'_>) -> Result<(), Error> {
        let mut surf = layout.apply_to(surf);
        self.log.lock().unwrap().push((self.id, surf.shape()));
        surf.fill(Cell::new_char(bg(node_color(self.id - 1)), ' '));
        Ok(())
    }
    fn layout(&self, _ctx: &ViewContext, ct: BoxConstraint, mut layout: ViewMutLayout<'_>) -> Result<(), Error> {
        let (lo, hi) = (ct.min(), ct.max());
        let size = Size { height: self.size.height.max(lo.height).min(hi.height), width: self.size.width.max(lo.width).min(hi.width) };
        *layout = Layout::new().with_size(size);
        Ok(())
    }
}

static IMAGES: Mutex<Option<HashMap<(usize, usize), Image>>> = Mutex::new(None);
fn image_of(ph: usize, pw: usize) -> Image {
    let mut g = IMAGES.lock().unwrap();
    let m = g.get_or_insert_with(HashMap::new);
    m.entry((ph, pw))
        .or_insert_with(|| {
            let data: Arc<[RGBA]> = (0..ph * pw).map(|i| RGBA::new(i as u8, 7, 7, 255)).collect();
            Image::from_parts(data, Shape::from(sz(ph, pw)))
        })
        .clone()
}
static SURFACES: Mutex<Option<HashMap<(usize, usize), &'static SurfaceOwned<Cell>>>> = Mutex::new(None);
fn surface_of(h: usize, w: usize) -> &'static SurfaceOwned<Cell> {
    let mut g = SURFACES.lock().unwrap();
    let m = g.get_or_insert_with(HashMap::new);
    *m.entry((h, w)).or_insert_with(|| {
        let s: &'static SurfaceOwned<Cell> =
            Box::leak(Box::new(SurfaceOwned::new_with(sz(h, w), |_| Cell::new_char(bg(RGBA::new(5, 5, 0x7a, 255)), 's'))));
        s
    })
}
fn glyph_of(h: usize, w: usize, fb: &[Ch]) -> Glyph {
    let path: Path = "M0,0L1,0L1,1Z".parse().expect("path");
    Glyph::new(path, FillRule::default(), None, sz(h, w), fb.iter().map(ch_char).collect(), None)
}
fn align_of(a: &Al) -> Align {
    match a {
        Al::S => Align::Start,
        Al::C => Align::Center,
        Al::E => Align::End,
        Al::X => Align::Expand,
        Al::K => Align::Shrink,
        Al::O(o) => Align::Offset(*o),
    }
}
fn justify_of(j: u8) -> Justify {
    match j {
        0 => Justify::Start,
        1 => Justify::Center,
        2 => Justify::End,
        3 => Justify::SpaceBetween,
        4 => Justify::SpaceAround,
        _ => Justify::SpaceEvenly,
    }
}
fn factor_of(f: &Fac) -> Option<f64> {
    match f {
        Fac::None => None,
        Fac::Pos(n, d) => Some(*n as f64 / *d as f64),
        Fac::Raw(neg, n, d) => Some(if *neg { -(*n as f64) / *d as f64 } else { *n as f64 / *d as f64 }),
        Fac::Big => Some(1e308),
        Fac::ApiSpecial(k) => Some([f64::INFINITY, f64::NEG_INFINITY, f64::NAN][(*k).min(2) as usize]),
        Fac::Direct(v) => Some(fv_f64(v)),
    }
}
fn text_of(id: usize, cells: &[TC], wraps: bool) -> Text {
    let mut text = Text::new();
    text.set_wraps(wraps);
    let face = bg(node_color(id));
    for c in cells {
        text.put_cell(match c {
            TC::Ch(c) => Cell::new_char(face, ch_char(c)),
            TC::Img(ph, pw) => Cell::new_image(image_of(*ph, *pw)),
            TC::Glyph(h, w, fb) => Cell::new_glyph(face, glyph_of(*h, *w, fb)),
        });
    }
    text
}

/// wrap a built view: trace of (constraint, size) for the oracle, plus a transparent wrapper
fn wrap(env: &Env, id: usize, v: ArcView<'static>) -> ArcView<'static> {
    let v: ArcView<'static> = if env.mute == Some(id) { Mute(v).arc() } else { v };
    let trace = env.trace.clone();
    let v = v
        .trace_layout(move |ct: &BoxConstraint, l: ViewLayout<'_>| {
            trace.lock().unwrap().push((id, [ct.min().height, ct.min().width, ct.max().height, ct.max().width], (l.size().height, l.size().width)));
        })
        .arc();
    match id % 7 {
        2 => Some(v).arc(),
        4 => Either::<ArcView<'static>, ArcView<'static>>::Left(v).arc(),
        5 => Either::<(), ArcView<'static>>::Right(v).arc(),
        _ => v,
    }
}

fn build(env: &Env, t: &T, id: &mut usize) -> ArcView<'static> {
    let me = *id;
    *id += 1;
    let v: ArcView<'static> = match t {
        T::Text(cells, wraps) => text_of(me, cells, *wraps).arc(),
        T::Str(cs) => cs.iter().map(ch_char).collect::<String>().arc(),
        T::Glyph(h, w, fb) => glyph_of(*h, *w, fb).arc(),
        T::Probe(h, w) => Probe { id: me + 1, size: sz(*h, *w), log: env.probes.clone() }.arc(),
        T::Surface(h, w) => surface_of(*h, *w).as_ref().arc(),
        T::Ascii(h, w) => image_of(*h, *w).ascii_view().arc(),
        T::Image(h, w) => image_of(*h, *w).arc(),
        T::Fill => node_color(me).arc(),
        T::Unit => ().arc(),
        T::Bar(hor, vis, off) if me % 2 == 1 => {
            // the variant that asks for its position at render time
            let (vis, off) = (*vis, *off);
            ScrollBarFn::new(
                if *hor { Axis::Horizontal } else { Axis::Vertical },
                Face::new(Some(node_color(me)), Some(node_color(me)), FaceAttrs::EMPTY),
                move || ScrollBarPosition { offset: off, visible: vis },
            )
            .arc()
        }
        T::Bar(hor, vis, off) => ScrollBar::new(
            if *hor { Axis::Horizontal } else { Axis::Vertical },
            Face::new(Some(node_color(me)), Some(node_color(me)), FaceAttrs::EMPTY),
            ScrollBarPosition { offset: *off, visible: *vis },
        )
        .arc(),
        T::None_ => Option::<ArcView<'static>>::None.arc(),
        T::Flex(hor, j, cs) if cs.iter().any(|c| matches!(c.flex, Fac::Direct(_))) => {
            // unfiltered factors: `FlexChild::flex` + `FlexRef`
            let mut children: Vec<FlexChild<ArcView<'static>>> = Vec::new();
            for c in cs {
                let cid = *id;
                let mut child = FlexChild::new(build(env, &c.view, id)).align(align_of(&c.align));
                if let Some(f) = factor_of(&c.flex) {
                    child = child.flex(f);
                }
                if c.face {
                    child = child.face(bg(strip_color(cid)));
                }
                children.push(child);
            }
            // every implementor of `FlexArray`: array, tuple, `Either`, `Vec`
            let dir = if *hor { Axis::Horizontal } else { Axis::Vertical };
            let jus = justify_of(*j);
            match children.len() {
                1 => {
                    let a: [FlexChild<ArcView<'static>>; 1] = [children.pop().unwrap()];
                    FlexRef::new(a).direction(dir).justify(jus).arc()
                }
                2 => {
                    let b = children.pop().unwrap();
                    let a = children.pop().unwrap();
                    FlexRef::new((a, b)).direction(dir).justify(jus).arc()
                }
                3 => {
                    let c = children.pop().unwrap();
                    let b = children.pop().unwrap();
                    let a = children.pop().unwrap();
                    FlexRef::new([a, b, c]).direction(dir).justify(jus).arc()
                }
                4 => FlexRef::new(Either::<Vec<FlexChild<ArcView<'static>>>, Vec<FlexChild<ArcView<'static>>>>::Right(children)).direction(dir).justify(jus).arc(),
                _ => FlexRef::new(children).direction(dir).justify(jus).arc(),
            }
        }
        T::Flex(hor, j, cs) => {
            let mut flex = Flex::new(if *hor { Axis::Horizontal } else { Axis::Vertical }).justify(justify_of(*j));
            for c in cs {
                let cid = *id;
                let child = build(env, &c.view, id);
                flex.push_child_ext(child, factor_of(&c.flex), c.face.then(|| bg(strip_color(cid))), align_of(&c.align));
            }
            flex.arc()
        }
        T::Cont(h, w, av, ah, m, face, c) => {
            let child = build(env, c, id);
            let mut cont = Container::new(child)
                .with_size(sz(*h, *w))
                .with_vertical(align_of(av))
                .with_horizontal(align_of(ah))
                .with_margins(Margins { left: m[0], right: m[1], top: m[2], bottom: m[3] });
            if *face {
                cont = cont.with_face(bg(node_color(me)));
            }
            cont.arc()
        }
        T::Frame(c) => Frame::new(build(env, c, id), frame_color(), frame_color(), 0.1, 0.3).arc(),
        T::Tag(c) => Tag::new(me, build(env, c, id)).arc(),
        T::Dyn(thr, a, b) => {
            let a = build(env, a, id);
            let b = build(env, b, id);
            env.data.lock().unwrap().insert(view_addr(&a), 'a');
            env.data.lock().unwrap().insert(view_addr(&b), 'b');
            let thr = *thr;
            Dynamic::new(move |_ctx: &ViewContext, ct: BoxConstraint| -> ArcView<'static> {
                if ct.max().width > thr { a.clone() } else { b.clone() }
            })
            .arc()
        }
    };
    wrap(env, me, v)
}

// ---- JSON route ----------------------------------------------------------------------------------

struct Cache(Mutex<HashMap<i64, ArcView<'static>>>);
impl ViewCache for Cache {
    fn get(&self, uid: i64) -> Option<ArcView<'static>> {
        self.0.lock().unwrap().get(&uid).cloned()
    }
}
fn hexc(c: RGBA) -> String {
    let [r, g, b, _] = c.to_rgba();
    format!("#{r:02x}{g:02x}{b:02x}")
}
fn align_json(a: &Al) -> Value {
    match a {
        Al::S => json!("start"),
        Al::C => json!("center"),
        Al::E => json!("end"),
        Al::X => json!("expand"),
        Al::K => json!("shrink"),
        Al::O(o) => json!({"offset": o}),
    }
}
const JUSTIFY_NAMES: [&str; 6] = ["start", "center", "end", "space-between", "space-around", "space-evenly"];
fn factor_json(f: &Fac) -> Option<Value> {
    match f {
        Fac::None => None,
        Fac::Big => Some(json!(1e308)),
        Fac::ApiSpecial(_) | Fac::Direct(_) => None, // not expressible; such trees take the API route
        f => factor_of(f).map(|x| json!(x)),
    }
}

/// JSON document of the tree; views JSON cannot express go through registered handlers or the cache
fn to_json(env: &Env, cache: &Cache, t: &T, id: &mut usize) -> Value {
    let me = *id;
    *id += 1;
    let inner = match t {
        T::Text(cells, wraps) if !cells.iter().any(|c| matches!(c, TC::Img(..))) => {
            let mut items: Vec<Value> = Vec::new();
            let mut run = String::new();
            for c in cells {
                match c {
                    TC::Ch(c) => run.push(ch_char(c)),
                    TC::Glyph(h, w, fb) => {
                        if !run.is_empty() {
                            items.push(json!(std::mem::take(&mut run)));
                        }
                        items.push(json!({"glyph": serde_json::to_value(glyph_of(*h, *w, fb)).unwrap()}));
                    }
                    TC::Img(..) => {}
                }
            }
            if !run.is_empty() {
                items.push(json!(run));
            }
            json!({"type": "text", "text": {"face": format!("bg={}", hexc(node_color(me))), "wraps": wraps, "text": items}})
        }
        T::Text(cells, wraps) => {
            cache.0.lock().unwrap().insert(-(me as i64) - 10, text_of(me, cells, *wraps).arc());
            json!({"type": "cached", "uid": -(me as i64) - 10})
        }
        T::Str(cs) => json!({"type": "str", "s": cs.iter().map(ch_char).collect::<String>()}),
        T::Glyph(h, w, fb) => {
            let mut g = serde_json::to_value(glyph_of(*h, *w, fb)).unwrap();
            g["type"] = json!("glyph");
            g
        }
        T::Probe(h, w) => json!({"type": "probe", "id": me + 1, "size": [h, w]}),
        T::Surface(h, w) => json!({"type": "surface", "size": [h, w]}),
        T::Ascii(h, w) => {
            let mut g = serde_json::to_value(image_of(*h, *w)).unwrap();
            g["type"] = json!("image_ascii");
            g
        }
        T::Image(h, w) => {
            let mut g = serde_json::to_value(image_of(*h, *w)).unwrap();
            g["type"] = json!("image");
            g
        }
        T::Fill => json!({"type": "fillc", "id": me}),
        T::Unit => json!({"type": "unit"}),
        T::Bar(hor, vis, off) => json!({"type": "bar", "hor": hor, "id": me, "vis": vis.to_bits().to_string(), "off": off.to_bits().to_string()}),
        T::None_ => {
            if me % 2 == 0 { json!({"type": "ref", "ref": 1_000_000_007i64}) } else { json!({"type": "none"}) }
        }
        T::Flex(hor, j, cs) => {
            let children: Vec<Value> = cs
                .iter()
                .map(|c| {
                    let cid = *id;
                    let v = to_json(env, cache, &c.view, id);
                    if c.flex == Fac::None && c.align == Al::K && !c.face && cid % 2 == 0 {
                        v // a child given directly: no flex, default alignment
                    } else {
                        let mut o = json!({"align": align_json(&c.align), "view": v});
                        if let Some(f) = factor_json(&c.flex) {
                            o["flex"] = f;
                        }
                        if c.face {
                            o["face"] = json!(format!("bg={}", hexc(strip_color(cid))));
                        }
                        o
                    }
                })
                .collect();
            json!({"type": "flex", "direction": if *hor { "horizontal" } else { "vertical" },
                   "justify": JUSTIFY_NAMES[(*j).min(5) as usize],
                   "children": children})
        }
        T::Cont(h, w, av, ah, m, face, c) => {
            let mut o = json!({"type": "container", "size": [h, w], "vertical": align_json(av), "horizontal": align_json(ah),
                               "margins": {"left": m[0], "right": m[1], "top": m[2], "bottom": m[3]},
                               "child": to_json(env, cache, c, id)});
            if *face {
                o["face"] = json!(format!("bg={}", hexc(node_color(me))));
            }
            o
        }
        T::Frame(c) => json!({"type": "frame", "child": to_json(env, cache, c, id)}),
        T::Tag(c) => {
            if me % 3 == 0 {
                // the same shape through the view cache: `ref` lays the cached view out in a child node
                let child = build(env, c, id);
                env.data.lock().unwrap().insert(view_addr(&child), 't');
                cache.0.lock().unwrap().insert(me as i64, child);
                json!({"type": "ref", "ref": me as i64})
            } else {
                json!({"type": "tag", "tag": me, "view": to_json(env, cache, c, id)})
            }
        }
        T::Dyn(thr, a, b) => json!({"type": "dyn", "thr": thr, "a": to_json(env, cache, a, id), "b": to_json(env, cache, b, id)}),
    };
    if me % 5 == 3 {
        json!({"type": "tr", "id": me, "view": {"type": "trace-layout", "msg": "t", "view": inner}})
    } else {
        json!({"type": "tr", "id": me, "view": inner})
    }
}

fn from_json(env: &Env, cache: Arc<Cache>, doc: &Value) -> Result<ArcView<'static>, String> {
    let mut de = ViewDeserializer::new(None, Some(cache.clone()));
    let sub = |seed: &ViewDeserializer<'_>, v: &Value| -> ArcView<'static> {
        match seed.deserialize(v) {
            Ok(v) => v,
            Err(e) => panic!("harness json: {e}"),
        }
    };
    let e = env.clone();
    de.register("tr", move |seed: &ViewDeserializer<'_>, v: &Value| {
        let id = v["id"].as_u64().unwrap() as usize;
        wrap(&e, id, sub(seed, &v["view"]))
    });
    let e = env.clone();
    de.register("probe", move |_seed: &ViewDeserializer<'_>, v: &Value| {
        Probe { id: v["id"].as_u64().unwrap() as usize, size: sz(v["size"][0].as_u64().unwrap() as usize, v["size"][1].as_u64().unwrap() as usize), log: e.probes.clone() }.arc()
    });
    de.register("surface", |_seed: &ViewDeserializer<'_>, v: &Value| {
        surface_of(v["size"][0].as_u64().unwrap() as usize, v["size"][1].as_u64().unwrap() as usize).as_ref().arc()
    });
    de.register("str", |_seed: &ViewDeserializer<'_>, v: &Value| v["s"].as_str().unwrap().to_string().arc());
    de.register("fillc", |_seed: &ViewDeserializer<'_>, v: &Value| node_color(v["id"].as_u64().unwrap() as usize).arc());
    de.register("unit", |_seed: &ViewDeserializer<'_>, _v: &Value| ().arc());
    de.register("none", |_seed: &ViewDeserializer<'_>, _v: &Value| Option::<ArcView<'static>>::None.arc());
    de.register("bar", |_seed: &ViewDeserializer<'_>, v: &Value| {
        let me = v["id"].as_u64().unwrap() as usize;
        ScrollBar::new(
            if v["hor"].as_bool().unwrap() { Axis::Horizontal } else { Axis::Vertical },
            Face::new(Some(node_color(me)), Some(node_color(me)), FaceAttrs::EMPTY),
            ScrollBarPosition {
                offset: f64::from_bits(v["off"].as_str().unwrap().parse().unwrap()),
                visible: f64::from_bits(v["vis"].as_str().unwrap().parse().unwrap()),
            },
        )
        .arc()
    });
    de.register("frame", move |seed: &ViewDeserializer<'_>, v: &Value| Frame::new(sub(seed, &v["child"]), frame_color(), frame_color(), 0.1, 0.3).arc());
    let e = env.clone();
    de.register("dyn", move |seed: &ViewDeserializer<'_>, v: &Value| {
        let a = sub(seed, &v["a"]);
        let b = sub(seed, &v["b"]);
        e.data.lock().unwrap().insert(view_addr(&a), 'a');
        e.data.lock().unwrap().insert(view_addr(&b), 'b');
        let thr = v["thr"].as_u64().unwrap() as usize;
        Dynamic::new(move |_ctx: &ViewContext, ct: BoxConstraint| -> ArcView<'static> { if ct.max().width > thr { a.clone() } else { b.clone() } }).arc()
    });
    let c2 = cache.clone();
    de.register("cached", move |_seed: &ViewDeserializer<'_>, v: &Value| c2.get(v["uid"].as_i64().unwrap()).unwrap());
    // through the text form, as a user would feed it
    let text = serde_json::to_string(doc).map_err(|e| e.to_string())?;
    let mut jd = serde_json::Deserializer::from_str(&text);
    de.deserialize(&mut jd).map_err(|e| e.to_string())
}

// ---------------------------------------------------------------------------------------------
// running one case: implementation, correspondence lines, oracle

type Win = Option<(u128, u128, u128, u128)>; // clipped window r0, c0, r1, c1 in canvas cells

fn sub_win(parent: Win, pos: Position, size: Size) -> Win {
    let (pr0, pc0, pr1, pc1) = parent?;
    let r0 = pr0 + pos.row as u128;
    let c0 = pc0 + pos.col as u128;
    let r1 = (r0 + size.height as u128).min(pr1);
    let c1 = (c0 + size.width as u128).min(pc1);
    if r0 >= r1 || c0 >= c1 { None } else { Some((r0, c0, r1, c1)) }
}
fn inside(w: Win, r: usize, c: usize) -> bool {
    match w {
        None => false,
        Some((r0, c0, r1, c1)) => (r as u128) >= r0 && (r as u128) < r1 && (c as u128) >= c0 && (c as u128) < c1,
    }
}

#[derive(Default)]
struct Walk {
    /// node id -> (window, layout node, paints with node colour)
    node: HashMap<usize, (Win, *const Layout, bool)>,
    /// flex child id -> (strip window, layout node of the flex)
    strip: HashMap<usize, (Win, *const Layout)>,
    problems: Vec<String>,
}

fn skip_ids(t: &T, id: &mut usize) {
    *id += count_nodes(t);
}

fn walk(t: &T, id: &mut usize, l: Option<ViewLayout<'_>>, parent: Win, glyphs: bool, laid: &std::collections::HashSet<usize>, acc: &mut Walk) {
    let Some(l) = l else {
        skip_ids(t, id);
        return;
    };
    let me = *id;
    let win = sub_win(parent, l.position(), l.size());
    let ptr = &*l as *const Layout;
    if !laid.contains(&me) {
        // a flex child that was never laid out keeps the default layout and is not rendered
        acc.node.insert(me, (win, ptr, false));
        skip_ids(t, id);
        return;
    }
    *id += 1;
    let mut kids = l.children();
    match t {
        T::Unit | T::None_ => {
            acc.node.insert(me, (win, ptr, false));
        }
        T::Flex(hor, _, cs) => {
            acc.node.insert(me, (win, ptr, false));
            for c in cs {
                let k = kids.next();
                if k.is_none() {
                    acc.problems.push(format!("flex node {me}: fewer layout children than views"));
                }
                if let (true, Some(k), Some((r0, c0, r1, c1))) = (c.face, k.as_ref(), win) {
                    let strip = if *hor {
                        let a = c0 + k.position().col as u128;
                        let b = (a + k.size().width as u128).min(c1);
                        if a < b { Some((r0, a, r1, b)) } else { None }
                    } else {
                        let a = r0 + k.position().row as u128;
                        let b = (a + k.size().height as u128).min(r1);
                        if a < b { Some((a, c0, b, c1)) } else { None }
                    };
                    acc.strip.insert(*id, (strip, ptr));
                }
                walk(&c.view, id, k, win, glyphs, laid, acc);
            }
        }
        T::Cont(.., face, c) => {
            acc.node.insert(me, (win, ptr, *face));
            let k = kids.next();
            if k.is_none() {
                acc.problems.push(format!("container node {me}: no child layout"));
            }
            walk(c, id, k, win, glyphs, laid, acc);
        }
        T::Frame(c) => {
            if glyphs {
                acc.node.insert(me, (win, ptr, false));
                let k = kids.next();
                if k.is_none() {
                    acc.problems.push(format!("frame node {me}: no child layout"));
                }
                walk(c, id, k, win, glyphs, laid, acc);
            } else {
                // without glyph support the frame is its child
                acc.node.insert(me, (win, ptr, false));
                walk(c, id, Some(l.view()), parent, glyphs, laid, acc);
            }
        }
        T::Tag(c) => {
            acc.node.insert(me, (win, ptr, false));
            let k = kids.next();
            if k.is_none() {
                acc.problems.push(format!("tag node {me}: no child layout"));
            }
            walk(c, id, k, win, glyphs, laid, acc);
        }
        T::Dyn(_, a, b) => {
            acc.node.insert(me, (win, ptr, false));
            let k = kids.next();
            let a_id = *id;
            if laid.contains(&a_id) {
                walk(a, id, k, win, glyphs, laid, acc);
                skip_ids(b, id);
            } else {
                skip_ids(a, id);
                walk(b, id, k, win, glyphs, laid, acc);
            }
        }
        _ => {
            acc.node.insert(me, (win, ptr, true));
        }
    }
}

/// the four numbers of a layout as its `Debug` impl prints them (row, col, height, width)
fn layout_debug_numbers(l: &Layout) -> Vec<usize> {
    let text = format!("{l:?}");
    text.split(|c: char| !c.is_ascii_digit()).filter(|t| !t.is_empty()).filter_map(|t| t.parse().ok()).collect()
}
thread_local! {
    /// disagreements between the accessors of `Layout` / `Tree` and an independent reading, per case
    static ACCESSOR_PROBLEMS: std::cell::RefCell<Vec<String>> = const { std::cell::RefCell::new(Vec::new()) };
}
fn count_layouts(l: ViewLayout<'_>) -> usize {
    1 + l.children().map(count_layouts).sum::<usize>()
}
fn lt_string(l: ViewLayout<'_>, data: &HashMap<usize, char>, out: &mut String) {
    let by_accessor = vec![l.position().row, l.position().col, l.size().height, l.size().width];
    let by_debug = layout_debug_numbers(&l);
    if by_accessor != by_debug {
        ACCESSOR_PROBLEMS.with(|p| p.borrow_mut().push(format!("position()/size() give {by_accessor:?}, Debug prints {by_debug:?}")));
    }
    let d = if l.data::<usize>().is_some() || l.data::<Value>().is_some() {
        't'
    } else if let Some(v) = l.data::<ArcView<'static>>() {
        data.get(&view_addr(v)).copied().unwrap_or('?')
    } else {
        '-'
    };
    out.push_str(&format!("({} {} {} {} {d}", l.position().row, l.position().col, l.size().height, l.size().width));
    for k in l.children() {
        out.push(' ');
        lt_string(k, data, out);
    }
    out.push(')');
}

fn descend(node: ViewLayout<'_>, p: (u128, u128), out: &mut Vec<*const Layout>) {
    out.push(&*node as *const Layout);
    for k in node.children() {
        let (pr, pc) = (k.position().row as u128, k.position().col as u128);
        if pc <= p.1 && p.1 < pc + k.size().width as u128 && pr <= p.0 && p.0 < pr + k.size().height as u128 {
            descend(k, (p.0 - pr, p.1 - pc), out);
            return;
        }
    }
}

/// kinds whose reported size the property bounds by the constraint
fn within_kind(t: &T) -> bool {
    matches!(t, T::Text(..) | T::Str(..) | T::Glyph(..) | T::Probe(..) | T::Surface(..) | T::Ascii(..) | T::Image(..) | T::Fill | T::Unit | T::Flex(..) | T::Cont(..))
}
fn kinds_by_id<'a>(t: &'a T, id: &mut usize, out: &mut Vec<&'a T>) {
    *id += 1;
    out.push(t);
    match t {
        T::Flex(_, _, cs) => cs.iter().for_each(|c| kinds_by_id(&c.view, id, out)),
        T::Cont(.., c) | T::Frame(c) | T::Tag(c) => kinds_by_id(c, id, out),
        T::Dyn(_, a, b) => {
            kinds_by_id(a, id, out);
            kinds_by_id(b, id, out);
        }
        _ => {}
    }
}

/// `Size` / `Position` from their public fields (not through the crate's constructors)
fn sz(height: usize, width: usize) -> Size {
    Size { height, width }
}
fn ps(row: usize, col: usize) -> Position {
    Position { row, col }
}
const PAD_R: usize = 2;
const PAD_C: usize = 3;

/// Sentinel filled buffer with a window in the middle that is handed to `render`.  The window is built
/// from a hand-written `Shape` (row major, or column major = a transposed view) and the buffer is read back
/// by index: neither `view_mut` / `ViewBounds` nor `Surface::get` / `Shape::offset` take part in the set-up
/// or in the oracle.
struct Canvas {
    buf: Vec<Cell>,
    ch: usize,
    cw: usize,
    transposed: bool,
}
impl Canvas {
    fn new(sh: usize, sw: usize, transposed: bool) -> Canvas {
        let (ch, cw) = (sh + 2 * PAD_R, sw + 2 * PAD_C);
        Canvas { buf: (0..ch * cw).map(|_| sentinel()).collect(), ch, cw, transposed }
    }
    fn idx(&self, r: usize, c: usize) -> usize {
        if self.transposed { c * self.ch + r } else { r * self.cw + c }
    }
    fn at(&self, r: usize, c: usize) -> &Cell {
        &self.buf[self.idx(r, c)]
    }
    fn strides(&self) -> (usize, usize) {
        if self.transposed { (1, self.ch) } else { (self.cw, 1) }
    }
    fn target_shape(&self, sh: usize, sw: usize) -> Shape {
        if sh == 0 || sw == 0 {
            return Shape { start: 0, end: 0, width: 0, height: 0, row_stride: 0, col_stride: 0 };
        }
        let (rs, cs) = self.strides();
        let start = self.idx(PAD_R, PAD_C);
        Shape { start, end: start + (sh - 1) * rs + sw * cs, width: sw, height: sh, row_stride: rs, col_stride: cs }
    }
    fn target(&mut self, sh: usize, sw: usize) -> TerminalSurface<'_> {
        SurfaceMutView::new(self.target_shape(sh, sw), &mut self.buf)
    }
    /// rectangle (canvas rows / columns) of a non-empty sub-surface of the canvas
    fn rect_of(&self, s: &Shape) -> Win {
        if s.height == 0 || s.width == 0 {
            return None;
        }
        let (r0, c0) = if self.transposed { (s.start % self.ch, s.start / self.ch) } else { (s.start / self.cw, s.start % self.cw) };
        Some((r0 as u128, c0 as u128, (r0 + s.height) as u128, (c0 + s.width) as u128))
    }
}
fn is_sentinel(c: &Cell) -> bool {
    let f = c.face();
    matches!(c.kind(), surf_n_term::render::CellKind::Char('#'))
        && f.fg.map(|x| x.to_rgba()) == Some([9, 9, 9, 255])
        && f.bg.map(|x| x.to_rgba()) == Some([9, 9, 9, 255])
        && f.attrs == FaceAttrs::EMPTY
}
fn ceil_div(a: usize, b: usize) -> usize {
    a / b + (a % b != 0) as usize
}

#[derive(Default)]
struct Exec {
    layout: String,
    target_shape: String,
    probes: String,
    render: String, // "ok" | "invalid-layout" | other error text
    paths: Vec<((usize, usize), String)>,
    fails: Vec<(String, String, String)>,
    attributed: usize,
    path_checks: usize,
    diff_checks: usize,
    /// image views: (pixels, surface cells, cells covered by the image cell)
    image_cells: Vec<((usize, usize), (usize, usize), (usize, usize))>,
}
/// `Cell` equality by content, from the public pieces (the crate compares images and glyphs by address)
fn same_cell(a: &Cell, b: &Cell) -> bool {
    use surf_n_term::render::CellKind;
    let (fa, fb) = (a.face(), b.face());
    if fa.fg.map(|c| c.to_rgba()) != fb.fg.map(|c| c.to_rgba()) || fa.bg.map(|c| c.to_rgba()) != fb.bg.map(|c| c.to_rgba()) || fa.attrs != fb.attrs {
        return false;
    }
    match (a.kind(), b.kind()) {
        (CellKind::Char(x), CellKind::Char(y)) => x == y,
        (CellKind::Image(x), CellKind::Image(y)) => {
            (x.shape().height, x.shape().width) == (y.shape().height, y.shape().width) && x.iter().map(|p| p.to_rgba()).eq(y.iter().map(|p| p.to_rgba()))
        }
        (CellKind::Glyph(x), CellKind::Glyph(y)) => (x.size().height, x.size().width) == (y.size().height, y.size().width) && x.fallback_str() == y.fallback_str(),
        _ => false,
    }
}
fn kind_name(t: &T) -> &'static str {
    match t {
        T::Text(..) => "text",
        T::Str(..) => "str",
        T::Glyph(..) => "glyph",
        T::Probe(..) => "probe",
        T::Surface(..) => "surface view",
        T::Ascii(..) => "ascii image",
        T::Image(..) => "image",
        T::Fill => "colour",
        T::Bar(..) => "scroll bar",
        _ => "view",
    }
}

fn shape_str(s: &Shape) -> String {
    format!("{},{},{},{},{}", s.start, s.width, s.height, s.row_stride, s.col_stride)
}

fn exec(case: &Case, view: &ArcView<'static>, env: &Env, sample_rng: &mut Rng, diff_leaves: usize) -> Exec {
    let mut ex = Exec::default();
    let ctx = make_ctx(case.glyphs, case.ppc);
    let ct = BoxConstraint::new(Size { height: case.ct[0], width: case.ct[1] }, Size { height: case.ct[2], width: case.ct[3] });
    let got_ppc = ctx.pixels_per_cell();
    if (got_ppc.height, got_ppc.width) != case.ppc || ctx.has_glyphs() != case.glyphs {
        ex.fails.push(("ViewContext::new does not take glyph support and pixels per cell (pixels / cells) from the terminal".into(), format!("{:?} {}", case.ppc, case.glyphs), format!("{}x{} {}", got_ppc.height, got_ppc.width, ctx.has_glyphs())));
    }
    env.probes.lock().unwrap().clear();
    env.trace.lock().unwrap().clear();
    let mut store = ViewLayoutStore::new();
    let layout = match view.layout_new(&ctx, ct, &mut store) {
        Ok(l) => l,
        Err(e) => {
            ex.layout = format!("error {e}");
            ex.fails.push(("layout returns an error".into(), "Ok".into(), format!("{e}")));
            return ex;
        }
    };
    ACCESSOR_PROBLEMS.with(|p| p.borrow_mut().clear());
    lt_string(layout.view(), &env.data.lock().unwrap(), &mut ex.layout);
    let reachable = count_layouts(layout.view());
    let stored = layout.store().len();
    if reachable != stored {
        ACCESSOR_PROBLEMS.with(|p| p.borrow_mut().push(format!("children() reaches {reachable} layouts, the store holds {stored}")));
    }
    for p in ACCESSOR_PROBLEMS.with(|p| p.borrow().clone()) {
        ex.fails.push(("accessors of the layout tree disagree with an independent reading".into(), "same numbers / all nodes".into(), p));
    }

    // reported size within the constraint, for the kinds the property names
    let mut kinds = Vec::new();
    kinds_by_id(&case.tree, &mut 0, &mut kinds);
    let trace = env.trace.lock().unwrap().clone();
    let laid: std::collections::HashSet<usize> = trace.iter().map(|t| t.0).collect();
    for (id, c, (h, w)) in trace.iter() {
        if c[0] <= c[2] && c[1] <= c[3] && within_kind(kinds[*id]) && !(c[0] <= *h && *h <= c[2] && c[1] <= *w && *w <= c[3]) {
            ex.fails.push((format!("node {id}: reported size outside of the constraint"), format!("min {}x{} max {}x{}", c[0], c[1], c[2], c[3]), format!("{h}x{w}")));
        }
    }

    // render into a window of a sentinel filled canvas
    let (sh, sw) = case.surf;
    let mut canvas = Canvas::new(sh, sw, case.transposed);
    let cw = canvas.cw;
    {
        ex.target_shape = shape_str(&canvas.target_shape(sh, sw));
        let target = canvas.target(sh, sw);
        ex.render = match view.render(&ctx, target, layout.view()) {
            Ok(()) => "ok".into(),
            Err(Error::InvalidLayout) => "invalid-layout".into(),
            Err(e) => format!("error {e}"),
        };
    }
    if ex.render != "ok" {
        ex.fails.push(("render returns an error".into(), "Ok".into(), ex.render.clone()));
    }
    let probes = env.probes.lock().unwrap().clone();
    ex.probes = if probes.is_empty() { "-".into() } else { probes.iter().map(|(id, s)| format!("{id}:{}", shape_str(s))).collect::<Vec<_>>().join(" ") };

    // containment: nothing outside of the target window changed
    let mut outside = None;
    for r in 0..sh + 2 * PAD_R {
        for c in 0..cw {
            let in_target = r >= PAD_R && r < PAD_R + sh && c >= PAD_C && c < PAD_C + sw;
            if !in_target && !is_sentinel(canvas.at(r, c)) {
                outside.get_or_insert((r, c));
            }
        }
    }
    if let Some((r, c)) = outside {
        ex.fails.push(("cell outside of the given surface modified".into(), "sentinel".into(), format!("canvas cell ({r},{c}) of a {}x{} target at ({PAD_R},{PAD_C})", sh, sw)));
    }

    // rectangles recorded by the layout tree, composed along the path and clipped
    let root_win: Win = if sh == 0 || sw == 0 { None } else { Some((PAD_R as u128, PAD_C as u128, (PAD_R + sh) as u128, (PAD_C + sw) as u128)) };
    let mut acc = Walk::default();
    walk(&case.tree, &mut 0, Some(layout.view()), root_win, case.glyphs, &laid, &mut acc);
    for p in acc.problems.iter() {
        ex.fails.push(("layout tree does not match the view tree".into(), "one layout child per laid out view".into(), p.clone()));
    }
    // probes: region they were handed = recorded rectangle
    let mut called: HashMap<usize, usize> = HashMap::new();
    for (pid, s) in probes.iter() {
        *called.entry(*pid).or_insert(0) += 1;
        let got: Win = canvas.rect_of(s);
        let want = acc.node.get(&(pid - 1)).map(|x| x.0).unwrap_or(None);
        if got != want || (got.is_some() && (s.row_stride, s.col_stride) != canvas.strides()) {
            ex.fails.push((format!("probe {pid}: region handed to the leaf differs from the rectangle recorded in the layout tree"), format!("{want:?}"), format!("{got:?} (shape {})", shape_str(s))));
        }
    }
    for (id, (win, _, _)) in acc.node.iter() {
        if matches!(kinds[*id], T::Probe(..)) && win.is_some() && called.get(&(id + 1)).copied().unwrap_or(0) != 1 {
            ex.fails.push((format!("probe {}: visible rectangle recorded but leaf rendered {} times", id + 1, called.get(&(id + 1)).copied().unwrap_or(0)), "1".into(), format!("{win:?}")));
        }
    }
    // painted cells lie inside the rectangle of their painter; hit testing finds the painter
    let root = layout.view();
    let (rr, rc) = (root.position().row, root.position().col);
    let mut first_bad = None;
    let mut positions: Vec<(usize, usize)> = Vec::new();
    if sh * sw <= 160 {
        for r in 0..sh {
            for c in 0..sw {
                positions.push((r, c));
            }
        }
    } else {
        for _ in 0..160 {
            positions.push((sample_rng.below(sh as u64) as usize, sample_rng.below(sw as u64) as usize));
        }
    }
    for (r, c) in positions.iter().copied() {
        let cell = canvas.at(PAD_R + r, PAD_C + c).clone();
        let bgc = cell.face().bg.map(|c| c.to_rgba());
        let owner: Option<(bool, usize)> = match bgc {
            Some([a, b, 0x77, 255]) => Some((false, (a as usize | (b as usize) << 8).wrapping_sub(1))),
            Some([a, b, 0x78, 255]) => Some((true, (a as usize | (b as usize) << 8).wrapping_sub(1))),
            _ => None,
        };
        // hit testing, in the coordinates of the root layout
        let chain: Option<Vec<*const Layout>> = if r >= rr && c >= rc {
            let got: Vec<*const Layout> = root.find_path(ps(r - rr, c - rc)).map(|l| l as *const Layout).collect();
            let mut want = Vec::new();
            descend(layout.view(), ((r - rr) as u128, (c - rc) as u128), &mut want);
            ex.path_checks += 1;
            if got != want && first_bad.is_none() {
                first_bad = Some(format!("find_path({},{}) returns a chain of {} layouts, the layouts containing the position are {}", r - rr, c - rc, got.len(), want.len()));
            }
            Some(got)
        } else {
            None
        };
        if let Some((strip, id)) = owner {
            ex.attributed += 1;
            let (win, ptr) = if strip {
                match acc.strip.get(&id) {
                    Some((w, p)) => (*w, *p),
                    None => (None, std::ptr::null()),
                }
            } else {
                match acc.node.get(&id) {
                    Some((w, p, _)) => (*w, *p),
                    None => (None, std::ptr::null()),
                }
            };
            if !inside(win, PAD_R + r, PAD_C + c) {
                ex.fails.push((format!("cell ({r},{c}) painted by node {id}{} outside of the rectangle the layout tree records for it", if strip { " (flex child face)" } else { "" }), format!("{win:?}"), format!("canvas ({},{})", PAD_R + r, PAD_C + c)));
            } else if let Some(chain) = chain.as_ref() {
                let ok = chain.contains(&ptr);
                if !ok {
                    ex.fails.push((format!("hit testing ({r},{c}) does not identify node {id} that is drawn there"), "layout of the painter in the find_path chain".into(), format!("chain of {} layouts without it", chain.len())));
                }
            }
        }
    }
    if let Some(b) = first_bad {
        ex.fails.push(("find_path is not the chain of layouts containing the position".into(), "first child containing the position at every level".into(), b));
    }
    // the cell an image view writes is expanded by the terminal to `Cell::size` cells: they must stay inside
    // the (clipped) rectangle of the view, hence inside the surface given
    for (id, (win, _, _)) in acc.node.iter() {
        let (T::Image(ph, pw), Some((r0, c0, r1, c1))) = (kinds[*id], *win) else { continue };
        let cell = canvas.at(r0 as usize, c0 as usize);
        if let surf_n_term::render::CellKind::Image(img) = cell.kind() {
            // cells covered = ceil(pixels of the placed image / pixels per cell), from the raw shape of the image
            // and the pixels per cell this case was generated with (not through Cell::size / Image::size_cells)
            let (iph, ipw) = (img.shape().height, img.shape().width);
            let ext = if case.ppc.0 == 0 || case.ppc.1 == 0 || iph == 0 || ipw == 0 { (0, 0) } else { (ceil_div(iph, case.ppc.0), ceil_div(ipw, case.ppc.1)) };
            ex.image_cells.push(((*ph, *pw), ((r1 - r0) as usize, (c1 - c0) as usize), ext));
            if r0 + ext.0 as u128 > r1 || c0 + ext.1 as u128 > c1 {
                ex.fails.push((format!("image view {id}: the image cell covers cells outside of the rectangle recorded for the view"), format!("at most {}x{} cells from ({r0},{c0})", r1 - r0, c1 - c0), format!("{}x{} cells", ext.0, ext.1)));
            }
            let by_crate = cell.size(&ctx);
            if (by_crate.height, by_crate.width) != ext {
                ex.fails.push((format!("image view {id}: Cell::size of the image cell is not ceil(pixels / pixels per cell)"), format!("{}x{}", ext.0, ext.1), format!("{}x{}", by_crate.height, by_crate.width)));
            }
        }
    }
    // differential rendering: every leaf view, of every kind, changes only cells inside the rectangle the
    // layout tree records for it (composed along the path and clipped)
    let mut leaves: Vec<usize> = (0..kinds.len())
        .filter(|id| laid.contains(id) && matches!(kinds[*id], T::Text(..) | T::Str(..) | T::Glyph(..) | T::Probe(..) | T::Surface(..) | T::Ascii(..) | T::Image(..) | T::Fill | T::Bar(..)))
        .collect();
    while leaves.len() > diff_leaves {
        let i = sample_rng.below(leaves.len() as u64) as usize;
        leaves.swap_remove(i);
    }
    for k in leaves {
        let env2 = Env { mute: Some(k), ..Env::default() };
        let Ok(Ok(view2)) = build_view(case, &env2) else { continue };
        let mut store2 = ViewLayoutStore::new();
        let Ok(layout2) = view2.layout_new(&ctx, ct, &mut store2) else { continue };
        let mut l2 = String::new();
        lt_string(layout2.view(), &env2.data.lock().unwrap(), &mut l2);
        if l2 != ex.layout {
            ex.fails.push(("harness: muting a leaf changed the layout".into(), ex.layout.clone(), l2));
            continue;
        }
        let mut canvas2 = Canvas::new(sh, sw, case.transposed);
        if view2.render(&ctx, canvas2.target(sh, sw), layout2.view()).is_err() {
            continue;
        }
        ex.diff_checks += 1;
        let win = acc.node.get(&k).map(|x| x.0).unwrap_or(None);
        let mut bad = None;
        for r in 0..sh + 2 * PAD_R {
            for c in 0..cw {
                if !same_cell(canvas.at(r, c), canvas2.at(r, c)) && !inside(win, r, c) {
                    bad.get_or_insert((r, c));
                }
            }
        }
        if let Some((r, c)) = bad {
            ex.fails.push((format!("leaf view {k} ({}) draws outside of the rectangle the layout tree records for it", kind_name(kinds[k])), format!("{win:?}"), format!("canvas cell ({r},{c}) changes when the leaf is not drawn")));
        }
    }
    // a few find_path answers for the correspondence with the model
    for _ in 0..3 {
        let p = (sample_rng.below(sh as u64 + 2) as usize, sample_rng.below(sw as u64 + 2) as usize);
        let chain: Vec<String> = root.find_path(ps(p.0, p.1)).map(|l| format!("{},{},{},{}", l.position().row, l.position().col, l.size().height, l.size().width)).collect();
        ex.paths.push((p, chain.join(" ")));
    }
    ex
}

fn build_view(case: &Case, env: &Env) -> Result<Result<ArcView<'static>, String>, ()> {
    guarded(|| {
        if case.json {
            let cache = Arc::new(Cache(Mutex::new(HashMap::new())));
            let doc = to_json(env, &cache, &case.tree, &mut 0);
            from_json(env, cache, &doc)
        } else {
            Ok(build(env, &case.tree, &mut 0))
        }
    })
}

#[derive(PartialEq, Debug)]
enum ChildEnd {
    Finished,
    TimedOut,
    Died,
}
/// run `f` in a forked child with a time limit (seconds)
fn run_in_child(limit: u32, f: impl FnOnce()) -> ChildEnd {
    unsafe {
        let pid = libc::fork();
        if pid == 0 {
            EXPIRED = true; // in the child the first expiry is final
            libc::alarm(limit);
            f();
            libc::_exit(0);
        }
        let mut status = 0;
        libc::waitpid(pid, &mut status, 0);
        if libc::WIFEXITED(status) && libc::WEXITSTATUS(status) == 0 {
            ChildEnd::Finished
        } else if libc::WIFEXITED(status) && libc::WEXITSTATUS(status) == 3 {
            ChildEnd::TimedOut
        } else {
            ChildEnd::Died
        }
    }
}

/// watchdog: a case that runs longer than 60 s gets one extension to 15 minutes (a loaded machine is not
/// a violation); if it still does not finish it is reported on stderr and ends the harness
static mut CURRENT: [u8; 4096] = [0; 4096];
static mut CURRENT_LEN: usize = 0;
static mut EXPIRED: bool = false;
extern "C" fn on_alarm(_sig: libc::c_int) {
    unsafe {
        if !EXPIRED {
            EXPIRED = true;
            libc::alarm(840);
            return;
        }
        let head = b"C10 harness: case does not finish within its time limit: ";
        libc::write(2, head.as_ptr() as *const libc::c_void, head.len());
        let cur = &raw const CURRENT;
        libc::write(2, cur as *const libc::c_void, CURRENT_LEN);
        libc::write(2, b"\n".as_ptr() as *const libc::c_void, 1);
        libc::_exit(3);
    }
}
fn watchdog(case_text: &str) {
    unsafe {
        let bytes = case_text.as_bytes();
        let n = bytes.len().min(4096);
        let cur = &raw mut CURRENT;
        (&mut (*cur))[..n].copy_from_slice(&bytes[..n]);
        CURRENT_LEN = n;
        EXPIRED = false;
        libc::alarm(60);
    }
}

struct Runner {
    out: Out,
    sample_rng: Rng,
    n: u64,
    /// how many leaves per case get the differential rendering check
    diff_leaves: usize,
    diff_total: u64,
}

impl Runner {
    fn run(&mut self, case: &Case, class: &str) {
        let mut toks = Vec::new();
        tokens(&case.tree, case.ppc, &mut 0, &mut toks);
        let toks = toks.join(" ");
        let head = format!("{} {} {} {} {} {} {}", if case.glyphs { 1 } else { 0 }, case.ppc.0, case.ppc.1, case.ct[0], case.ct[1], case.ct[2], case.ct[3]);
        let input = json!({"tree": tree_json(&case.tree), "glyphs": case.glyphs, "ppc": [case.ppc.0, case.ppc.1],
            "ct": case.ct.iter().map(|x| x.to_string()).collect::<Vec<_>>(), "surf": [case.surf.0, case.surf.1], "json": case.json, "transposed": case.transposed,
            "model_request": format!("c10 layout {head} {toks}")});
        if !BAR_HUGE && has_bar(&case.tree) && (case.ct[2] >= (1 << 20) || case.ct[3] >= (1 << 20)) {
            self.out.hist("skipped:scrollbar-under-huge-extent");
            return;
        }
        let env = Env::default();
        watchdog(input["model_request"].as_str().unwrap_or(""));
        if std::env::var("C10_TRACE").is_ok() {
            eprintln!("{}", input["model_request"]);
        }
        // build
        let built = build_view(case, &env);
        let view = match built {
            Ok(Ok(v)) => v,
            Ok(Err(e)) => {
                self.out.hist("json-rejected");
                self.out.sample(json!({"json_rejected": e, "input": input}));
                return;
            }
            Err(()) => {
                self.out.fail("building / deserialising the view tree panics", input, json!("no panic"), json!("panic"));
                return;
            }
        };
        // cases that made some version of the code loop (nearly) forever or overflow the stack are
        // tried in a child process first, so that the failure is reported with its input
        let risky = dyn_in_dyn(&case.tree, false) || case.ct[2] >= 4096 || case.ct[3] >= 4096;
        if risky {
            self.out.hist("tried-in-child-process-first");
            let mut end = ChildEnd::Finished;
            for limit in [20u32, 600] {
                let mut r = self.sample_rng.clone();
                end = run_in_child(limit, || {
                    let _ = guarded(|| exec(case, &view, &env, &mut r, 0));
                });
                if end != ChildEnd::TimedOut {
                    break; // a time-out is only believed after a second run with a long limit
                }
                self.out.hist("child-timeout-retried");
            }
            if end != ChildEnd::Finished {
                let got = if end == ChildEnd::Died { "child process died (stack overflow / abort)" } else { "child process did not finish within 20 s nor, re-run, within 600 s" };
                self.out.fail("layout + render does not terminate or aborts the process", input, json!("terminates"), json!(got));
                return;
            }
        }
        let diff_leaves = self.diff_leaves;
        let res = guarded(|| exec(case, &view, &env, &mut self.sample_rng, diff_leaves));
        let nodes = count_nodes(&case.tree);
        let grid = case.ct[2] < (1 << 20) && case.ct[3] < (1 << 20);
        let corr_ok = !has_flex_factor(&case.tree) || grid;
        self.n += 1;
        self.out.case(&format!("{head} {toks} {:?} {} {}", case.surf, case.json, case.transposed), nodes >= 2);
        self.out.hist(&format!("class:{class}"));
        self.out.hist(if case.json { "route:json" } else { "route:api" });
        self.out.hist(if case.transposed { "target:transposed window" } else { "target:row major window" });
        self.out.hist(&format!("nodes:{}", match nodes { 1 => "1", 2..=4 => "2-4", 5..=12 => "5-12", _ => "13+" }));
        self.out.hist(if grid { "extents:<2^20" } else { "extents:huge" });
        match res {
            Err(()) => {
                self.out.hist("res:panic");
                if corr_ok {
                    self.out.corr(&format!("c10 layout {head} {toks}"), "panic");
                }
                self.out.fail("layout or render panics", input, json!("no panic"), json!("panic"));
            }
            Ok(ex) => {
                self.out.hist("res:ok");
                self.out.hist(&format!("attributed-cells:{}", if ex.attributed == 0 { "0" } else { ">0" }));
                self.diff_total += ex.diff_checks as u64;
                if corr_ok {
                    self.out.corr(&format!("c10 layout {head} {toks}"), &ex.layout);
                    if ex.render == "ok" || ex.render == "invalid-layout" {
                        let ans = if ex.render == "ok" { ex.probes.clone() } else { ex.render.clone() };
                        self.out.corr(&format!("c10 render {head} {} {toks}", ex.target_shape), &ans);
                    }
                    for ((ph, pw), (sh, sw), (eh, ew)) in ex.image_cells.iter() {
                        self.out.corr(&format!("c10 imgext {} {} {ph} {pw} {sh} {sw}", case.ppc.0, case.ppc.1), &format!("{eh} {ew}"));
                    }
                    for ((r, c), chain) in ex.paths.iter() {
                        self.out.corr(&format!("c10 path {head} {r} {c} {toks}"), chain);
                    }
                } else {
                    self.out.hist("correspondence:skipped(off-grid factors)");
                }
                if self.n % 611 == 1 {
                    self.out.sample(json!({"request": format!("c10 layout {head} {toks}"), "impl": ex.layout, "probes": ex.probes}));
                }
                for (what, expected, got) in ex.fails.into_iter().take(3) {
                    self.out.fail(&what, input.clone(), json!(expected), json!(got));
                }
            }
        }
    }
}

fn case_parse(v: &Value) -> Case {
    Case {
        tree: tree_parse(&v["tree"]),
        glyphs: v["glyphs"].as_bool().unwrap_or(true),
        ppc: (us(&v["ppc"][0]), us(&v["ppc"][1])),
        ct: [us(&v["ct"][0]), us(&v["ct"][1]), us(&v["ct"][2]), us(&v["ct"][3])],
        surf: (us(&v["surf"][0]), us(&v["surf"][1])),
        json: v["json"].as_bool().unwrap_or(false),
        transposed: v["transposed"].as_bool().unwrap_or(false),
    }
}

fn bar(hor: bool) -> T {
    T::Bar(hor, 0.5, 0.25)
}
fn probe(h: usize, w: usize) -> T {
    T::Probe(h, w)
}
fn fc(flex: Fac, align: Al, face: bool, view: T) -> FC {
    FC { flex, align, face, view }
}
fn cont(h: usize, w: usize, av: Al, ah: Al, m: [usize; 4], face: bool, c: T) -> T {
    T::Cont(h, w, av, ah, m, face, Box::new(c))
}

/// white-box corner cases: every repaired defect, the unit tests of the crate, boundary extents
fn corner_cases() -> Vec<Case> {
    let mut v = Vec::new();
    let base = |tree: T, ct: [usize; 4], surf: (usize, usize)| Case { tree, glyphs: true, ppc: (37, 15), ct, surf, json: false, transposed: false };
    let m = usize::MAX;
    // Flex without children, every justification
    for j in 0..6 {
        v.push(base(T::Flex(true, j, vec![]), [0, 0, 5, 10], (5, 10)));
        v.push(base(T::Flex(false, j, vec![fc(Fac::None, Al::S, false, probe(1, 2))]), [0, 0, 5, 10], (5, 10)));
    }
    // non-positive factors through both routes
    for json in [false, true] {
        let t = T::Flex(true, 0, vec![fc(Fac::Raw(false, 12, 4), Al::S, true, T::Fill), fc(Fac::Raw(true, 8, 4), Al::S, true, T::Fill), fc(Fac::Raw(false, 0, 4), Al::E, false, probe(1, 1))]);
        v.push(Case { json, ..base(t, [0, 0, 4, 20], (4, 20)) });
    }
    // a factor far outside of the grid: the child must not be offered more than is left
    for json in [false, true] {
        let t = T::Flex(true, 0, vec![fc(Fac::Pos(3, 4), Al::S, false, T::Fill), fc(Fac::None, Al::S, false, probe(1, 3)), fc(Fac::Big, Al::S, true, T::Fill), fc(Fac::None, Al::C, false, probe(2, 2))]);
        v.push(Case { json, ..base(t, [0, 0, 4, 20], (4, 20)) });
    }
    // huge margins; children that report a size under a zero constraint
    for child in [T::Fill, bar(true), bar(false), T::Frame(Box::new(T::Fill)), T::Tag(Box::new(bar(true))), probe(3, 3)] {
        for mm in [[0, 0, m, 0], [m, 0, 0, 0], [0, m, 0, m], [m, m, m, m], [m - 5, 0, m - 5, 0], [3, 3, 2, 2]] {
            v.push(base(cont(0, 0, Al::K, Al::K, mm, true, child.clone()), [0, 0, 5, 5], (5, 5)));
            v.push(base(cont(4, 4, Al::O(7), Al::O(i32::MAX), mm, true, child.clone()), [0, 0, 10, 10], (6, 6)));
        }
    }
    // huge cell sizes in a text (Cell::layout), huge sizes under huge constraints (Size::is_empty)
    for g in [true, false] {
        let t = T::Text(vec![TC::Ch(Ch::W(1)), TC::Glyph(m, 3, vec![Ch::W(1), Ch::W(1)]), TC::Ch(Ch::Nl), TC::Glyph(2, m, vec![Ch::W(2)]), TC::Ch(Ch::W(1))], true);
        v.push(Case { glyphs: g, ..base(t.clone(), [0, 0, 5, 10], (5, 10)) });
        v.push(Case { glyphs: g, ..base(T::Flex(false, 0, vec![fc(Fac::None, Al::S, false, t)]), [0, 0, m, m], (5, 10)) });
    }
    for g in [true, false] {
        let t = T::Text(vec![TC::Ch(Ch::Nl), TC::Glyph(m, 1, vec![Ch::W(1)]), TC::Ch(Ch::W(1)), TC::Ch(Ch::W(1)), TC::Glyph(m - 1, 2, vec![Ch::W(1)]), TC::Img(37 * 3, 15 * 2)], true);
        v.push(Case { glyphs: g, ..base(t.clone(), [0, 0, 5, 3], (5, 3)) });
        v.push(Case { glyphs: g, ..base(T::Flex(true, 1, vec![fc(Fac::Pos(4, 4), Al::C, true, t)]), [0, 0, 9, 3], (5, 10)) });
    }
    for e in [1usize << 32, 1 << 63, m] {
        v.push(base(T::Flex(true, 3, vec![fc(Fac::None, Al::S, true, T::Fill), fc(Fac::None, Al::E, true, T::Fill)]), [0, 0, e, e], (4, 6)));
        v.push(base(T::Flex(false, 5, vec![fc(Fac::None, Al::S, true, probe(e, e)), fc(Fac::None, Al::C, false, T::Fill), fc(Fac::None, Al::C, false, bar(false))]), [0, 0, e, e], (4, 6)));
        v.push(base(T::Frame(Box::new(T::Frame(Box::new(T::Fill)))), [e, e, e, e], (4, 6)));
    }
    // huge pixels per cell: Image::render multiplies the surface extent by it
    for p in [1usize << 40, 1 << 62, usize::MAX] {
        v.push(Case { ppc: (p, p), ..base(T::Image(2, 3), [4, 4, 4, 4], (5, 5)) });
        v.push(Case { ppc: (p, 3), ..base(T::Flex(false, 0, vec![fc(Fac::None, Al::S, false, T::Image(70, 20)), fc(Fac::Pos(4, 4), Al::E, true, T::Text(vec![TC::Img(9, 9), TC::Ch(Ch::W(1))], true))]), [0, 0, 6, 6], (6, 6)) });
    }
    // images larger than what is left of their rectangle after clipping: after other children overflowing the
    // major axis, placed with an offset, rendered into a surface smaller than the layout
    for (ph, pw) in [(300usize, 300usize), (74, 400), (500, 16), (37, 15)] {
        let img = T::Image(ph, pw);
        let txt = T::Text("abcdefg".chars().map(|_| TC::Ch(Ch::W(1))).collect(), true);
        for hor in [true, false] {
            v.push(base(T::Flex(hor, 0, vec![fc(Fac::None, Al::S, false, txt.clone()), fc(Fac::None, Al::S, false, img.clone())]), [0, 0, 4, 10], (4, 10)));
            v.push(base(T::Flex(hor, 0, vec![fc(Fac::None, Al::S, false, probe(3, 6)), fc(Fac::None, Al::C, true, img.clone()), fc(Fac::None, Al::E, false, img.clone())]), [0, 0, 6, 12], (5, 9)));
        }
        v.push(base(cont(0, 0, Al::O(1), Al::O(4), [0; 4], true, img.clone()), [0, 0, 3, 10], (3, 10)));
        v.push(base(cont(0, 0, Al::E, Al::O(7), [1, 0, 1, 0], false, img.clone()), [0, 0, 6, 10], (4, 8)));
        v.push(base(img.clone(), [0, 0, 9, 30], (3, 7)));
        v.push(base(img.clone(), [2, 2, 9, 30], (20, 40)));
    }
    // scroll bar: thumb offset + size at the top of the usize range; fractions outside [0, 1], NaN
    v.push(base(T::Bar(false, 1.0 - f64::EPSILON / 2.0, 1.0), [0, 0, m, 1], (3000, 1)));
    v.push(base(T::Bar(true, 1.0 - f64::EPSILON / 2.0, 1.0), [0, 0, 1, m], (1, 3000)));
    for (vis, off) in [(f64::NAN, f64::NAN), (-1.0, -1.0), (0.5, 3.0), (0.5, f64::INFINITY), (f64::INFINITY, 0.5), (0.0, 1.0), (2.0, 0.5), (0.3, 0.7)] {
        v.push(base(T::Bar(true, vis, off), [0, 0, 2, 10], (2, 10)));
        v.push(base(T::Flex(false, 0, vec![fc(Fac::None, Al::S, false, T::Bar(false, vis, off)), fc(Fac::None, Al::S, false, probe(1, 1))]), [0, 0, 7, 3], (7, 3)));
    }
    // special flex factors: +inf passes the filter of push_child_ext; unfiltered NaN / -inf / negative / zero
    for f in [Fac::ApiSpecial(0), Fac::ApiSpecial(1), Fac::ApiSpecial(2)] {
        v.push(base(T::Flex(true, 0, vec![fc(Fac::Pos(4, 4), Al::S, true, T::Fill), fc(f.clone(), Al::S, true, T::Fill), fc(Fac::None, Al::E, false, probe(1, 2)), fc(Fac::Pos(8, 4), Al::S, false, probe(1, 30))]), [0, 0, 3, 20], (3, 20)));
    }
    for (a, b) in [(FV::Nan, FV::Fin(false, 4, 4)), (FV::Inf(false), FV::Inf(true)), (FV::Inf(false), FV::Fin(false, 4, 4)), (FV::Fin(true, 8, 4), FV::Fin(false, 12, 4)),
                   (FV::Fin(false, 12, 4), FV::Fin(true, 12, 4)), (FV::Fin(true, 4, 4), FV::Fin(true, 4, 4)), (FV::Fin(false, 0, 4), FV::Fin(false, 4, 4)), (FV::Fin(false, 4, 4), FV::Inf(false))] {
        for w in [7usize, 20] {
            v.push(base(T::Flex(true, 4, vec![fc(Fac::Direct(a.clone()), Al::S, true, T::Fill), fc(Fac::None, Al::C, false, probe(1, 3)), fc(Fac::Direct(b.clone()), Al::E, true, probe(2, 30)), fc(Fac::Direct(FV::Fin(false, 2, 4)), Al::S, false, T::Fill)]), [0, 0, 3, w], (3, 20)));
        }
    }
    // Dynamic directly inside Dynamic (also through a frame without glyph support)
    for g in [true, false] {
        let d = T::Dyn(3, Box::new(T::Dyn(5, Box::new(probe(2, 2)), Box::new(T::Fill))), Box::new(T::Frame(Box::new(T::Dyn(1, Box::new(T::Fill), Box::new(probe(1, 1)))))));
        for w in [2usize, 4, 9] {
            v.push(Case { glyphs: g, ..base(d.clone(), [0, 0, 4, w], (4, 9)) });
        }
    }
    // the crate's own unit tests
    let two = T::Flex(true, 0, vec![fc(Fac::Pos(8, 4), Al::E, true, T::Text("some text".chars().map(|c| TC::Ch(if c == ' ' { Ch::W(1) } else { Ch::W(1) })).collect(), true)),
                                    fc(Fac::Pos(4, 4), Al::S, true, T::Text("other text".chars().map(|_| TC::Ch(Ch::W(1))).collect(), true))]);
    v.push(base(two.clone(), [0, 0, 5, 12], (5, 12)));
    v.push(base(two.clone(), [0, 0, 5, 40], (5, 40)));
    if let T::Flex(h, _, cs) = two {
        v.push(base(T::Flex(h, 3, cs), [0, 0, 5, 40], (5, 40)));
    }
    for (av, ah) in [(Al::C, Al::E), (Al::C, Al::S), (Al::C, Al::C), (Al::O(1), Al::O(-2)), (Al::X, Al::O(-2)), (Al::K, Al::O(-2))] {
        v.push(base(cont(0, 0, av.clone(), ah.clone(), [0; 4], true, probe(1, 4)), [0, 0, 5, 10], (5, 10)));
        v.push(base(cont(0, 0, av, ah, [2, 1, 1, 0], true, probe(1, 4)), [0, 0, 5, 10], (5, 10)));
    }
    // rounding: halves, justification remainders, touching rectangles, clipping
    for w in 0..12usize {
        for j in 0..6u8 {
            let t = T::Flex(true, j, vec![fc(Fac::Pos(4, 4), Al::S, true, probe(1, 2)), fc(Fac::Pos(4, 4), Al::C, false, T::Fill), fc(Fac::None, Al::E, true, probe(2, 2)), fc(Fac::Pos(2, 4), Al::X, false, probe(1, 1))]);
            v.push(base(t, [0, 0, 3, w], (3, 8)));
        }
    }
    for e in [0usize, 1, 2, 3] {
        for f in [0usize, 1, 2, 3] {
            v.push(base(T::Frame(Box::new(cont(0, 0, Al::E, Al::E, [0, 1, 0, 1], true, probe(2, 2)))), [0, 0, e, f], (3, 3)));
            v.push(Case { glyphs: false, ..base(T::Frame(Box::new(probe(2, 2))), [e.min(f), 0, e, f], (3, 3)) });
            v.push(base(bar(e % 2 == 0), [e.min(f), f.min(e), e, f], (3, 3)));
        }
    }
    v
}

/// scroll bar thumb: the cells the implementation paints vs the model of the `f64` arithmetic
/// (fractions on the grid k/8 incl. negative and above one, and the special values)
fn bar_case(runner: &mut Runner, rng: &mut Rng) {
    let major = match rng.below(4) {
        0 => 1 + rng.below(12) as usize,
        1 | 2 => 1 + rng.below(60) as usize,
        _ => 1 + rng.below((1 << 20) - 1) as usize,
    };
    let n = 1 + rng.below(60) as usize;
    let frac = |rng: &mut Rng| match rng.below(14) {
        0 => FV::Nan,
        1 => FV::Inf(rng.chance(1, 2)),
        2 => FV::Fin(true, rng.below(17), 8),
        3 => FV::Fin(false, 8 + rng.below(17), 8),
        _ => FV::Fin(false, rng.below(9), 8),
    };
    let (vis, off) = (frac(rng), frac(rng));
    let hor = rng.chance(1, 2);
    let thumb = RGBA::new(200, 1, 1, 255);
    let track = RGBA::new(1, 200, 1, 255);
    let view = ScrollBar::new(
        if hor { Axis::Horizontal } else { Axis::Vertical },
        Face::new(Some(thumb), Some(track), FaceAttrs::EMPTY),
        ScrollBarPosition { offset: fv_f64(&off), visible: fv_f64(&vis) },
    );
    let req = format!("c10 bar {major} {n} {} {}", fv_tok(&vis), fv_tok(&off));
    watchdog(&req);
    let ctx = make_ctx(true, (37, 15));
    let got = guarded(|| {
        let ct = BoxConstraint::new(sz(0, 0), if hor { sz(1, major) } else { sz(major, 1) });
        let mut store = ViewLayoutStore::new();
        let layout = view.layout_new(&ctx, ct, &mut store).map_err(|_| ())?;
        let mut surf = SurfaceOwned::<Cell>::new(if hor { sz(1, n) } else { sz(n, 1) });
        view.render(&ctx, surf.as_mut(), layout.view()).map_err(|_| ())?;
        let mut cells = String::new();
        for i in 0..major.min(n) {
            let c = surf.data()[i].clone(); // 1 x n or n x 1, row major: cell i
            cells.push(if c.face().bg == Some(thumb) { '1' } else if c.face().bg == Some(track) { '0' } else { '?' });
        }
        Ok::<String, ()>(cells)
    });
    runner.out.case(&req, true);
    runner.out.hist("class:scroll-bar-thumb");
    match got {
        Ok(Ok(cells)) => {
            runner.out.corr(&req, &cells);
            // independent of the model: the thumb is one run of cells, as many as the rounded size allows
            let ones = cells.matches('1').count();
            let run = cells.trim_matches('0');
            if cells.contains('?') || run.contains('0') || (ones == 0 && false) {
                runner.out.fail("scroll bar does not paint one contiguous thumb inside its surface", json!({"model_request": req}), json!("track* thumb* track*"), json!(cells));
            }
        }
        _ => runner.out.fail("layout or render panics", json!({"model_request": req, "scrollbar": true}), json!("no panic"), json!("panic or error")),
    }
}

fn main() {
    let cfg = Cfg::from_env();
    let out = cfg.out();
    if std::env::var("C10_TRACE").is_err() {
        verif_harness::silence_panics();
    }
    unsafe {
        libc::signal(libc::SIGALRM, on_alarm as *const () as libc::sighandler_t);
    }
    let mut rng = Rng::new(cfg.seed);
    let sample_rng = rng.fork();
    let mut runner = Runner { out, sample_rng, n: 0, diff_leaves: if cfg.thorough { 1 } else { 6 }, diff_total: 0 };
    if let Some(replay) = cfg.replay.as_ref() {
        let case = case_parse(&replay["failure"]["input"]);
        runner.run(&case, "replay");
        runner.out.finish("replay of one recorded input");
        return;
    }
    for case in corner_cases() {
        runner.run(&case, "corner");
        if !api_only(&case.tree) {
            let mut j = case.clone();
            j.json = !j.json;
            runner.run(&j, "corner");
        }
        let mut t = case.clone();
        t.transposed = true;
        runner.run(&t, "corner");
    }
    let n = if cfg.thorough { 400_000 } else { 4_000 };
    for i in 0..n {
        let case = gen_case(&mut rng);
        runner.run(&case, "random");
        if i % 4 == 0 {
            bar_case(&mut runner, &mut rng);
        }
    }
    let _ = std::io::stdout().flush();
    unsafe {
        libc::alarm(0);
    }
    runner.out.extra("differential_leaf_renders", json!(runner.diff_total));
    runner.out.extra("grid", json!({"factors": "k/4, 1 <= k <= 64 (plus one factor 1e308 as last flex child, and raw zero / negative factors)", "correspondence_extents": "< 2^20 when the tree has flex factors", "oracle_extents": "0 .. usize::MAX"}));
    runner.out.finish("random view trees (depth <= 4, 0-5 flex children, all justify / align values incl. offsets, factors on the k/4 grid, margins and sizes incl. 0 and usize::MAX) through the API and through JSON, under constraints min <= max incl. 0, 1 and huge extents, both glyph settings, rendered into a window of a sentinel canvas; non-trivial = at least two views; distinct by (context, constraint, tree, surface, route)");
}
