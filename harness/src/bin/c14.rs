//! C14: streaming base64 codec (`Base64Encoder`, `Base64Decoder`) against RFC 4648 under any chunking.
//!
//! Correspondence (`C` lines): the Lean model `SurfModel.Base64` of the encoder (write partitions) and of the
//! decoder (reader schedule × destination buffer sizes, one trace entry per `read` call) must answer exactly
//! what the real types answer.
//! Oracle (`out.fail`): an independent RFC 4648 codec written below (bit accumulator, alphabet from character
//! ranges) judges the implementation directly; it states the property only:
//!   * encode(any partition of d, any flushes) == rfc(d), also as the text that ARRIVES in an inner writer with short writes
//!   * reading rfc(d) through any reader schedule (Interrupted calls included) and any buffer sizes gives d, then end of input
//!   * text with length % 4 != 0 ends in an error, never in a clean end of input
//!   * no input panics
//!   * the same through the crate's client of the decoder (`Deserialize for Image`): documents whose data text has a
//!     length that is not a multiple of four are rejected, well-formed ones give the pixels the raw bytes spell
//! `O` lines: the verified Lean specification `rfcEncode` applied to the data must give the implementation's text.
use serde_json::{Value, json};
use std::collections::HashSet;
use std::io::{Read, Write};
use surf_n_term::decoder::Base64Decoder;
use surf_n_term::encoder::Base64Encoder;
use verif_harness::{Cfg, r#gen::Rng, guarded, out::Out, out::hex, silence_panics};

// ---------------------------------------------------------------------------------------------
// independent reference: RFC 4648 section 4
// ---------------------------------------------------------------------------------------------

/// Table 1 of RFC 4648, written out here: the oracle never looks at the crate's tables
const RFC_ALPHABET: &[u8; 64] = b"ABCDEFGHIJKLMNOPQRSTUVWXYZabcdefghijklmnopqrstuvwxyz0123456789+/";

fn rfc_alphabet() -> Vec<u8> {
    let mut a: Vec<u8> = Vec::new();
    a.extend(b'A'..=b'Z');
    a.extend(b'a'..=b'z');
    a.extend(b'0'..=b'9');
    a.push(b'+');
    a.push(b'/');
    assert_eq!(&a[..], &RFC_ALPHABET[..], "the two spellings of the RFC alphabet in the harness differ");
    a
}

/// bit-accumulator encoder (deliberately not organised by groups of three)
fn rfc_encode(data: &[u8]) -> Vec<u8> {
    let alpha = rfc_alphabet();
    let mut out = Vec::new();
    let mut acc: u32 = 0;
    let mut bits = 0;
    for &b in data {
        acc = (acc << 8) | b as u32;
        bits += 8;
        while bits >= 6 {
            bits -= 6;
            out.push(alpha[((acc >> bits) & 63) as usize]);
        }
        acc &= (1 << bits) - 1;
    }
    if bits > 0 {
        out.push(alpha[((acc << (6 - bits)) & 63) as usize]);
    }
    while out.len() % 4 != 0 {
        out.push(b'=');
    }
    out
}

// ---------------------------------------------------------------------------------------------
// the underlying reader: a schedule of per-call maxima (0 = Interrupted), then at most `tail` bytes per call
// for ever (tail = 0: unrestricted)
// ---------------------------------------------------------------------------------------------

struct SchedReader {
    data: Vec<u8>,
    pos: usize,
    sched: Vec<usize>,
    tail: usize,
    call: usize,
    /// fail this call (counted over all calls) once with `WouldBlock`, deliver nothing, then go on
    fail_at: Option<usize>,
    ncalls: usize,
}

impl Read for SchedReader {
    fn read(&mut self, buf: &mut [u8]) -> std::io::Result<usize> {
        self.ncalls += 1;
        if self.fail_at == Some(self.ncalls - 1) {
            let kinds = [std::io::ErrorKind::WouldBlock, std::io::ErrorKind::TimedOut, std::io::ErrorKind::Other, std::io::ErrorKind::UnexpectedEof];
            return Err(std::io::Error::from(kinds[self.ncalls % kinds.len()]));
        }
        let max = match self.sched.get(self.call) {
            None if self.tail == 0 => usize::MAX,
            None => self.tail,
            Some(0) => {
                self.call += 1;
                return Err(std::io::Error::from(std::io::ErrorKind::Interrupted));
            }
            Some(m) => {
                self.call += 1;
                *m
            }
        };
        let n = max.min(buf.len()).min(self.data.len() - self.pos);
        buf[..n].copy_from_slice(&self.data[self.pos..self.pos + n]);
        self.pos += n;
        Ok(n)
    }
}

// ---------------------------------------------------------------------------------------------
// running the implementation
// ---------------------------------------------------------------------------------------------

#[derive(Debug, Clone, PartialEq)]
enum EncOut {
    Ok(Vec<u8>),
    IoErr,
    Panic,
}

/// what the caller does before `finish`
#[derive(Debug, Clone, PartialEq)]
enum Op {
    Write(Vec<u8>),
    Flush,
}

fn op_tok(op: &Op) -> String {
    match op {
        Op::Write(c) => hex(c),
        Op::Flush => "flush".to_string(),
    }
}

fn run_encoder(ops: &[Op]) -> EncOut {
    match guarded(|| -> std::io::Result<Vec<u8>> {
        let mut enc = Base64Encoder::new(Vec::new());
        for op in ops {
            match op {
                Op::Write(c) => enc.write_all(c)?,
                Op::Flush => enc.flush()?,
            }
        }
        enc.finish()
    }) {
        Err(()) => EncOut::Panic,
        Ok(Err(_)) => EncOut::IoErr,
        Ok(Ok(v)) => EncOut::Ok(v),
    }
}

/// an inner writer with short writes: per-call maxima (0 = Interrupted), then at most `tail` bytes per call
/// (0 = everything), and optionally a capacity after which `write` returns `Ok(0)`
#[derive(Debug, Clone, PartialEq)]
struct SinkSpec {
    sched: Vec<usize>,
    tail: usize,
    room: Option<usize>,
}

struct SchedSink {
    arrived: std::rc::Rc<std::cell::RefCell<Vec<u8>>>,
    spec: SinkSpec,
    call: usize,
}

impl Write for SchedSink {
    fn write(&mut self, buf: &[u8]) -> std::io::Result<usize> {
        let per = match self.spec.sched.get(self.call) {
            Some(0) => {
                self.call += 1;
                return Err(std::io::Error::from(std::io::ErrorKind::Interrupted));
            }
            Some(m) => {
                self.call += 1;
                *m
            }
            None if self.spec.tail == 0 => buf.len(),
            None => self.spec.tail,
        };
        let mut k = per.min(buf.len());
        if let Some(r) = self.spec.room {
            k = k.min(r);
            self.spec.room = Some(r - k);
        }
        self.arrived.borrow_mut().extend_from_slice(&buf[..k]);
        Ok(k)
    }
    fn flush(&mut self) -> std::io::Result<()> {
        Ok(())
    }
}

thread_local! {
    /// what a further `write` did after an inner error (harness bookkeeping, drained into the histogram)
    static REUSE: std::cell::RefCell<Vec<&'static str>> = const { std::cell::RefCell::new(Vec::new()) };
}

/// run the encoder over the sink; the run ends at the first I/O error. Returns (outcome, what ARRIVED in the sink)
fn run_encoder_sink(spec: &SinkSpec, ops: &[Op]) -> (EncOut, Vec<u8>) {
    let arrived = std::rc::Rc::new(std::cell::RefCell::new(Vec::new()));
    let sink = SchedSink { arrived: arrived.clone(), spec: spec.clone(), call: 0 };
    let reuse = std::cell::RefCell::new(None::<&'static str>);
    let r = guarded(|| -> std::io::Result<()> {
        let mut enc = Base64Encoder::new(sink);
        for op in ops {
            let r = match op {
                Op::Write(c) => enc.write_all(c),
                Op::Flush => enc.flush(),
            };
            if let Err(e) = r {
                // out of scope (recorded in the histogram only): the encoder used on after an inner error
                let again = guarded(|| enc.write(&[0u8]).is_ok());
                *reuse.borrow_mut() = Some(match again {
                    Err(()) => "panic",
                    Ok(true) => "ok",
                    Ok(false) => "error",
                });
                return Err(e);
            }
        }
        enc.finish().map(|_| ())
    });
    if let Some(k) = *reuse.borrow() {
        REUSE.with(|c| c.borrow_mut().push(k));
    }
    let got = arrived.borrow().clone();
    match r {
        Err(()) => (EncOut::Panic, got),
        Ok(Err(_)) => (EncOut::IoErr, got),
        Ok(Ok(())) => (EncOut::Ok(got.clone()), got),
    }
}

#[derive(Debug, Clone, Copy, PartialEq)]
enum End {
    Eof,
    Error,
    Panic,
    /// the cap on the number of reads was reached (only possible on a defective implementation)
    Pending,
}

struct DecRun {
    /// sizes actually used, one per `read` call
    sizes: Vec<usize>,
    trace: Vec<String>,
    /// bytes delivered up to the first end / error / panic
    bytes: Vec<u8>,
    end: End,
}

/// how the caller reads
#[derive(Debug, Clone, PartialEq)]
enum Dst {
    /// `read` with buffer sizes taken cyclically from the pattern
    Sizes(Vec<usize>),
    /// `Read::read_to_end` (what `Image` deserialisation does): buffer sizes are chosen by std
    ToEnd,
    /// `Read::read_to_string`
    ToString,
    /// `Read::read_exact` for the number of bytes the text can hold, then `read_to_end` for the rest
    Exact,
    /// the `Read::bytes()` iterator to its end
    Bytes,
}

impl Dst {
    fn json(&self) -> Value {
        match self {
            Dst::Sizes(p) => json!(p),
            Dst::ToEnd => json!("read_to_end"),
            Dst::ToString => json!("read_to_string"),
            Dst::Exact => json!("read_exact"),
            Dst::Bytes => json!("bytes"),
        }
    }
}

/// forwards to the real decoder and records every `read` call std makes (size offered, result)
struct Spy<R> {
    inner: R,
    sizes: Vec<usize>,
    trace: Vec<String>,
}

impl<R: Read> Read for Spy<R> {
    fn read(&mut self, buf: &mut [u8]) -> std::io::Result<usize> {
        self.sizes.push(buf.len());
        // a panic unwinds through here: the entry is completed by the caller
        let r = self.inner.read(buf);
        match &r {
            Ok(k) => self.trace.push(format!("ok:{}", hex(&buf[..(*k).min(buf.len())]))),
            Err(_) => self.trace.push("err".to_string()),
        }
        r
    }
}

/// records what every call on the underlying reader delivered: `k` for `Ok(k)`, `k >= 1`; an end-of-input
/// `Ok(0)` as 4 (any positive maximum delivers nothing there); `Interrupted` as 0
struct Recorder<R> {
    inner: R,
    rec: std::rc::Rc<std::cell::RefCell<Vec<usize>>>,
}

impl<R: Read> Read for Recorder<R> {
    fn read(&mut self, buf: &mut [u8]) -> std::io::Result<usize> {
        let r = self.inner.read(buf);
        self.rec.borrow_mut().push(match &r {
            Ok(0) => 4,
            Ok(k) => *k,
            Err(_) => 0,
        });
        r
    }
}

/// `Sizes`: read until end of input (a non-empty buffer gets `Ok(0)`), an error or a panic; then `extra` further
/// reads (what the decoder does after the end). `ToEnd` / `ToString`: one call of the std method, every `read`
/// call it makes recorded.
fn run_decoder(text: &[u8], sched: &Sched, dst: &Dst, extra: usize, exact_len: usize) -> DecRun {
    let reader = SchedReader { data: text.to_vec(), pos: 0, sched: sched.0.clone(), tail: sched.1, call: 0, fail_at: None, ncalls: 0 };
    run_decoder_over(reader, text.len(), dst, extra, exact_len)
}

/// the same over any underlying reader
fn run_decoder_over<R: Read>(reader: R, text_len: usize, dst: &Dst, extra: usize, exact_len: usize) -> DecRun {
    let dec = Base64Decoder::new(reader);
    match dst {
        Dst::Sizes(pattern) => run_sizes(dec, text_len, pattern, extra),
        Dst::ToEnd | Dst::ToString | Dst::Exact | Dst::Bytes => {
            let mut spy = Spy { inner: dec, sizes: vec![], trace: vec![] };
            let mut bytes: Vec<u8> = Vec::new();
            let r = guarded(|| {
                if *dst == Dst::ToEnd {
                    spy.read_to_end(&mut bytes).map(|_| ())
                } else if *dst == Dst::Exact {
                    // whole groups only: what a caller that trusts the length of the text would ask for
                    let mut head = vec![0u8; exact_len];
                    let r = spy.read_exact(&mut head);
                    if r.is_ok() {
                        bytes.extend_from_slice(&head);
                    }
                    r.and_then(|_| spy.read_to_end(&mut bytes).map(|_| ()))
                } else if *dst == Dst::Bytes {
                    let mut r = Ok(());
                    for b in (&mut spy).bytes() {
                        match b {
                            Ok(b) => bytes.push(b),
                            Err(e) => {
                                r = Err(e);
                                break;
                            }
                        }
                    }
                    r
                } else {
                    let mut text = String::new();
                    let r = spy.read_to_string(&mut text).map(|_| ());
                    bytes = text.into_bytes();
                    r
                }
            });
            let end = match r {
                Err(()) => {
                    spy.trace.push("panic".to_string());
                    End::Panic
                }
                Ok(Err(_)) => End::Error,
                Ok(Ok(())) => End::Eof,
            };
            spy.sizes.truncate(spy.trace.len());
            DecRun { sizes: spy.sizes, trace: spy.trace, bytes, end }
        }
    }
}

fn run_sizes<R: Read>(mut dec: Base64Decoder<R>, text_len: usize, pattern: &[usize], extra: usize) -> DecRun {
    let mut run = DecRun { sizes: vec![], trace: vec![], bytes: vec![], end: End::Pending };
    // a pattern has at least one non-empty buffer per `pattern.len() <= 8` reads: enough for every byte, the end
    // and the extra reads
    let cap = pattern.len().max(8) * (text_len + 1) + 64;
    let mut after = 0usize;
    let mut i = 0usize;
    let mut buf = vec![0u8; pattern.iter().copied().max().unwrap_or(0)];
    while i < cap {
        let n = pattern[i % pattern.len()];
        i += 1;
        run.sizes.push(n);
        let r = guarded(|| dec.read(&mut buf[..n]));
        let ended = run.end != End::Pending;
        match r {
            Err(()) => {
                run.trace.push("panic".to_string());
                if !ended {
                    run.end = End::Panic;
                }
                break; // state after a panic is unspecified
            }
            Ok(Err(_)) => {
                run.trace.push("err".to_string());
                if !ended {
                    run.end = End::Error;
                }
            }
            Ok(Ok(k)) => {
                run.trace.push(format!("ok:{}", hex(&buf[..k.min(n)])));
                if !ended {
                    if k > n {
                        run.end = End::Panic; // impossible for a sane Read; treated as a crash
                        break;
                    }
                    run.bytes.extend_from_slice(&buf[..k]);
                    if n > 0 && k == 0 {
                        run.end = End::Eof;
                    }
                }
            }
        }
        if run.end != End::Pending {
            if after >= extra {
                break;
            }
            after += 1;
        }
    }
    run
}

/// (per-call maxima, tail)
type Sched = (Vec<usize>, usize);

fn csv(xs: &[usize]) -> String {
    if xs.is_empty() {
        "-".to_string()
    } else {
        xs.iter().map(|x| x.to_string()).collect::<Vec<_>>().join(",")
    }
}

// ---------------------------------------------------------------------------------------------
// cases
// ---------------------------------------------------------------------------------------------

struct Ctx {
    out: Out,
    seen: HashSet<String>,
    spec_seen: HashSet<Vec<u8>>,
    sink_spec_seen: HashSet<(Vec<u8>, Vec<u8>)>,
}

fn split(data: &[u8], cuts: &[usize]) -> Vec<Vec<u8>> {
    // cuts: ascending positions (may repeat → empty chunks)
    let mut chunks = Vec::new();
    let mut prev = 0;
    for &c in cuts {
        let c = c.min(data.len()).max(prev);
        chunks.push(data[prev..c].to_vec());
        prev = c;
    }
    chunks.push(data[prev..].to_vec());
    chunks
}

impl Ctx {
    fn enc_case(&mut self, kind: &str, ops: &[Op]) {
        let data: Vec<u8> = ops.iter().flat_map(|o| if let Op::Write(c) = o { c.clone() } else { vec![] }).collect();
        let got = run_encoder(ops);
        let got_s = match &got {
            EncOut::Ok(v) => format!("ok {}", hex(v)),
            EncOut::IoErr => "ioerr".to_string(),
            EncOut::Panic => "panic".to_string(),
        };
        let flushes = ops.contains(&Op::Flush);
        let req = format!("c14 {} {}", if flushes { "encops" } else { "enc" }, ops.iter().map(op_tok).collect::<Vec<_>>().join(" "));
        let req = req.trim_end().to_string();
        self.out.case(&req, !data.is_empty());
        self.out.hist(&format!("enc:len%3={}", data.len() % 3));
        self.out.hist(&format!("enc:{kind}"));
        if self.seen.insert(req.clone()) {
            self.out.corr(&req, &got_s);
        }
        if let EncOut::Ok(v) = &got {
            if self.spec_seen.insert(data.clone()) {
                self.out.oracle(&format!("c14 spec {}", hex(&data)), &hex(v));
            }
        }
        let expected = rfc_encode(&data);
        if got != EncOut::Ok(expected.clone()) {
            self.out.fail(
                "Base64Encoder output differs from the RFC 4648 encoding of the written bytes",
                json!({"op": "enc", "ops": ops.iter().map(op_tok).collect::<Vec<_>>(), "data": hex(&data)}),
                json!(format!("ok {}", hex(&expected))),
                json!(got_s),
            );
        }
        if self.out.evaluations % 1013 == 1 {
            self.out.sample(json!({"request": req, "impl": got_s}));
        }
    }

    /// the encoder over an inner writer with short writes: what ARRIVED must be the RFC text
    fn enc_sink_case(&mut self, kind: &str, spec: &SinkSpec, ops: &[Op]) {
        let data: Vec<u8> = ops.iter().flat_map(|o| if let Op::Write(c) = o { c.clone() } else { vec![] }).collect();
        let (got, arrived) = run_encoder_sink(spec, ops);
        for k in REUSE.with(|c| std::mem::take(&mut *c.borrow_mut())) {
            self.out.hist(&format!("encsink:write-after-error={k}(out of scope)"));
        }
        let got_s = match &got {
            EncOut::Ok(_) => format!("ok {}", hex(&arrived)),
            EncOut::IoErr => format!("ioerr {}", hex(&arrived)),
            EncOut::Panic => "panic".to_string(),
        };
        let room = spec.room.map(|r| r.to_string()).unwrap_or("-".to_string());
        let req = format!("c14 encsink {} {} {} {}", csv(&spec.sched), spec.tail, room, ops.iter().map(op_tok).collect::<Vec<_>>().join(" "));
        let req = req.trim_end().to_string();
        self.out.case(&req, !data.is_empty());
        for k in kind.split(',') {
            self.out.hist(&format!("encsink:{k}"));
        }
        self.out.hist(match &got {
            EncOut::Ok(_) => "encsink:end=ok",
            EncOut::IoErr => "encsink:end=ioerr",
            EncOut::Panic => "encsink:end=panic",
        });
        if self.seen.insert(req.clone()) {
            self.out.corr(&req, &got_s);
        }
        let expected = rfc_encode(&data);
        let input = json!({"op": "encsink", "ops": ops.iter().map(op_tok).collect::<Vec<_>>(), "data": hex(&data),
            "sched": spec.sched, "tail": spec.tail, "room": spec.room});
        match &got {
            EncOut::Ok(_) => {
                // the verified specification applied to the data must give what arrived
                if self.sink_spec_seen.insert((data.clone(), arrived.clone())) {
                    self.out.oracle(&format!("c14 spec {}", hex(&data)), &hex(&arrived));
                }
                if arrived != expected {
                    self.out.fail(
                        "Base64Encoder reports success but the text that arrived in the inner writer is not the RFC 4648 encoding of the written bytes",
                        input,
                        json!(format!("ok {}", hex(&expected))),
                        json!(got_s),
                    );
                }
            }
            EncOut::IoErr if spec.room.is_none() => {
                self.out.fail("Base64Encoder reports an I/O error although the inner writer never fails", input, json!(format!("ok {}", hex(&expected))), json!(got_s));
            }
            EncOut::IoErr => {}
            EncOut::Panic => {
                self.out.fail("Base64Encoder panics", input, json!(format!("ok {}", hex(&expected))), json!(got_s));
            }
        }
        if self.out.evaluations % 1013 == 1 {
            self.out.sample(json!({"request": req.chars().take(300).collect::<String>(), "impl": got_s.chars().take(300).collect::<String>()}));
        }
    }

    /// The client of the decoder inside the crate: `Deserialize for Image` (src/image.rs) runs the `data` text of a
    /// document through `Base64Decoder` + `read_to_end`. Judged from the RAW pieces: a text whose length is not a
    /// multiple of four must make the document fail; the RFC text of `h*w*channels` bytes must give exactly the
    /// pixels those bytes spell (built here, not with the crate's helpers).
    fn image_case(&mut self, kind: &str, h: usize, w: usize, channels: usize, text: &[u8], plain: Option<&[u8]>, variant: u64) {
        use surf_n_term::Surface;
        let text_s = String::from_utf8_lossy(text).to_string();
        // the three fields in different orders, as a parsed value or as a document string
        let doc = match variant % 3 {
            0 => format!("{{\"size\":[{h},{w}],\"channels\":{channels},\"data\":{}}}", serde_json::to_string(&text_s).unwrap()),
            1 => format!("{{\"data\":{},\"size\":[{h},{w}],\"channels\":{channels}}}", serde_json::to_string(&text_s).unwrap()),
            _ => format!("{{\"channels\":{channels},\"data\":{},\"ignored\":[1,2],\"size\":[{h},{w}]}}", serde_json::to_string(&text_s).unwrap()),
        };
        let mut accessors_agree = true;
        let mut serialized: Option<Vec<u8>> = None;
        let r = guarded(|| -> Result<(usize, usize, Vec<u8>), String> {
            let img: surf_n_term::Image = if variant % 2 == 0 {
                serde_json::from_str(&doc).map_err(|e| e.to_string())?
            } else {
                let v: Value = serde_json::from_str(&doc).map_err(|e| e.to_string())?;
                serde_json::from_value(v).map_err(|e| e.to_string())?
            };
            // pixels read from the backing slice with the offsets computed here from the public shape fields
            let sh = img.shape();
            let raw = img.data();
            let mut px = Vec::new();
            let mut agree = true;
            for row in 0..sh.height {
                for col in 0..sh.width {
                    let c = raw[sh.start + row * sh.row_stride + col * sh.col_stride];
                    px.extend([c.red(), c.green(), c.blue(), c.alpha()]);
                    agree &= img.get(surf_n_term::Position { row, col }) == Some(&c);
                }
            }
            agree &= img.iter().count() == sh.height * sh.width && img.height() == sh.height && img.width() == sh.width;
            accessors_agree = agree;
            // the encoder's client: `Serialize for Image` (one `write_all` of four bytes per pixel, `finish`)
            let v = serde_json::to_value(&img).map_err(|e| format!("serialize: {e}"))?;
            serialized = v["data"].as_str().map(|t| t.as_bytes().to_vec());
            Ok((sh.height, sh.width, px))
        });
        let got_s = match &r {
            Err(()) => "panic".to_string(),
            Ok(Err(_)) => "reject".to_string(),
            Ok(Ok((_, _, px))) => format!("ok {}", hex(px)),
        };
        let req = format!("c14 image {h} {w} {channels} {}", hex(text));
        self.out.case(&req, !text.is_empty());
        self.out.hist(&format!("image:{kind}"));
        self.out.hist(&format!("image:{}", got_s.split(' ').next().unwrap_or("")));
        if self.seen.insert(req.clone()) {
            self.out.corr(&req, &got_s);
        }
        // the crate's accessors used nowhere above, cross-checked against the raw reading (a disagreement is a
        // broken tie, reported as a correspondence mismatch: the model always answers `agree`)
        if matches!(r, Ok(Ok(_))) && (!accessors_agree || self.seen.insert("selfcheck".to_string())) {
            self.out.corr("c14 selfcheck image-accessors", if accessors_agree { "agree" } else { "Surface::get/iter/height/width disagree with the backing data" });
        }
        let input = json!({"op": "image", "h": h, "w": w, "channels": channels, "text": hex(text), "plain": plain.map(hex), "variant": variant});
        if matches!(r, Err(())) {
            self.out.fail("Image deserialisation panics on a base64 data text", input, json!("no panic"), json!("panic"));
        } else if text.len() % 4 != 0 {
            if !matches!(r, Ok(Err(_))) {
                self.out.fail(
                    "an image document whose data text has a length that is not a multiple of four is accepted (the text is silently truncated)",
                    input,
                    json!("reject"),
                    json!(got_s.chars().take(200).collect::<String>()),
                );
            }
        } else if let Some(d) = plain {
            if d.len() == h * w * channels {
                let mut want = Vec::new();
                for p in d.chunks(channels) {
                    match channels {
                        1 => want.extend([p[0], p[0], p[0], 255]),
                        3 => want.extend([p[0], p[1], p[2], 255]),
                        _ => want.extend([p[0], p[1], p[2], p[3]]),
                    }
                }
                if r == Ok(Ok((h, w, want.clone()))) && serialized != Some(rfc_encode(&want)) {
                    self.out.fail(
                        "serialising an image does not give the RFC 4648 text of its RGBA bytes in the data field",
                        input.clone(),
                        json!(hex(&rfc_encode(&want)).chars().take(200).collect::<String>()),
                        json!(serialized.as_deref().map(hex).unwrap_or("no data field".to_string()).chars().take(200).collect::<String>()),
                    );
                }
                if r != Ok(Ok((h, w, want.clone()))) {
                    self.out.fail(
                        "an image document with the RFC 4648 text of its pixels is not read back as these pixels",
                        input,
                        json!(format!("ok {}", hex(&want)).chars().take(200).collect::<String>()),
                        json!(got_s.chars().take(200).collect::<String>()),
                    );
                }
            }
        }
    }

    /// Out of the property's scope, exercised for the record (level_note): the underlying reader fails ONCE with a
    /// transient error other than `Interrupted` (`WouldBlock`) and then goes on. `buffer_fill` returns the error
    /// to the caller and forgets the 1-3 bytes of the group it had already taken from the reader, so a caller
    /// that retries gets a shifted stream. Judged here: no panic, and the reader's error reaches the caller.
    /// Counted only: whether d still arrives when the caller retries.
    fn wouldblock_case(&mut self, data: &[u8], per_call: usize, fail_at: usize, size: usize) {
        let text = rfc_encode(data);
        let mut dec = Base64Decoder::new(SchedReader {
            data: text.clone(),
            pos: 0,
            sched: vec![],
            tail: per_call,
            call: 0,
            fail_at: Some(fail_at),
            ncalls: 0,
        });
        let mut buf = vec![0u8; size];
        let mut got = Vec::new();
        let mut errors = 0;
        let mut panicked = false;
        for _ in 0..8 * (text.len() + 1) + 64 {
            match guarded(|| dec.read(&mut buf)) {
                Err(()) => {
                    panicked = true;
                    break;
                }
                Ok(Err(_)) => errors += 1,
                Ok(Ok(0)) => break,
                Ok(Ok(k)) => got.extend_from_slice(&buf[..k.min(size)]),
            }
            if errors > 3 {
                break;
            }
        }
        self.out.case(&format!("wouldblock {} {per_call} {fail_at} {size}", hex(data)), true);
        self.out.hist(if got == data { "wouldblock:retry-intact" } else { "wouldblock:retry-corrupt(out of scope)" });
        let input = json!({"op": "wouldblock", "data": hex(data), "per_call": per_call, "fail_at": fail_at, "size": size});
        if panicked {
            self.out.fail("Base64Decoder panics after a transient reader error", input, json!("no panic"), json!("panic"));
        } else if errors == 0 && got != data {
            self.out.fail(
                "an error of the underlying reader is swallowed and the decoded bytes are wrong",
                input,
                json!("the reader's error is returned to the caller"),
                json!(format!("no error, {}", hex(&got))),
            );
        }
    }

    /// `plain`: `Some(d)` when `text` is the RFC encoding of `d` (round-trip obligation), `None` for arbitrary text
    fn dec_case(&mut self, kind: &str, text: &[u8], plain: Option<&[u8]>, sched: &Sched, dst: &Dst) {
        let exact_len = plain.map(|d| d.len()).unwrap_or(text.len() / 4 * 3);
        let run = run_decoder(text, sched, dst, 2, exact_len);
        let req = format!("c14 dec {} {} {} {}", hex(text), csv(&sched.0), sched.1, csv(&run.sizes));
        let ans = if run.trace.is_empty() { "-".to_string() } else { run.trace.join(",") };
        self.out.case(&req, !text.is_empty());
        for k in kind.split(',') {
            self.out.hist(&format!("dec:{k}"));
        }
        self.out.hist(&format!("dec:len%4={}", text.len() % 4));
        self.out.hist(match run.end {
            End::Eof => "dec:end=eof",
            End::Error => "dec:end=error",
            End::Panic => "dec:end=panic",
            End::Pending => "dec:end=pending",
        });
        if self.seen.insert(req.clone()) {
            self.out.corr(&req, &ans);
        }
        let input = json!({"op": "dec", "text": hex(text), "plain": plain.map(hex), "sched": sched.0, "tail": sched.1, "sizes": dst.json()});
        self.judge_dec(text, plain, &run, input, &ans);
        if self.out.evaluations % 1013 == 1 {
            self.out.sample(json!({"request": req.chars().take(300).collect::<String>(), "impl": ans.chars().take(300).collect::<String>()}));
        }
    }

    /// The decoder over readers that are NOT the harness' schedule reader: `&[u8]`, `Cursor`, `BufReader` with a
    /// tiny buffer, `Chain`, `VecDeque`, `Take`, and the crate's own `IOQueue` filled chunk by chunk. Every call the
    /// decoder makes on the reader is recorded; the recorded per-call amounts are the schedule of the model
    /// request, so the run is compared call by call with the model, and judged by the same oracle.
    fn foreign_case(&mut self, kind: usize, text: &[u8], plain: Option<&[u8]>, dst: &Dst, rng: &mut Rng) {
        use std::io::{BufReader, Cursor};
        let rec = std::rc::Rc::new(std::cell::RefCell::new(Vec::<usize>::new()));
        let exact_len = plain.map(|d| d.len()).unwrap_or(text.len() / 4 * 3);
        let cut = rng.below(text.len() as u64 + 1) as usize;
        let (name, run) = match kind % 7 {
            0 => ("reader=slice", run_decoder_over(Recorder { inner: text, rec: rec.clone() }, text.len(), dst, 2, exact_len)),
            1 => ("reader=cursor", run_decoder_over(Recorder { inner: Cursor::new(text.to_vec()), rec: rec.clone() }, text.len(), dst, 2, exact_len)),
            2 => {
                let cap = 1 + rng.below(7) as usize;
                ("reader=bufreader", run_decoder_over(Recorder { inner: BufReader::with_capacity(cap, Cursor::new(text.to_vec())), rec: rec.clone() }, text.len(), dst, 2, exact_len))
            }
            3 => ("reader=chain", run_decoder_over(Recorder { inner: (&text[..cut]).chain(&text[cut..]), rec: rec.clone() }, text.len(), dst, 2, exact_len)),
            4 => {
                // a ring buffer that wraps: its `read` stops at the wrap
                let mut q = std::collections::VecDeque::with_capacity(text.len() + 1);
                for _ in 0..cut {
                    q.push_back(0u8);
                }
                for _ in 0..cut {
                    q.pop_front();
                }
                q.extend(text.iter().copied());
                ("reader=vecdeque", run_decoder_over(Recorder { inner: q, rec: rec.clone() }, text.len(), dst, 2, exact_len))
            }
            5 => ("reader=take", run_decoder_over(Recorder { inner: Cursor::new(text.to_vec()).take(text.len() as u64), rec: rec.clone() }, text.len(), dst, 2, exact_len)),
            _ => {
                // the crate's queue: one chunk per write + flush, no empty chunk in the middle
                let mut q = surf_n_term::common::IOQueue::new();
                let mut at = 0;
                while at < text.len() {
                    let k = (1 + rng.below(9) as usize).min(text.len() - at);
                    q.write_all(&text[at..at + k]).unwrap();
                    q.flush().unwrap();
                    at += k;
                }
                ("reader=ioqueue", run_decoder_over(Recorder { inner: q, rec: rec.clone() }, text.len(), dst, 2, exact_len))
            }
        };
        let sched: Vec<usize> = rec.borrow().clone();
        let req = format!("c14 dec {} {} 0 {}", hex(text), csv(&sched), csv(&run.sizes));
        let ans = if run.trace.is_empty() { "-".to_string() } else { run.trace.join(",") };
        self.out.case(&req, !text.is_empty());
        self.out.hist(&format!("dec:{name}"));
        if self.seen.insert(req.clone()) {
            self.out.corr(&req, &ans);
        }
        let input = json!({"op": "dec", "text": hex(text), "plain": plain.map(hex), "sched": sched, "tail": 0, "sizes": dst.json(), "reader": name});
        self.judge_dec(text, plain, &run, input, &ans);
    }

    /// the property, applied to one run of the decoder (whatever the reader and the way of reading)
    fn judge_dec(&mut self, text: &[u8], plain: Option<&[u8]>, run: &DecRun, input: Value, ans: &str) {
        if run.end == End::Panic {
            self.out.fail("Base64Decoder panics", input, json!("no panic"), json!(ans));
        } else if let Some(d) = plain {
            // schedules with `Interrupted` included: the contract of `Read` says such a call is to be retried,
            // so the text must still decode to d (C14_decode covers them)
            if run.end != End::Eof || run.bytes != d {
                self.out.fail(
                    "decoding the RFC 4648 text of d through a chunked reader does not return d followed by end of input",
                    input,
                    json!(format!("eof {}", hex(d))),
                    json!(format!("{:?} {}", run.end, hex(&run.bytes))),
                );
            }
        } else if text.len() % 4 != 0 && run.end != End::Error {
            self.out.fail(
                "text whose length is not a multiple of four is read to its end without an error",
                input,
                json!("an error before end of input"),
                json!(format!("{:?} {}", run.end, hex(&run.bytes))),
            );
        }
    }
}

fn random_bytes(rng: &mut Rng, n: usize) -> Vec<u8> {
    (0..n).map(|_| rng.next() as u8).collect()
}

fn schedules(rng: &mut Rng, text_len: usize, thorough: bool) -> Vec<(&'static str, Sched)> {
    let n = text_len + 8;
    let mut v: Vec<(&'static str, Sched)> = vec![("sched=all", (vec![], 0))];
    for (name, k) in [("sched=1", 1usize), ("sched=2", 2), ("sched=3", 3), ("sched=4", 4), ("sched=5", 5), ("sched=7", 7), ("sched=64", 64)] {
        v.push((name, (vec![], k)));
    }
    v.push(("sched=random", ((0..n).map(|_| 1 + rng.below(5) as usize).collect(), 1 + rng.below(3) as usize)));
    v.push(("sched=interrupts", ((0..n + n / 2).map(|_| rng.below(4) as usize).collect(), rng.below(3) as usize)));
    if thorough {
        v.push(("sched=random", ((0..n).map(|_| 1 + rng.below(9) as usize).collect(), rng.below(9) as usize)));
        v.push(("sched=short-then-all", ((0..rng.below(n as u64 + 1) as usize).map(|_| 1 + rng.below(3) as usize).collect(), 0)));
    }
    v
}

fn sinks(rng: &mut Rng, text_len: usize) -> Vec<(&'static str, SinkSpec)> {
    let n = text_len + 8;
    let mut v: Vec<(&'static str, SinkSpec)> = Vec::new();
    for (name, k) in [("sink=1", 1usize), ("sink=2", 2), ("sink=3", 3), ("sink=4", 4), ("sink=5", 5)] {
        v.push((name, SinkSpec { sched: vec![], tail: k, room: None }));
    }
    v.push(("sink=random", SinkSpec { sched: (0..n).map(|_| 1 + rng.below(5) as usize).collect(), tail: rng.below(4) as usize, room: None }));
    v.push(("sink=interrupts", SinkSpec { sched: (0..n + n / 2).map(|_| rng.below(5) as usize).collect(), tail: rng.below(3) as usize, room: None }));
    // a writer that becomes full (like a fixed slice): success only if the whole text fits
    v.push(("sink=full", SinkSpec { sched: (0..rng.below(8) as usize).map(|_| rng.below(4) as usize).collect(), tail: rng.below(4) as usize, room: Some(rng.below(text_len as u64 + 3) as usize) }));
    v
}

fn size_patterns(rng: &mut Rng, thorough: bool) -> Vec<(&'static str, Dst)> {
    let mut v: Vec<(&'static str, Dst)> = vec![
        ("dst=1", Dst::Sizes(vec![1])),
        ("dst=2", Dst::Sizes(vec![2])),
        ("dst=3", Dst::Sizes(vec![3])),
        ("dst=63", Dst::Sizes(vec![63])),
        ("dst=64", Dst::Sizes(vec![64])),
        ("dst=65", Dst::Sizes(vec![65])),
        ("dst=4096", Dst::Sizes(vec![4096])),
        ("dst=read_to_end", Dst::ToEnd),
        ("dst=read_to_string", Dst::ToString),
        ("dst=read_exact", Dst::Exact),
        ("dst=bytes", Dst::Bytes),
        ("dst=0,1", Dst::Sizes(vec![0, 1])),
        ("dst=0,0,5", Dst::Sizes(vec![0, 0, 5])),
    ];
    // at most 8 entries, the last one non-empty (the cap of `run_sizes` relies on it)
    v.push(("dst=random", Dst::Sizes((0..7).map(|_| *rng.pick(&[0usize, 1, 2, 3, 4, 5, 7, 20, 62, 63, 64, 65, 66, 130])).chain([1]).collect())));
    if thorough {
        v.push(("dst=random", Dst::Sizes((0..5).map(|_| rng.below(200) as usize).chain([3]).collect())));
        v.push(("dst=61", Dst::Sizes(vec![61])));
        v.push(("dst=62", Dst::Sizes(vec![62])));
        v.push(("dst=126", Dst::Sizes(vec![126])));
    }
    v
}

fn writes(chunks: Vec<Vec<u8>>) -> Vec<Op> {
    chunks.into_iter().map(Op::Write).collect()
}

/// `flush` after every write (every carry state 0, 1, 2 sees a flush), at the start and before `finish`
fn flush_every(chunks: Vec<Vec<u8>>) -> Vec<Op> {
    let mut ops = vec![Op::Flush];
    for c in chunks {
        ops.push(Op::Write(c));
        ops.push(Op::Flush);
    }
    ops
}

fn partitions(rng: &mut Rng, data: &[u8], thorough: bool) -> Vec<(&'static str, Vec<Op>)> {
    let n = data.len();
    let every = |k: usize| -> Vec<usize> { (1..).map(|i| i * k).take_while(|c| *c < n).collect() };
    let mut v = vec![
        ("part=whole", writes(vec![data.to_vec()])),
        ("part=1", writes(split(data, &every(1)))),
        ("part=2", writes(split(data, &every(2)))),
        ("part=4", writes(split(data, &every(4)))),
        ("part=1+flush", flush_every(split(data, &every(1)))),
        ("part=4+flush", flush_every(split(data, &every(4)))),
    ];
    let reps = if thorough { 6 } else { 2 };
    for r in 0..reps {
        let k = rng.below(n as u64 / 2 + 3) as usize;
        let mut cuts: Vec<usize> = (0..k).map(|_| rng.below(n as u64 + 1) as usize).collect();
        cuts.sort();
        if r % 2 == 0 {
            v.push(("part=random", writes(split(data, &cuts))));
        } else {
            // flush calls at random points of the partition
            let mut ops = Vec::new();
            for c in split(data, &cuts) {
                while rng.chance(1, 3) {
                    ops.push(Op::Flush);
                }
                ops.push(Op::Write(c));
            }
            if rng.chance(1, 2) {
                ops.push(Op::Flush);
            }
            v.push(("part=random+flush", ops));
        }
    }
    v
}

/// data in which every sextet value occurs in each of the four positions of a group, and every byte value in
/// each of the three byte positions
fn covering_data() -> Vec<Vec<u8>> {
    let mut all_sextets = Vec::new();
    for s in 0..64u32 {
        let n = (s << 18) | (s << 12) | (s << 6) | s;
        all_sextets.extend([(n >> 16) as u8, (n >> 8) as u8, n as u8]);
    }
    let mut all_bytes = Vec::new();
    for b in 0..=255u8 {
        all_bytes.extend([b, b, b]);
    }
    vec![all_sextets, all_bytes]
}

fn malformed(rng: &mut Rng, len: usize) -> (&'static str, Vec<u8>) {
    let alpha = rfc_alphabet();
    match rng.below(6) {
        0 => ("mal=bytes", random_bytes(rng, len)),
        1 => ("mal=alphabet", (0..len).map(|_| *rng.pick(&alpha)).collect()),
        2 => ("mal=alphabet+pad", (0..len).map(|_| if rng.chance(1, 4) { b'=' } else { *rng.pick(&alpha) }).collect()),
        3 => {
            // valid text with a piece cut off or a byte inserted
            let mut t = rfc_encode(&random_bytes(rng, len));
            if !t.is_empty() && rng.chance(1, 2) {
                let k = 1 + rng.below(3.min(t.len() as u64)) as usize;
                t.truncate(t.len() - k);
            } else {
                let at = rng.below(t.len() as u64 + 1) as usize;
                t.insert(at, *rng.pick(&[b'\n', b' ', b'=', b'A', 0u8, 255u8]));
            }
            ("mal=damaged", t)
        }
        4 => {
            // padded groups in the middle: buffer sizes 61, 62, 64 are reachable only this way
            let mut t = Vec::new();
            while t.len() < len {
                let k = 1 + rng.below(3) as usize;
                t.extend(rfc_encode(&random_bytes(rng, k)));
            }
            if rng.chance(1, 3) {
                t.truncate(len);
            }
            ("mal=padded-groups", t)
        }
        _ => ("mal=mixed", (0..len).map(|_| if rng.chance(1, 8) { rng.next() as u8 } else { *rng.pick(&alpha) }).collect()),
    }
}

fn write_tables(cfg: &Cfg, names: &[String]) {
    fn rows(l: &[u8]) -> String {
        l.chunks(16)
            .map(|c| format!("   {}", c.iter().map(|x| x.to_string()).collect::<Vec<_>>().join(", ")))
            .collect::<Vec<_>>()
            .join(",\n")
    }
    for name in names {
        assert_eq!(name, "Base64Tables", "c14 generates only Base64Tables");
        let enc = surf_n_term::encoder::verif_c14::base64_encode_table();
        let dec = surf_n_term::decoder::verif_c14::base64_decode_table();
        let mut s = String::new();
        s.push_str("/-! GENERATED by `c14 tables` from the current build of /repo (hooks encoder::verif_c14, decoder::verif_c14). Do not edit. -/\n");
        s.push_str("namespace SurfModel.Generated.Base64Tables\n\n");
        s.push_str(&format!("/-- `BASE64_ENCODE` of src/encoder.rs -/\ndef encodeTable : List Nat := [\n{}]\n\n", rows(&enc)));
        s.push_str(&format!("/-- `BASE64_DECODE` of src/decoder.rs -/\ndef decodeTable : List Nat := [\n{}]\n\n", rows(&dec)));
        s.push_str("end SurfModel.Generated.Base64Tables\n");
        std::fs::write(cfg.outdir.join(format!("{name}.lean")), s).unwrap();
    }
}

fn unhex(s: &str) -> Vec<u8> {
    if s == "-" {
        return vec![];
    }
    (0..s.len() / 2).map(|i| u8::from_str_radix(&s[2 * i..2 * i + 2], 16).unwrap_or(0)).collect()
}

fn usizes(v: &Value) -> Vec<usize> {
    v.as_array().map(|a| a.iter().filter_map(|x| x.as_u64()).map(|x| x as usize).collect()).unwrap_or_default()
}

fn replay(ctx: &mut Ctx, input: &Value) {
    match input["op"].as_str() {
        Some("enc") => {
            let toks = if input["ops"].is_array() { &input["ops"] } else { &input["chunks"] };
            let ops: Vec<Op> = toks
                .as_array()
                .map(|a| {
                    a.iter()
                        .map(|c| match c.as_str().unwrap_or("-") {
                            "flush" => Op::Flush,
                            h => Op::Write(unhex(h)),
                        })
                        .collect()
                })
                .unwrap_or_default();
            ctx.enc_case("replay", &ops);
        }
        Some("dec") => {
            let text = unhex(input["text"].as_str().unwrap_or("-"));
            let plain = input["plain"].as_str().map(unhex);
            let dst = match input["sizes"].as_str() {
                Some("read_to_end") => Dst::ToEnd,
                Some("read_to_string") => Dst::ToString,
                Some("read_exact") => Dst::Exact,
                Some("bytes") => Dst::Bytes,
                _ => {
                    let mut pattern = usizes(&input["sizes"]);
                    if pattern.is_empty() {
                        pattern.push(1);
                    }
                    Dst::Sizes(pattern)
                }
            };
            let sched: Sched = (usizes(&input["sched"]), input["tail"].as_u64().unwrap_or(0) as usize);
            ctx.dec_case("replay", &text, plain.as_deref(), &sched, &dst);
        }
        Some("encsink") => {
            let ops: Vec<Op> = input["ops"]
                .as_array()
                .map(|a| {
                    a.iter()
                        .map(|c| match c.as_str().unwrap_or("-") {
                            "flush" => Op::Flush,
                            h => Op::Write(unhex(h)),
                        })
                        .collect()
                })
                .unwrap_or_default();
            let spec = SinkSpec {
                sched: usizes(&input["sched"]),
                tail: input["tail"].as_u64().unwrap_or(0) as usize,
                room: input["room"].as_u64().map(|r| r as usize),
            };
            ctx.enc_sink_case("replay", &spec, &ops);
        }
        Some("image") => {
            let g = |k: &str| input[k].as_u64().unwrap_or(0) as usize;
            let plain = input["plain"].as_str().map(unhex);
            ctx.image_case("replay", g("h"), g("w"), g("channels"), &unhex(input["text"].as_str().unwrap_or("-")), plain.as_deref(), input["variant"].as_u64().unwrap_or(0));
        }
        Some("wouldblock") => {
            let g = |k: &str| input[k].as_u64().unwrap_or(1) as usize;
            ctx.wouldblock_case(&unhex(input["data"].as_str().unwrap_or("-")), g("per_call"), g("fail_at"), g("size").max(1));
        }
        _ => {}
    }
}

const RULE: &str = "encoder: every length 0..=L (L = 200 quick / 400 thorough) of random bytes plus all-sextet / all-byte covering data, each in the partitions whole, 1, 2, 4 and random cuts (empty chunks included), with and without flush() calls (after every write, at random points), each over a Vec and over inner writers with short writes {1, 2, 3, 4, 5 bytes per call for ever, random 1..5, random with Interrupted, a writer that becomes full} - judged on the text that ARRIVED in the writer; decoder round trip: RFC text of the same data x reader schedules {unrestricted, 1, 2, 3, 4, 5, 7, 64 per call for ever, random 1..5 per call, random with Interrupted} x destinations {read sizes 1, 2, 3, 63, 64, 65, 4096, zero-length buffers first, random mix incl. 0; read_to_end; read_to_string on UTF-8 data; read_exact + read_to_end; bytes()}; the same over foreign readers {&[u8], Cursor, BufReader with a 1..7 byte buffer, Chain, wrapped VecDeque, Take, the crate's IOQueue filled chunk by chunk} whose per-call deliveries are recorded and become the model's schedule (every read call std makes is recorded and compared) (full product up to length 400, two data per white-box length 0-4, 46-50, 62-67, 83-86, 93-97, 125-128, 189-192; a rotating quarter of the product for the long random data of the thorough tier); malformed: random bytes, alphabet-only text of every length mod 4, stray padding, damaged valid text, padded groups in mid-stream (reaches buffer sizes 61, 62, 64); client path: image documents (serde_json, three field orders, from_str / from_value) whose data text has k whole groups for every k in 0..=130 (400 thorough) + 1..3 stray symbols with size fields matching the whole groups (must be rejected), the well-formed ones (pixels compared with the raw bytes), wrong sizes, cut texts; transient WouldBlock of the reader: no panic, error not swallowed (no correspondence; out of the property's scope); non-trivial = non-empty data/text; distinct by request line";

fn main() {
    let cfg = Cfg::from_env();
    if let Some(names) = &cfg.tables {
        write_tables(&cfg, names);
        return;
    }
    silence_panics();
    let mut ctx = Ctx { out: cfg.out(), seen: HashSet::new(), spec_seen: HashSet::new(), sink_spec_seen: HashSet::new() };
    if let Some(r) = &cfg.replay {
        let input = r["failure"]["input"].clone();
        replay(&mut ctx, &input);
        ctx.out.finish("replay of one recorded input");
        return;
    }
    let mut rng = Rng::new(cfg.seed);
    let max_len: usize = if cfg.thorough { 400 } else { 200 };
    // lengths where the streaming state matters: 3-byte carry, 63/64-byte decode buffer (84/88 characters of
    // text = 63/66 bytes), two buffers
    let whitebox = |n: usize| n <= 4 || (46..=50).contains(&n) || (62..=67).contains(&n) || (83..=86).contains(&n)
        || (93..=97).contains(&n) || (125..=128).contains(&n) || (189..=192).contains(&n);

    let mut datas: Vec<Vec<u8>> = Vec::new();
    for n in 0..=max_len {
        datas.push(random_bytes(&mut rng, n));
        if cfg.thorough || whitebox(n) {
            datas.push(random_bytes(&mut rng, n));
        }
    }
    datas.push(vec![0u8; 66]);
    datas.push(vec![255u8; 65]);
    // valid UTF-8 (for `read_to_string`): ASCII of the white-box lengths and some multi-byte text
    for n in (0..=max_len).filter(|n| whitebox(*n) || n % 23 == 0) {
        datas.push((0..n).map(|_| 32 + rng.below(95) as u8).collect());
    }
    for _ in 0..8 {
        let k = rng.below(70) as usize;
        let t: String = (0..k).map(|_| *rng.pick(&['a', 'é', '€', '𝄞', ' ', 'ß', '中'])).collect();
        datas.push(t.into_bytes());
    }
    datas.extend(covering_data());
    // single writes / reads beyond the page-sized buffers std and the crate work with (4096, 8192): in every tier
    for n in [4097usize, 8193] {
        datas.push(random_bytes(&mut rng, n));
    }
    if cfg.thorough {
        for _ in 0..40 {
            let n = 401 + rng.below(6000) as usize;
            datas.push(random_bytes(&mut rng, n));
        }
    }

    let mut rot = 0usize;
    for data in &datas {
        let text_len = 4 * data.len().div_ceil(3);
        for (kind, ops) in partitions(&mut rng, data, cfg.thorough) {
            ctx.enc_case(kind, &ops);
            // the same partition over inner writers with short writes
            for (sk, spec) in sinks(&mut rng, text_len) {
                ctx.enc_sink_case(&format!("{sk},{kind}"), &spec, &ops);
            }
        }
        let text = rfc_encode(data);
        let scheds = schedules(&mut rng, text.len(), cfg.thorough);
        let pats = size_patterns(&mut rng, cfg.thorough);
        let full = data.len() <= 400 || whitebox(data.len());
        for (si, (sk, sched)) in scheds.iter().enumerate() {
            for (pi, (pk, pat)) in pats.iter().enumerate() {
                // elsewhere: a rotating quarter of the product (every schedule and every size still occur
                // for every length class over a few consecutive lengths)
                if !full && (si + pi + rot) % 4 != 0 {
                    continue;
                }
                // `read_to_string` rejects plain bytes that are not UTF-8: outside the property
                if *pat == Dst::ToString && std::str::from_utf8(data).is_err() {
                    continue;
                }
                ctx.dec_case(&format!("{sk},{pk}"), &text, Some(data), sched, pat);
            }
        }
        // other readers than the schedule reader, each with two ways of reading
        for kind in 0..7 {
            for _ in 0..2 {
                let (_, pat) = rng.pick(&pats).clone();
                if pat == Dst::ToString && std::str::from_utf8(data).is_err() {
                    continue;
                }
                ctx.foreign_case(kind, &text, Some(data), &pat, &mut rng);
            }
        }
        rot += 1;
    }

    // malformed text
    let n_mal = if cfg.thorough { 300_000 } else { 20_000 };
    for i in 0..n_mal {
        let len = match rng.below(4) {
            0 => rng.below(12) as usize,
            1 => 80 + rng.below(12) as usize,
            2 => rng.below(200) as usize,
            _ => (i % 100) as usize,
        };
        let (kind, text) = malformed(&mut rng, len);
        let scheds = schedules(&mut rng, text.len(), false);
        let pats = size_patterns(&mut rng, false);
        let (_, sched) = rng.pick(&scheds).clone();
        let (_, mut pat) = rng.pick(&pats).clone();
        if pat == Dst::ToString {
            pat = Dst::ToEnd; // an InvalidData error of `read_to_string` would hide a missing decode error
        }
        ctx.dec_case(kind, &text, None, &sched, &pat);
        if i % 4 == 0 {
            ctx.foreign_case(rng.below(7) as usize, &text, None, &pat, &mut rng);
        }
    }
    // the crate's client of the decoder: image documents. k whole groups (every k up to K: the decoder refills
    // 21 groups at a time, so every multiple of 21 and its neighbours are there) + r stray symbols, size fields
    // matching the whole groups; and the well-formed documents
    let kmax = if cfg.thorough { 400 } else { 130 };
    let alpha = rfc_alphabet();
    for k in 0..=kmax {
        for channels in [1usize, 3, 4] {
            // payload of exactly k whole groups for this channel count where possible, else padded
            let n = if channels == 4 { 3 * k / 4 * 4 } else { 3 * k };
            let data = random_bytes(&mut rng, n);
            let text = rfc_encode(&data);
            let (h, w) = if rng.chance(1, 2) { (1, n / channels) } else { (n / channels, 1) };
            ctx.image_case("wellformed", h, w, channels, &text, Some(&data), rng.next());
            if channels != 4 || 3 * k % 4 == 0 || rng.chance(1, 4) {
                for r in 1..=3usize {
                    let mut t = text.clone();
                    for _ in 0..r {
                        t.push(*rng.pick(&alpha));
                    }
                    ctx.image_case(&format!("stray{r}"), h, w, channels, &t, None, rng.next());
                }
            }
        }
        // a payload that ends in a padded group, then stray symbols; wrong size fields; a cut text
        let n = 3 * k + 1 + rng.below(2) as usize;
        let data = random_bytes(&mut rng, n);
        let mut t = rfc_encode(&data);
        ctx.image_case("wrong-size", 1, n + 1, 1, &t, Some(&data), rng.next());
        let cut = 1 + rng.below(3) as usize;
        let mut c = t.clone();
        c.truncate(c.len() - cut);
        ctx.image_case("cut", 1, n, 1, &c, None, rng.next());
        t.push(*rng.pick(&alpha));
        ctx.image_case("stray-after-pad", 1, n, 1, &t, None, rng.next());
    }

    // transient reader error (out of scope, see `wouldblock_case`)
    let n_wb = if cfg.thorough { 20_000 } else { 1_500 };
    for _ in 0..n_wb {
        let n = rng.below(120) as usize;
        let data = random_bytes(&mut rng, n);
        let per_call = 1 + rng.below(5) as usize;
        let calls = (4 * n.div_ceil(3)).div_ceil(per_call) + 2;
        let fail_at = rng.below(calls as u64) as usize;
        let size = *rng.pick(&[1usize, 3, 64, 100]);
        ctx.wouldblock_case(&data, per_call, fail_at, size);
    }
    ctx.out.extra("lengths_exhaustive_up_to", json!(max_len));
    ctx.out.finish(RULE);
}
