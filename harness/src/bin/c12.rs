//! C12: bytes written by `SixelImageHandler::draw`.
//!
//! * ORACLE (Rust): an independent sixel decoder (recursive descent over the byte string, written from
//!   the VT340 sixel chapter) must accept the bytes as ONE well-formed DCS q … ST sequence and give a
//!   raster of the declared size (full width, height truncated to a multiple of six) with every pixel
//!   painted, nothing painted outside, at most 256 registers defined; when the source has at most 256
//!   distinct colours at 0-100 resolution and is not subsampled, the raster equals the source at that
//!   resolution, pixel for pixel (transparent pixels composited over the background first).
//!   Two draws of one image on ONE handler must give identical bytes.
//! * ORACLE (Lean): the verified reference interpreter `SurfModel.Sixel.sixel` is run on the
//!   implementation's bytes (`c12 dec`, `c12 sum`) and must print the expected raster.
//! * CORRESPONDENCE: the Lean model of the encoder, given `(palette, qimg)` obtained through the public
//!   API (`Image::quantize` on the channel-reduced image, as `draw` does), must give the implementation's
//!   bytes after canonicalisation (colour lines of every band sorted by colour number) — never raw bytes,
//!   because the `HashMap` order differs between handler instances.
use serde_json::{Value, json};
use std::collections::{BTreeMap, BTreeSet};
use surf_n_term::{
    Color, Image, ImageHandler, Position, RGBA, Shape, SixelImageHandler, Size, Surface, SurfaceOwned,
};
use verif_harness::{Cfg, r#gen::Rng, guarded, out::Out, out::hex};

// ---------------------------------------------------------------------------------------------
// independent sixel decoder
// ---------------------------------------------------------------------------------------------

#[derive(Debug, Clone, PartialEq)]
enum Tok {
    Raster(Vec<u32>),
    Color(Vec<u32>),
    Data { count: u32, ch: u8 },
    Cr,
    Nl,
}

/// one token with the bytes it was read from
struct Lexed {
    tok: Tok,
    start: usize,
    end: usize,
}

fn params(b: &[u8], i: &mut usize) -> Result<Vec<u32>, String> {
    // Pn (; Pn)* — an omitted parameter is 0
    let mut ps = Vec::new();
    loop {
        let mut v: u32 = 0;
        while *i < b.len() && b[*i].is_ascii_digit() {
            v = v.checked_mul(10).and_then(|v| v.checked_add((b[*i] - b'0') as u32)).ok_or("parameter overflow")?;
            *i += 1;
        }
        ps.push(v);
        if *i < b.len() && b[*i] == b';' {
            *i += 1;
        } else {
            return Ok(ps);
        }
    }
}

/// body of the sixel string (between `q` and ST) → tokens
fn lex(b: &[u8], base: usize) -> Result<Vec<Lexed>, String> {
    let mut out = Vec::new();
    let mut i = 0;
    while i < b.len() {
        let start = i;
        let c = b[i];
        i += 1;
        let tok = match c {
            b'"' => Tok::Raster(params(b, &mut i)?),
            b'#' => Tok::Color(params(b, &mut i)?),
            b'!' => {
                let ps = params(b, &mut i)?;
                if ps.len() != 1 {
                    return Err(format!("repeat with {} parameters at {}", ps.len(), base + start));
                }
                if i >= b.len() || !(b'?'..=b'~').contains(&b[i]) {
                    return Err(format!("repeat not followed by a data character at {}", base + start));
                }
                i += 1;
                Tok::Data { count: ps[0].max(1), ch: b[i - 1] }
            }
            b'$' => Tok::Cr,
            b'-' => Tok::Nl,
            b'?'..=b'~' => Tok::Data { count: 1, ch: c },
            _ => return Err(format!("byte {c:#04x} at {} is not part of the sixel grammar", base + start)),
        };
        out.push(Lexed { tok, start: base + start, end: base + i });
    }
    Ok(out)
}

struct Decoded {
    width: usize,
    height: usize,
    /// row-major, `None` = never painted
    pix: Vec<Option<[u8; 3]>>,
    outside: usize,
    registers: BTreeMap<u32, [u8; 3]>,
    toks: Vec<Lexed>,
}

/// splits `ESC P params q body ESC \`
fn envelope(bytes: &[u8]) -> Result<(usize, usize), String> {
    let mut i = if bytes.starts_with(b"\x1bP") {
        2
    } else if bytes.first() == Some(&0x90) {
        1
    } else {
        return Err("does not start with DCS".into());
    };
    while i < bytes.len() && (bytes[i].is_ascii_digit() || bytes[i] == b';') {
        i += 1;
    }
    if bytes.get(i) != Some(&b'q') {
        return Err("DCS parameters are not followed by `q`".into());
    }
    i += 1;
    let end = if bytes.ends_with(b"\x1b\\") {
        bytes.len() - 2
    } else if bytes.last() == Some(&0x9c) {
        bytes.len() - 1
    } else {
        return Err("does not end with ST".into());
    };
    if end < i {
        return Err("ST overlaps the header".into());
    }
    Ok((i, end))
}

fn decode(bytes: &[u8]) -> Result<Decoded, String> {
    let (from, to) = envelope(bytes)?;
    let toks = lex(&bytes[from..to], from)?;
    let mut declared: Option<(usize, usize)> = None;
    let mut registers: BTreeMap<u32, [u8; 3]> = BTreeMap::new();
    let mut color: Option<u32> = None;
    let (mut x, mut band) = (0usize, 0usize);
    let mut seen_data = false;
    // sparse canvas
    let mut canvas: BTreeMap<(usize, usize), [u8; 3]> = BTreeMap::new();
    for l in toks.iter() {
        match &l.tok {
            Tok::Raster(ps) => {
                if seen_data {
                    return Err(format!("raster attributes after sixel data at {}", l.start));
                }
                match ps.len() {
                    4 => declared = Some((ps[2] as usize, ps[3] as usize)),
                    1..=3 => {}
                    _ => return Err(format!("raster attributes with {} parameters", ps.len())),
                }
            }
            Tok::Color(ps) => match ps.len() {
                1 => {
                    if ps[0] >= 256 {
                        return Err(format!("colour register {} selected", ps[0]));
                    }
                    color = Some(ps[0]);
                }
                5 => {
                    if ps[0] >= 256 {
                        return Err(format!("colour register {} defined", ps[0]));
                    }
                    if ps[1] != 2 {
                        return Err(format!("unsupported: colour coordinate system {} (only 2 = RGB is decoded)", ps[1]));
                    }
                    if ps[2] > 100 || ps[3] > 100 || ps[4] > 100 {
                        return Err(format!("colour #{} component above 100: {:?}", ps[0], &ps[2..]));
                    }
                    registers.insert(ps[0], [ps[2] as u8, ps[3] as u8, ps[4] as u8]);
                    color = Some(ps[0]);
                }
                n => return Err(format!("colour introducer with {n} parameters at {}", l.start)),
            },
            Tok::Data { count, ch } => {
                seen_data = true;
                let reg = color.ok_or_else(|| format!("sixel data at {} with no colour selected", l.start))?;
                let rgb = *registers
                    .get(&reg)
                    .ok_or_else(|| format!("sixel data at {} in undefined register {reg}", l.start))?;
                let bits = ch - b'?';
                for k in 0..*count as usize {
                    for i in 0..6 {
                        if bits >> i & 1 == 1 {
                            canvas.insert((x + k, band * 6 + i), rgb);
                        }
                    }
                }
                x += *count as usize;
            }
            Tok::Cr => x = 0,
            Tok::Nl => {
                x = 0;
                band += 1;
            }
        }
    }
    let (width, height) = match declared {
        Some(wh) => wh,
        None => (
            canvas.keys().map(|k| k.0 + 1).max().unwrap_or(0),
            canvas.keys().map(|k| k.1 + 1).max().unwrap_or(0),
        ),
    };
    let mut pix = vec![None; width * height];
    let mut outside = 0;
    for ((x, y), c) in canvas {
        if x < width && y < height {
            pix[y * width + x] = Some(c);
        } else {
            outside += 1;
        }
    }
    Ok(Decoded { width, height, pix, outside, registers, toks })
}

/// colour lines of every band sorted by colour number (stable); everything else untouched
fn canonical(bytes: &[u8], d: &Decoded) -> Vec<u8> {
    // the band section starts at the first colour *selection*
    let first = d.toks.iter().position(|l| matches!(&l.tok, Tok::Color(ps) if ps.len() == 1));
    let Some(first) = first else { return bytes.to_vec() };
    let mut out = bytes[..d.toks[first].start].to_vec();
    let mut segs: Vec<(u32, Vec<u8>)> = Vec::new();
    let flush = |segs: &mut Vec<(u32, Vec<u8>)>, out: &mut Vec<u8>| {
        segs.sort_by_key(|s| s.0);
        for (_, s) in segs.drain(..) {
            out.extend(s);
        }
    };
    for l in &d.toks[first..] {
        let raw = &bytes[l.start..l.end];
        match &l.tok {
            Tok::Color(ps) if ps.len() == 1 => segs.push((ps[0], raw.to_vec())),
            Tok::Nl => {
                flush(&mut segs, &mut out);
                out.extend(raw);
            }
            _ => match segs.last_mut() {
                Some(s) => s.1.extend(raw),
                None => out.extend(raw),
            },
        }
    }
    flush(&mut segs, &mut out);
    out.extend(&bytes[d.toks.last().map(|l| l.end).unwrap_or(bytes.len())..]);
    out
}

// ---------------------------------------------------------------------------------------------
// cases
// ---------------------------------------------------------------------------------------------

#[derive(Clone, Debug)]
struct Case {
    w: usize,
    h: usize,
    /// row-major RGBA of the backing image
    px: Vec<[u8; 4]>,
    bg: Option<[u8; 4]>,
    /// cropped view: rows r0..r1, cols c0..c1 of the backing image
    crop: Option<(usize, usize, usize, usize)>,
    /// how the `Image` is laid out in memory (the pixels the handler must show are the same):
    /// 0 dense `from_parts` (+ `crop`), 1 `Image::new(SurfaceOwned)`, 2 `Image::new` of a transposed
    /// column-major surface (row stride 1), 3 `from_parts` with a hand-written `Shape`: offset, padded rows,
    /// 4 the same with every second element (column stride 2)
    layout: u8,
    tag: String,
}

impl Case {
    fn to_json(&self) -> Value {
        json!({
            "w": self.w, "h": self.h, "tag": self.tag,
            "px": hex(&self.px.iter().flatten().copied().collect::<Vec<u8>>()),
            "bg": self.bg.map(|b| b.to_vec()),
            "crop": self.crop.map(|(a, b, c, d)| vec![a, b, c, d]),
            "layout": self.layout,
        })
    }
    fn from_json(v: &Value) -> Option<Case> {
        let w = v["w"].as_u64()? as usize;
        let h = v["h"].as_u64()? as usize;
        let s = v["px"].as_str()?;
        let raw: Vec<u8> = if s == "-" {
            vec![]
        } else {
            (0..s.len() / 2).map(|i| u8::from_str_radix(&s[2 * i..2 * i + 2], 16).unwrap_or(0)).collect()
        };
        let px: Vec<[u8; 4]> = raw.chunks_exact(4).map(|c| [c[0], c[1], c[2], c[3]]).collect();
        if px.len() != w * h {
            return None;
        }
        let arr = |v: &Value| -> Option<Vec<u64>> { v.as_array().map(|a| a.iter().filter_map(|x| x.as_u64()).collect()) };
        let bg = arr(&v["bg"]).filter(|a| a.len() == 4).map(|a| [a[0] as u8, a[1] as u8, a[2] as u8, a[3] as u8]);
        let crop = arr(&v["crop"]).filter(|a| a.len() == 4).map(|a| (a[0] as usize, a[1] as usize, a[2] as usize, a[3] as usize));
        Some(Case { w, h, px, bg, crop, layout: v["layout"].as_u64().unwrap_or(0) as u8, tag: v["tag"].as_str().unwrap_or("replay").to_string() })
    }
    fn image(&self) -> Image {
        let (w, h) = (self.w, self.h);
        let rgba = |p: &[u8; 4]| RGBA::new(p[0], p[1], p[2], p[3]);
        let junk = RGBA::new(251, 3, 77, 201);
        let img = match self.layout {
            1 => Image::new(SurfaceOwned::new_with(Size::new(h, w), |pos| rgba(&self.px[pos.row * w + pos.col]))),
            2 => {
                // backing store column by column: a surface of `w` rows and `h` columns, seen transposed
                let store = SurfaceOwned::new_with(Size::new(w, h), |pos| rgba(&self.px[pos.col * w + pos.row]));
                Image::new(store.transpose())
            }
            3 | 4 => {
                let cs = if self.layout == 4 { 2 } else { 1 };
                let (start, rs) = (5usize, w * cs + 3);
                let mut data = vec![junk; start + h * rs + 7];
                for r in 0..h {
                    for c in 0..w {
                        data[start + r * rs + c * cs] = rgba(&self.px[r * w + c]);
                    }
                }
                let end = if h == 0 { start } else { start + (h - 1) * rs + w * cs };
                Image::from_parts(data.into(), Shape { start, end, width: w, height: h, row_stride: rs, col_stride: cs })
            }
            _ => {
                let data: Vec<RGBA> = self.px.iter().map(rgba).collect();
                Image::from_parts(data.into(), Shape::from(Size::new(h, w)))
            }
        };
        match self.crop {
            Some((r0, r1, c0, c1)) => img.crop(r0..r1, c0..c1),
            None => img,
        }
    }
    /// the pixels the handler is asked to draw (after the crop): (width, height, row-major RGBA)
    fn visible(&self) -> (usize, usize, Vec<[u8; 4]>) {
        match self.crop {
            None => (self.w, self.h, self.px.clone()),
            Some((r0, r1, c0, c1)) => {
                let mut v = Vec::new();
                for r in r0..r1 {
                    for c in c0..c1 {
                        v.push(self.px[r * self.w + c]);
                    }
                }
                (c1 - c0, r1 - r0, v)
            }
        }
    }
}

/// sixel's 0-100 resolution of an 8-bit channel: round(100 v / 255) (there are no ties)
fn level(v: u8) -> u8 {
    ((200 * v as u32 + 255) / 510) as u8
}

/// the source picture the property talks about: transparent pixels composited over the background
/// (compositing is `rasterize`'s, the library the crate delegates colour arithmetic to)
fn composite(p: [u8; 4], bg: Option<[u8; 4]>) -> [u8; 3] {
    if p[3] == 255 {
        return [p[0], p[1], p[2]];
    }
    let bg = bg.map(|b| RGBA::new(b[0], b[1], b[2], b[3])).unwrap_or(RGBA::new(0, 0, 0, 255));
    bg.blend_over(RGBA::new(p[0], p[1], p[2], p[3])).to_rgb()
}

fn pick_palette(rng: &mut Rng, n: usize, transparent: bool) -> Vec<[u8; 4]> {
    (0..n)
        .map(|_| {
            let mut c = match rng.below(4) {
                0 => [*rng.pick(&[0u8, 255, 128, 1, 254, 51, 102, 127, 129]); 3],
                _ => [rng.below(256) as u8, rng.below(256) as u8, rng.below(256) as u8],
            };
            if rng.chance(1, 3) {
                c[rng.below(3) as usize] = *rng.pick(&[0u8, 1, 2, 3, 126, 127, 128, 129, 253, 254, 255]);
            }
            let a = if transparent && rng.chance(1, 3) { *rng.pick(&[0u8, 1, 64, 128, 200, 254]) } else { 255 };
            [c[0], c[1], c[2], a]
        })
        .collect()
}

/// structured image: runs of equal colour of assorted lengths so that shifts and repeats of every
/// length (0..3, 4.., > 255 for wide images) occur
fn gen_image(rng: &mut Rng, w: usize, h: usize, ncol: usize, transparent: bool) -> Vec<[u8; 4]> {
    let pal = pick_palette(rng, ncol.max(1), transparent);
    let mut px = vec![[0u8; 4]; w * h];
    let style = rng.below(5);
    for y in 0..h {
        let mut x = 0;
        while x < w {
            let run = match rng.below(6) {
                0 => 1,
                1 => 2,
                2 => 3,
                3 => 4,
                4 => 1 + rng.below(8) as usize,
                _ => 1 + rng.below(w as u64) as usize,
            };
            let c = *rng.pick(&pal);
            for k in x..(x + run).min(w) {
                px[y * w + k] = c;
            }
            x += run;
        }
        // rows of one band often equal, so that codes with several bits and long repeats occur
        if style < 3 && y % 6 != 0 && rng.chance(3, 4) {
            for x in 0..w {
                px[y * w + x] = px[(y - 1) * w + x];
            }
            if style == 1 && w > 0 {
                let x = rng.below(w as u64) as usize;
                px[y * w + x] = *rng.pick(&pal);
            }
        }
    }
    px
}

const BACKGROUNDS: [Option<[u8; 4]>; 5] =
    [None, Some([0, 0, 0, 255]), Some([255, 255, 255, 255]), Some([30, 60, 200, 255]), Some([128, 128, 128, 255])];

fn corner_cases() -> Vec<Case> {
    let mut v = Vec::new();
    let solid = |w: usize, h: usize, c: [u8; 4]| vec![c; w * h];
    let mk = |tag: &str, w: usize, h: usize, px: Vec<[u8; 4]>, bg, crop| Case { w, h, px, bg, crop, layout: 0, tag: tag.to_string() };
    // heights around the multiples of six
    for h in [6usize, 7, 11, 12, 13, 17, 18] {
        let mut px = Vec::new();
        for y in 0..h {
            for x in 0..5 {
                px.push([(y * 20) as u8, (x * 50) as u8, 255 - (y * 10) as u8, 255]);
            }
        }
        v.push(mk(&format!("height{h}"), 5, h, px, None, None));
    }
    // one colour: a run of exactly w for w around 3/4 and 255/256
    for w in [1usize, 2, 3, 4, 5, 254, 255, 256, 257, 300, 1000] {
        v.push(mk(&format!("solid{w}"), w, 6, solid(w, 6, [10, 200, 90, 255]), None, None));
    }
    // a colour first appearing at column 0 / 1 / 2 / 3 / 4 / 5 / 300 (shift 0, literal shifts, `!n?`)
    for first in [0usize, 1, 2, 3, 4, 5, 9, 300] {
        let w = first + 3;
        let mut px = solid(w, 6, [0, 0, 0, 255]);
        for y in 0..6 {
            for x in first..w {
                if (x + y) % 2 == 0 || x == first {
                    px[y * w + x] = [255, 0, 0, 255];
                }
            }
        }
        v.push(mk(&format!("first{first}"), w, 6, px, None, None));
    }
    // runs of exactly 1,2,3,4,5 separated by gaps of 1,2,3,4,5 in the second colour
    {
        let w = 40;
        let mut px = solid(w, 12, [255, 255, 255, 255]);
        let mut x = 0;
        for (run, gap) in [(1, 1), (2, 2), (3, 3), (4, 4), (5, 5), (3, 1), (4, 3)] {
            for k in x..x + run {
                for y in 0..12 {
                    px[y * w + k] = [0, 0, 255, 255];
                }
            }
            x += run + gap;
        }
        v.push(mk("runs-gaps", w, 12, px, None, None));
    }
    // each of the six rows its own colour: every single-bit code
    {
        let w = 7;
        let mut px = Vec::new();
        for y in 0..6 {
            for _ in 0..w {
                px.push([(y * 40) as u8, 255 - (y * 40) as u8, 7, 255]);
            }
        }
        v.push(mk("rows-distinct", w, 6, px, None, None));
    }
    // top/bottom asymmetry (bit order)
    {
        let mut px = solid(4, 6, [0, 0, 0, 255]);
        for x in 0..4 {
            px[x] = [255, 255, 0, 255];
            px[4 + x] = [0, 255, 255, 255];
        }
        v.push(mk("top-rows", 4, 6, px, None, None));
    }
    // every channel value once: 256 greys do not fit 101 levels but do fit 256 registers
    {
        let px: Vec<[u8; 4]> = (0..=255u8).map(|g| [g, g, g, 255]).collect();
        let mut all = Vec::new();
        for _ in 0..6 {
            all.extend(px.iter().copied());
        }
        v.push(mk("greys256", 256, 6, all, None, None));
    }
    // separate channels
    for ch in 0..3 {
        let mut all = Vec::new();
        for _ in 0..6 {
            for g in (0..=255u8).step_by(3) {
                let mut c = [7u8, 90, 201, 255];
                c[ch] = g;
                all.push(c);
            }
        }
        v.push(mk(&format!("channel{ch}"), 86, 6, all, None, None));
    }
    // exactly 256 / 257 colours at 0-100 resolution
    for n in [255usize, 256, 257, 300] {
        let mut px = Vec::new();
        for i in 0..n {
            let l = [(i % 101) as u32, (i / 101 * 33) as u32, 50u32];
            px.push([((l[0] * 255 + 99) / 100) as u8, (l[1] * 255 / 100) as u8, 128, 255]);
        }
        let w = n;
        let mut all = Vec::new();
        for y in 0..6 {
            for x in 0..w {
                all.push(px[(x + y * 17) % n]);
            }
        }
        v.push(mk(&format!("colours{n}"), w, 6, all, None, None));
    }
    // fully transparent / half transparent over each background
    for (i, bg) in BACKGROUNDS.iter().enumerate() {
        let mut px = Vec::new();
        for y in 0..6 {
            for x in 0..6 {
                px.push([200, (x * 40) as u8, 30, [0u8, 255, 128, 1, 254, 64][(x + y) % 6]]);
            }
        }
        v.push(mk(&format!("alpha-bg{i}"), 6, 6, px, *bg, None));
    }
    // cropped views: offset rows and columns, height not a multiple of six
    {
        let (w, h) = (12usize, 20usize);
        let mut px = Vec::new();
        for y in 0..h {
            for x in 0..w {
                px.push([(x * 20) as u8, (y * 12) as u8, ((x / 3 + y / 2) * 30) as u8, 255]);
            }
        }
        for crop in [(0, 20, 0, 12), (1, 8, 2, 9), (3, 20, 0, 1), (7, 13, 5, 12), (2, 15, 11, 12), (13, 20, 3, 6)] {
            v.push(mk("crop", w, h, px.clone(), None, Some(crop)));
        }
    }
    // one pixel stream under different shapes (4x6, 2x12, 1x24, 3x8 ...): drawn one after the other on the
    // long-lived handler, each must come out with its own size (the cache key has to depend on the shape)
    for solid_stream in [true, false] {
        let stream: Vec<[u8; 4]> = (0..24).map(|i| if solid_stream { [200, 10, 10, 255] } else { [(i * 10) as u8, 255 - (i * 9) as u8, (i % 3 * 100) as u8, 255] }).collect();
        for (w, h) in [(4usize, 6usize), (2, 12), (1, 24), (3, 8), (4, 6)] {
            v.push(mk(&format!("stream-{w}x{h}"), w, h, stream.clone(), None, None));
        }
    }
    // the same picture under every memory layout (dense, Image::new of an owned surface, transposed
    // column-major store, padded rows with an offset, column stride 2), heights 13 and 6
    for layout in 0..5u8 {
        for (w, h) in [(7usize, 13usize), (1, 6), (40, 7)] {
            let mut px = Vec::new();
            for y in 0..h {
                for x in 0..w {
                    px.push([(x * 6 % 256) as u8, (y * 19 % 256) as u8, ((x / 2 + y / 3) * 40 % 256) as u8, if (x + y) % 5 == 0 { 120 } else { 255 }]);
                }
            }
            let mut c = mk(&format!("layout{layout}"), w, h, px, Some([40, 90, 200, 255]), None);
            c.layout = layout;
            v.push(c);
        }
    }
    // layouts combined with a crop
    for layout in 1..5u8 {
        let (w, h) = (11usize, 19usize);
        let px: Vec<[u8; 4]> = (0..w * h).map(|i| [(i * 7 % 256) as u8, (i * 3 % 256) as u8, (i % 4 * 60) as u8, 255]).collect();
        let mut c = mk(&format!("layout{layout}-crop"), w, h, px, None, Some((2, 17, 3, 10)));
        c.layout = layout;
        v.push(c);
    }
    // two DIFFERENT pictures in the same memory layout that agree on the first rows and on the left part
    // (whatever prefix of the buffer a cache key might look at), drawn one after the other on the
    // long-lived handler: the second must come out as itself
    for layout in 0..5u8 {
        for (w, h) in [(9usize, 12usize), (16, 7)] {
            let a: Vec<[u8; 4]> = (0..w * h).map(|i| [((i % w) * 25 % 256) as u8, ((i / w) * 20 % 256) as u8, 60, 255]).collect();
            let mut b = a.clone();
            for y in 2..h {
                for x in w / 2 + 1..w {
                    b[y * w + x] = [250, (x * 20) as u8, (y * 20) as u8, 255];
                }
            }
            for px in [a, b] {
                let mut c = mk(&format!("pair-layout{layout}"), w, h, px, None, None);
                c.layout = layout;
                v.push(c);
            }
        }
    }
    v
}

/// 8-bit colour whose 0-100 levels are exactly `l`
fn from_levels(l: [u32; 3]) -> [u8; 4] {
    [((l[0] * 255 + 50) / 100) as u8, ((l[1] * 255 + 50) / 100) as u8, ((l[2] * 255 + 50) / 100) as u8, 255]
}

/// A picture for the palette extraction's sampling rule: a few common colours in runs and `singles`
/// colours that occur exactly once each (all distinct at 0-100 resolution, at most 246 colours in all), the
/// single ones at random places of the rows that are kept.  If the extraction skips pixels, some single
/// colour gets no register and the picture cannot decode exactly.
fn sampling_case(rng: &mut Rng, w: usize, h: usize, singles: usize, tag: &str) -> Case {
    let commons: Vec<[u8; 4]> = (0..1 + rng.below(5) as u32).map(|k| from_levels([k * 20, 100 - k * 20, 0])).collect();
    let mut px = vec![[0u8; 4]; w * h];
    for y in 0..h {
        let mut x = 0;
        while x < w {
            let run = 1 + rng.below(40) as usize;
            let c = *rng.pick(&commons);
            for k in x..(x + run).min(w) {
                px[y * w + k] = c;
            }
            x += run;
        }
    }
    let kept = w * (h / 6 * 6);
    let mut used = BTreeSet::new();
    for i in 0..singles.min(240) as u32 {
        let mut pos = rng.below(kept as u64) as usize;
        while !used.insert(pos) {
            pos = rng.below(kept as u64) as usize;
        }
        px[pos] = from_levels([i % 101, (i * 37) % 101, 30 + i / 101]);
    }
    Case { w, h, px, bg: None, crop: None, layout: 0, tag: tag.to_string() }
}

/// A low, very wide picture (`h` rows): background colour with sparse structure, a run of a second
/// colour crossing every multiple of 65536 columns, a third colour used only at columns >= 65536 (when
/// there are any), a fourth only at low columns, and the last column in a colour of its own.
fn wide_case(rng: &mut Rng, w: usize, h: usize, tag: &str) -> Case {
    let back = [20u8, 40, 60, 255];
    let cross = [250u8, 10, 10, 255];
    let beyond = [10u8, 250, 10, 255];
    let low = [10u8, 10, 250, 255];
    let last = [240u8, 240, 10, 255];
    let mut px = vec![back; w * h];
    for y in 0..h {
        for m in (65536..w + 8).step_by(65536) {
            let from = m - 3 - rng.below(6) as usize;
            let to = m + 3 + rng.below(9) as usize;
            for x in from..to.min(w) {
                if y % 2 == 0 || x % 3 != 0 {
                    px[y * w + x] = cross;
                }
            }
        }
        for _ in 0..40 {
            let x = rng.below(w as u64) as usize;
            let run = 1 + rng.below(5) as usize;
            let c = if x >= 65536 + 20 { beyond } else if x + 30 < 65536 { low } else { back };
            for k in x..(x + run).min(w) {
                if px[y * w + k] == back {
                    px[y * w + k] = c;
                }
            }
        }
        if w > 65536 + 40 {
            px[y * w + 65536 + 25 + y] = beyond;
        }
        px[y * w + w - 1] = last;
    }
    Case { w, h, px, bg: None, crop: None, layout: 0, tag: tag.to_string() }
}

fn random_case(rng: &mut Rng, thorough: bool) -> Case {
    let kind = rng.below(100);
    let (w, h) = if kind < 80 {
        (1 + rng.below(30) as usize, 6 + rng.below(25) as usize)
    } else if kind < 90 {
        (1 + rng.below(if thorough { 700 } else { 320 }) as usize, 6 + rng.below(7) as usize)
    } else {
        (1 + rng.below(60) as usize, 6 + rng.below(if thorough { 90 } else { 40 }) as usize)
    };
    let ncol = match rng.below(10) {
        0 => 1,
        1 | 2 => 2,
        3 | 4 => 3,
        5 | 6 => 2 + rng.below(6) as usize,
        7 => 2 + rng.below(30) as usize,
        8 => 2 + rng.below(250) as usize,
        _ => 257 + rng.below(600) as usize,
    };
    let transparent = rng.chance(1, 4);
    let (w, h) = if ncol > 256 { (w.max(17), h.max(18)) } else { (w, h) };
    let px = if ncol > 256 {
        // noise: more than 256 colours at 0-100 resolution in most such images
        let pal = pick_palette(rng, ncol, transparent);
        (0..w * h).map(|_| *rng.pick(&pal)).collect()
    } else {
        gen_image(rng, w, h, ncol, transparent)
    };
    let bg = *rng.pick(&BACKGROUNDS);
    let crop = if rng.chance(1, 4) && h > 6 {
        let r0 = rng.below((h - 6) as u64 + 1) as usize;
        let r1 = r0 + 6 + rng.below((h - r0 - 6) as u64 + 1) as usize;
        let c0 = rng.below(w as u64) as usize;
        let c1 = c0 + 1 + rng.below((w - c0) as u64) as usize;
        Some((r0, r1, c0, c1))
    } else {
        None
    };
    let layout = if rng.chance(2, 3) { 0 } else { 1 + rng.below(4) as u8 };
    Case { w, h, px, bg, crop, layout, tag: format!("random{ncol}") }
}

// ---------------------------------------------------------------------------------------------
// running one case
// ---------------------------------------------------------------------------------------------

fn draw(handler: &mut SixelImageHandler, img: &Image) -> Result<Vec<u8>, String> {
    let mut out = Vec::new();
    match guarded(|| handler.draw(&mut out, img, Position::new(0, 0))) {
        Err(()) => Err("panic".into()),
        Ok(Err(e)) => Err(format!("error {e:?}")),
        Ok(Ok(())) => Ok(out),
    }
}

/// the channel reduction `draw` applies before quantisation — TRANSCRIBED from src/image.rs (it is an
/// inline expression there); the transcription is tied to the code by the `enc` correspondence (a
/// different reduction gives a different palette) and to the Lean model by the `pre` lines
fn pre_reduce(c: [u8; 4]) -> [u8; 4] {
    let [red, green, blue, alpha] = c;
    let red = ((red as f32 / 2.55).round() * 2.55) as u8;
    let green = ((green as f32 / 2.55).round() * 2.55) as u8;
    let blue = ((blue as f32 / 2.55).round() * 2.55) as u8;
    [red, green, blue, alpha]
}

/// `erase` (a no-op for sixel: the picture is overwritten by what is drawn next); whatever it does, it
/// must not disturb later draws.  Returns what it wrote.
fn erase(handler: &mut SixelImageHandler, img: &Image, pos: Option<Position>) -> Vec<u8> {
    let mut out = Vec::new();
    let _ = guarded(|| handler.erase(&mut out, img, pos));
    out
}

/// `(palette, qimg)` as `draw` obtains them — built from the RAW generated pixels, not through the view /
/// `map` / `get` of the image under test: the first `th` rows of the visible pixels, composited over the
/// background when not opaque, channel-reduced, as a dense image; then the crate's `quantize(256, true, bg)`
/// (property C13's subject) and the raw index buffer of its answer.
fn quantised(vis: &[[u8; 4]], vw: usize, th: usize, bg: Option<[u8; 4]>) -> Option<(Vec<[u8; 3]>, Vec<usize>)> {
    let data: Vec<RGBA> = vis[..vw * th]
        .iter()
        .map(|p| {
            let c = composite(*p, bg);
            let [r, g, b, _] = pre_reduce([c[0], c[1], c[2], 255]);
            RGBA::new(r, g, b, 255)
        })
        .collect();
    let dimg = Image::from_parts(data.into(), Shape::from(Size::new(th, vw)));
    let (palette, qimg) = dimg.quantize(256, true, bg.map(|b| RGBA::new(b[0], b[1], b[2], b[3])))?;
    Some((palette.colors().iter().map(|c| c.to_rgb()).collect(), qimg.data().to_vec()))
}

/// sRGB compositing written out independently (f64, IEC 61966-2-1 transfer functions, source over an
/// opaque background in linear light): cross-check of the `rasterize` helper the expectations rely on
fn composite_reference(p: [u8; 4], bg: [u8; 4]) -> [f64; 3] {
    let s2l = |v: u8| {
        let x = v as f64 / 255.0;
        if x <= 0.04045 { x / 12.92 } else { ((x + 0.055) / 1.055).powf(2.4) }
    };
    let l2s = |x: f64| if x <= 0.0031308 { x * 12.92 } else { 1.055 * x.powf(1.0 / 2.4) - 0.055 };
    let a = p[3] as f64 / 255.0;
    let mut out = [0.0; 3];
    for i in 0..3 {
        out[i] = l2s(s2l(p[i]) * a + s2l(bg[i]) * (1.0 - a)) * 255.0;
    }
    out
}

/// largest difference between `composite` (rasterize) and the independent formula over a grid
fn composite_cross_check() -> f64 {
    let mut worst: f64 = 0.0;
    for b in [0u8, 30, 128, 200, 255] {
        for a in (0..=255u16).step_by(5) {
            for c in (0..=255u16).step_by(3) {
                let p = [c as u8, (255 - c) as u8, (c / 2) as u8, a as u8];
                let bg = [b, 255 - b, b / 3, 255];
                let got = composite(p, Some(bg));
                let want = composite_reference(p, bg);
                for i in 0..3 {
                    worst = worst.max((got[i] as f64 - want[i]).abs());
                }
            }
        }
    }
    worst
}

/// handlers that live through the whole run, one per background: every case is also drawn on them, so
/// that the cache is exercised with many images (of equal and of different shapes) on ONE handler
struct Shared {
    handlers: Vec<(Option<[u8; 4]>, SixelImageHandler)>,
    /// (background, image, bytes of its first draw) of some earlier cases, drawn again later
    earlier: Vec<(Option<[u8; 4]>, Image, Vec<u8>)>,
}

impl Shared {
    fn new() -> Self {
        Shared { handlers: Vec::new(), earlier: Vec::new() }
    }
    fn handler(&mut self, bg: Option<[u8; 4]>) -> &mut SixelImageHandler {
        if let Some(i) = self.handlers.iter().position(|h| h.0 == bg) {
            return &mut self.handlers[i].1;
        }
        let h = SixelImageHandler::new(bg.map(|b| RGBA::new(b[0], b[1], b[2], b[3])));
        self.handlers.push((bg, h));
        &mut self.handlers.last_mut().unwrap().1
    }
}

fn run_case(out: &mut Out, shared: &mut Shared, case: &Case, full_lines: bool) {
    let img = case.image();
    let (vw, vh, vis) = case.visible();
    let input = case.to_json();
    let bg = case.bg.map(|b| RGBA::new(b[0], b[1], b[2], b[3]));
    let th = vh / 6 * 6; // declared height
    let mut handler = SixelImageHandler::new(bg);
    let first = draw(&mut handler, &img);
    // draw, erase (at a position), draw again: the same bytes
    erase(&mut handler, &img, Some(Position::new(0, 0)));
    let second = draw(&mut handler, &img);
    let bytes = match (&first, &second) {
        (Ok(a), Ok(b)) => {
            if a != b {
                out.fail("second draw of the same image on one handler (after an erase) emits different bytes", input.clone(), json!(hex(a)), json!(hex(b)));
            }
            a.clone()
        }
        (a, b) => {
            out.fail("draw failed", input.clone(), json!("Ok"), json!(format!("{:?} / {:?}", a.as_ref().err(), b.as_ref().err())));
            return;
        }
    };
    // the same pixels in a fresh allocation, and the image on another handler: the same picture (the
    // property demands identical bytes only for the same image on the same handler)
    let third = draw(&mut handler, &case.image()).unwrap_or_default();
    let other = draw(&mut SixelImageHandler::new(bg), &img).unwrap_or_default();

    // -- oracle ---------------------------------------------------------------------------------
    let src: Vec<[u8; 3]> = vis.iter().map(|p| composite(*p, case.bg).map(level)).collect();
    let opaque = vis.iter().take(vw * th).all(|p| p[3] == 255);
    let distinct: BTreeSet<[u8; 3]> = src.iter().take(vw * th).copied().collect();
    let fits = distinct.len() <= 256 && vw * th < 2 * 25600;
    let d = match decode(&bytes) {
        Ok(d) => d,
        Err(e) => {
            if e.starts_with("unsupported") {
                // nothing the property forbids, but nothing the model ever emits: a correspondence matter
                out.corr("c12 emits-only-rgb-colour-definitions", &e);
            } else {
                out.fail("output is not a well-formed sixel sequence", input, json!("DCS q … ST accepted by the decoder"), json!(format!("{e}; bytes={}", hex(&bytes))));
            }
            return;
        }
    };
    let mut ok = true;
    if (d.width, d.height) != (vw, th) {
        ok = false;
        out.fail("declared raster size differs from (width, height truncated to a multiple of 6)", input.clone(), json!([vw, th]), json!([d.width, d.height]));
    }
    if d.outside != 0 {
        ok = false;
        out.fail("pixels painted outside the declared raster", input.clone(), json!(0), json!(d.outside));
    }
    let holes = d.pix.iter().filter(|p| p.is_none()).count();
    if holes != 0 {
        ok = false;
        out.fail("pixels of the raster left unpainted", input.clone(), json!(0), json!(holes));
    }
    if d.registers.len() > 256 {
        ok = false;
        out.fail("more than 256 colour registers", input.clone(), json!(256), json!(d.registers.len()));
    }
    if ok && fits {
        for y in 0..th {
            for x in 0..vw {
                let want = src[y * vw + x];
                let got = d.pix[y * vw + x].unwrap();
                if want != got {
                    ok = false;
                    let what = if vis[y * vw + x][3] == 255 {
                        "decoded pixel differs from the source at 0-100 resolution"
                    } else {
                        "non-opaque source pixel: decoded level differs from the composited source at 0-100 resolution"
                    };
                    out.fail(what, input.clone(), json!({"x": x, "y": y, "rgb100": want}), json!({"rgb100": got}));
                    break;
                }
            }
            if !ok {
                break;
            }
        }
    }
    // another handler instance / an equal image in a fresh allocation: same picture
    for (what, b) in [("a fresh handler draws a different picture for the same image", &other), ("an equal image (fresh allocation) draws a different picture on the same handler", &third)] {
        match decode(b) {
            Ok(o) if o.pix == d.pix && (o.width, o.height) == (d.width, d.height) => {}
            _ => {
                ok = false;
                out.fail(what, input.clone(), json!(hex(&canonical(&bytes, &d))), json!(hex(b)));
            }
        }
    }
    // the long-lived handler of this background: same picture although it has drawn many other images
    {
        let got = draw(shared.handler(case.bg), &img);
        let again = draw(shared.handler(case.bg), &img);
        let same = match (&got, &again) {
            (Ok(a), Ok(b)) if a == b => decode(a).map(|o| o.pix == d.pix && (o.width, o.height) == (d.width, d.height)).unwrap_or(false),
            _ => false,
        };
        if !same {
            ok = false;
            out.fail("a handler that has drawn other images before draws a different picture (or different bytes the second time)", input.clone(), json!(hex(&canonical(&bytes, &d))), json!(format!("{:?} / {:?}", got.map(|b| hex(&b)), again.map(|b| hex(&b)))));
        } else if let Ok(first) = got {
            // an earlier image of this handler, drawn again after others: identical bytes
            if let Some((_, eimg, ebytes)) = shared.earlier.iter().rev().find(|e| e.0 == case.bg) {
                let (eimg, ebytes) = (eimg.clone(), ebytes.clone());
                if draw(shared.handler(case.bg), &eimg).ok().as_ref() != Some(&ebytes) {
                    ok = false;
                    out.fail("an image drawn again after other images emits different bytes", input.clone(), json!(hex(&ebytes)), json!("other bytes"));
                }
            }
            if shared.earlier.len() < 4000 {
                shared.earlier.push((case.bg, img.clone(), first));
            }
        }
    }
    if !ok {
        return;
    }

    // -- verified Lean interpreter on the implementation's bytes ---------------------------------
    let pixhex = |pix: &mut dyn Iterator<Item = [u8; 3]>| hex(&pix.flatten().collect::<Vec<u8>>());
    if vw > 8192 {
        // the list-based canvas of the Lean interpreter is quadratic in the width: pictures wider than
        // 8192 columns are judged by the Rust decoder only
        out.hist("wide:rust-decoder-only");
    } else if full_lines {
        let expected_pix = if fits && opaque {
            pixhex(&mut src.iter().take(vw * th).copied())
        } else {
            pixhex(&mut d.pix.iter().map(|p| p.unwrap()))
        };
        out.oracle(&format!("c12 dec {}", hex(&bytes)), &format!("ok {vw} {th} all 0 regs-ok {expected_pix}"));
    } else {
        out.oracle(&format!("c12 sum {}", hex(&bytes)), &format!("ok {vw} {th} all 0 regs-ok"));
    }

    // -- correspondence: model of the encoder on (palette, qimg) ---------------------------------
    let canon = canonical(&bytes, &d);
    // (the list-based Lean models index columns in linear time: no model lines for very wide pictures)
    let pair = if vw > 8192 { Some((Vec::new(), Vec::new())) } else { quantised(&vis, vw, th, case.bg) };
    if vw > 8192 {
    } else if let Some((pal, q)) = pair {
        let palhex = hex(&pal.iter().flatten().copied().collect::<Vec<u8>>());
        let qhex = hex(&q.iter().flat_map(|i| [(*i >> 8) as u8, *i as u8]).collect::<Vec<u8>>());
        // `vh`, not `th`: the model truncates the height itself
        out.corr(&format!("c12 draw {vw} {vh} {palhex} {qhex}"), &hex(&canon));
        out.hist(&format!("palette:{}", match pal.len() { 1 => "1", 2..=4 => "2-4", 5..=32 => "5-32", 33..=255 => "33-255", _ => "256" }));
    } else {
        out.fail("quantize gives nothing for a non-empty image", input.clone(), json!("Some"), json!("None"));
    }
    if case.tag.starts_with("sampling") {
        // did every colour of the picture get a register?  (200 and more single-use colours: if pixels
        // are skipped some of them are missed, except with negligible probability)
        let have: BTreeSet<[u8; 3]> = d.registers.values().copied().collect();
        let all = distinct.iter().all(|c| have.contains(c));
        out.corr(&format!("c12 subsampled {vw} {vh}"), if all { "no" } else { "yes" });
        out.hist(if all { "sampling:all-pixels" } else { "sampling:subsampled" });
        out.hist(if vw * th <= 25600 { "sampling:<=25600" } else if vw * th < 51200 { "sampling:25601..51199" } else { "sampling:>=51200" });
    }
    let multi = d.toks.iter().any(|l| matches!(l.tok, Tok::Data { count, .. } if count > 3));
    let key = format!("{}|{:?}|{:?}", hex(&vis.iter().flatten().copied().collect::<Vec<u8>>()), (vw, vh), case.bg);
    out.case(&key, d.registers.len() > 1 || multi);
    out.hist(if fits { "fits" } else { "lossy" });
    out.hist(if opaque { "opaque" } else { "transparent" });
    out.hist(if case.crop.is_some() { "cropped" } else { "whole" });
    out.hist(&format!("height%6={}", vh % 6));
    if d.toks.iter().any(|l| matches!(l.tok, Tok::Data { count, .. } if count > 255)) {
        out.hist("repeat>255");
    }
    out.sample(json!({"tag": case.tag, "w": vw, "h": vh, "bytes": bytes.len(), "registers": d.registers.len()}));
}

// ---------------------------------------------------------------------------------------------
// tables: the level written for every channel value, observed from real draws
// ---------------------------------------------------------------------------------------------

fn observed_levels() -> Result<[Vec<u8>; 3], String> {
    let mut tabs = [Vec::new(), Vec::new(), Vec::new()];
    for ch in 0..3 {
        for v in 0..=255u8 {
            let mut c = [0u8, 0, 0, 255];
            c[ch] = v;
            let img = Image::from_parts(vec![RGBA::new(c[0], c[1], c[2], 255); 6].into(), Shape::from(Size::new(6, 1)));
            let bytes = draw(&mut SixelImageHandler::new(None), &img)?;
            let d = decode(&bytes)?;
            let px = d.pix.first().copied().flatten().ok_or("single-colour image decodes to nothing")?;
            if d.registers.len() != 1 {
                return Err(format!("single-colour image defines {} registers", d.registers.len()));
            }
            tabs[ch].push(px[ch]);
        }
    }
    Ok(tabs)
}

fn write_tables(cfg: &Cfg, names: &[String]) {
    for name in names {
        let src = match name.as_str() {
            "SixelLevel" => {
                let tabs = match observed_levels() {
                    Ok(t) => t,
                    Err(e) => {
                        eprintln!("cannot observe the level tables: {e}");
                        std::process::exit(1);
                    }
                };
                let tab = |n: &str, t: &Vec<u8>| format!("def {n} : List Nat := [{}]\n", t.iter().map(|v| v.to_string()).collect::<Vec<_>>().join(", "));
                format!(
                    "/-! GENERATED by `c12 tables` from the current build of /repo: the level (0..100) that\n`SixelImageHandler::draw` writes into the palette definition for a source channel value 0..255,\nobserved by drawing single-colour images. Do not edit. -/\nnamespace SurfModel.Generated.SixelLevel\n{}{}{}end SurfModel.Generated.SixelLevel\n",
                    tab("levelR", &tabs[0]),
                    tab("levelG", &tabs[1]),
                    tab("levelB", &tabs[2])
                )
            }
            "SixelCache" => format!(
                "/-! GENERATED by `c12 tables` from the current build of /repo: the private constant `IMAGE_CACHE_SIZE`\nof src/image.rs (budget in bytes of the cache of encoded sixel images), read through the hook\n`image::verif_c12::image_cache_size`. Do not edit. -/\nnamespace SurfModel.Generated.SixelCache\ndef imageCacheSize : Nat := {}\nend SurfModel.Generated.SixelCache\n",
                surf_n_term::image::verif_c12::image_cache_size()
            ),
            _ => {
                eprintln!("unknown table {name}");
                std::process::exit(2);
            }
        };
        std::fs::write(cfg.outdir.join(format!("{name}.lean")), src).unwrap();
    }
}

// ---------------------------------------------------------------------------------------------
// sessions: many images on ONE long-lived handler, every earlier image drawn again
// ---------------------------------------------------------------------------------------------

/// image `i` of the session with seed `seed`: mostly 48 x 128 noise with 64 colours (about 25 KB of sixel
/// each, every band holds many colours, so a re-encoding almost surely orders the lines differently),
/// some small ones in between
fn session_image(seed: u64, i: usize) -> Image {
    let mut rng = Rng::new(seed ^ (i as u64).wrapping_mul(0x9E37_79B9_7F4A_7C15));
    let (w, h, ncol) = if i % 5 == 4 { (1 + rng.below(20) as usize, 6 + rng.below(20) as usize, 4) } else { (48, 128, 64) };
    let pal = pick_palette(&mut rng, ncol, false);
    let data: Vec<RGBA> = (0..w * h)
        .map(|_| {
            let c = *rng.pick(&pal);
            RGBA::new(c[0], c[1], c[2], 255)
        })
        .collect();
    Image::from_parts(data.into(), Shape::from(Size::new(h, w)))
}

/// Draws `count` images on one handler; after every `stride` images and at the end every image drawn so
/// far is drawn again and must give the bytes of its first draw.  The total output stays below
/// `limit` bytes (far below the 128 MiB budget of the cache), so no eviction can excuse a difference.
fn run_session(out: &mut Out, seed: u64, count: usize, stride: usize, limit: usize) {
    let mut handler = SixelImageHandler::new(None);
    let mut firsts: Vec<Vec<u8>> = Vec::new();
    let mut images: Vec<Image> = Vec::new();
    let mut encoded = 0usize;
    let mut redraws = 0u64;
    for i in 0..count {
        let img = session_image(seed, i);
        images.push(img.clone());
        let bytes = match draw(&mut handler, &img) {
            Ok(b) => b,
            Err(e) => {
                out.fail("draw failed in a session", json!({"session_seed": seed, "count": i + 1, "stride": stride}), json!("Ok"), json!(e));
                return;
            }
        };
        encoded += bytes.len();
        firsts.push(bytes);
        if encoded > limit {
            break;
        }
        if (i + 1) % stride == 0 || i + 1 == count {
            for (j, first) in firsts.iter().enumerate() {
                if j % 3 != 2 {
                    erase(&mut handler, &images[j], if j % 3 == 0 { Some(Position::new(j, 1)) } else { None });
                }
                let again = draw(&mut handler, &images[j]).unwrap_or_default();
                redraws += 1;
                if &again != first {
                    let same_picture = match (decode(first), decode(&again)) {
                        (Ok(a), Ok(b)) => a.pix == b.pix,
                        _ => false,
                    };
                    out.fail(
                        "an image drawn again later in a session on one handler emits different bytes",
                        json!({"session_seed": seed, "count": i + 1, "stride": stride, "redrawn_image": j,
                               "history": format!("new handler (no background); draw images 0..={i} of session_image(seed, k) (48x128 noise with 64 colours, every fifth small), then image {j} again"),
                               "sixel_bytes_encoded_so_far": encoded, "same_picture": same_picture}),
                        json!(hex(&first[..first.len().min(600)])),
                        json!(hex(&again[..again.len().min(600)])),
                    );
                    return;
                }
            }
        }
    }
    out.case(&format!("session {seed} {count} {stride}"), true);
    out.hist("session");
    out.extra(&format!("session_{seed}"), json!({"images": firsts.len(), "sixel_bytes": encoded, "redraws_checked": redraws}));
}

/// The property's exactness clause on non-opaque pixels, through real draws: a 256 x 6 image holding the
/// greys (c,c,c,a) for every c, drawn over the background (b,b,b,255); every decoded pixel must be
/// level(composite).  A failure is reported as the 1 x 6 single-colour image that shows it.
fn alpha_grid(out: &mut Out, alphas: &[u8], bgs: &[u8]) -> (u64, u64) {
    let (mut n, mut bad) = (0u64, 0u64);
    for &b in bgs {
        let bg = [b, b, b, 255];
        for &a in alphas {
            let px: Vec<[u8; 4]> = (0..6).flat_map(|_| (0..=255u8).map(move |c| [c, c, c, a])).collect();
            let case = Case { w: 256, h: 6, px, bg: Some(bg), crop: None, layout: 0, tag: "alpha-grid".into() };
            let decoded = draw(&mut SixelImageHandler::new(Some(RGBA::new(b, b, b, 255))), &case.image()).and_then(|bytes| decode(&bytes));
            for c in 0..256usize {
                let want = composite([c as u8, c as u8, c as u8, a], Some(bg)).map(level);
                let got = decoded.as_ref().ok().and_then(|d| d.pix.get(c).copied().flatten());
                n += 1;
                if got != Some(want) {
                    bad += 1;
                    if bad <= 3 {
                        let witness = Case { w: 1, h: 6, px: vec![[c as u8, c as u8, c as u8, a]; 6], bg: Some(bg), crop: None, layout: 0, tag: "alpha-grid-witness".into() };
                        out.fail(
                            "non-opaque source pixel: decoded level differs from the composited source at 0-100 resolution",
                            witness.to_json(),
                            json!({"rgb100": want}),
                            json!({"rgb100": got}),
                        );
                    }
                }
            }
        }
    }
    out.extra("alpha_grid", json!({"pixels_compared": n, "differing": bad, "alphas": alphas.len(), "backgrounds": bgs.len()}));
    (n, bad)
}

/// images that `draw` answers with nothing: width 0, or fewer than six rows (`quantize` returns `None`)
fn run_degenerate(out: &mut Out, w: usize, h: usize) {
    let img = Image::from_parts(vec![RGBA::new(9, 99, 199, 255); w * h].into(), Shape::from(Size::new(h, w)));
    let mut handler = SixelImageHandler::new(None);
    let input = json!({"w": w, "h": h, "degenerate": true});
    match (draw(&mut handler, &img), draw(&mut handler, &img)) {
        (Ok(a), Ok(b)) => {
            if a != b {
                out.fail("second draw of the same image on one handler emits different bytes", input.clone(), json!(hex(&a)), json!(hex(&b)));
            }
            // the model: nothing is written (explicit outcome)
            out.corr(&format!("c12 draw {w} {h} - -"), &hex(&a));
            // whatever is written must be a sixel sequence (height >= 6 only: the property's domain)
            if !a.is_empty() && h >= 6 {
                if let Err(e) = decode(&a) {
                    out.fail("output is not a well-formed sixel sequence", input, json!("nothing or DCS q … ST"), json!(e));
                }
            }
        }
        (a, b) => out.fail("draw failed", input, json!("Ok"), json!(format!("{:?} / {:?}", a.err(), b.err()))),
    }
    out.case(&format!("degenerate {w} {h}"), false);
    out.hist("degenerate");
}

// ---------------------------------------------------------------------------------------------
// two handlers on one thread, used alternately, through `dyn ImageHandler`
// ---------------------------------------------------------------------------------------------

/// Two handlers with different backgrounds draw the same translucent images alternately (as boxed trait
/// objects): each must show the image over ITS background (nothing may leak from one handler or one
/// draw to the next through shared or thread-local state), and every redraw on a handler is byte-identical.
fn run_two_handlers(out: &mut Out, seed: u64, rounds: usize) {
    let mut rng = Rng::new(seed);
    let bgs = [[250u8, 250, 250, 255], [5, 5, 40, 255]];
    let mut handlers: Vec<Box<dyn ImageHandler>> = bgs.iter().map(|b| Box::new(SixelImageHandler::new(Some(RGBA::new(b[0], b[1], b[2], b[3])))) as Box<dyn ImageHandler>).collect();
    let mut firsts: Vec<Vec<Vec<u8>>> = vec![Vec::new(), Vec::new()];
    let mut cases: Vec<Case> = Vec::new();
    for i in 0..rounds {
        let (w, h) = (1 + rng.below(20) as usize, 6 + rng.below(14) as usize);
        let ncol = 2 + rng.below(5) as usize;
        let px = gen_image(&mut rng, w, h, ncol, true);
        let case = Case { w, h, px, bg: None, crop: None, layout: (i % 5) as u8, tag: "two-handlers".into() };
        let img = case.image();
        let th = h / 6 * 6;
        let input = json!({"two_handlers_seed": seed, "rounds": i + 1, "history": format!("two boxed sixel handlers with backgrounds {bgs:?} on one thread draw the images of gen_image(Rng(seed)) alternately; image {i} is {w}x{h}, layout {}", i % 5)});
        for k in [0usize, 1, 0, 1] {
            let mut sink = Vec::new();
            let res = guarded(|| handlers[k].draw(&mut sink, &img, Position::new(0, 0)));
            if !matches!(res, Ok(Ok(()))) {
                out.fail("draw failed", input, json!("Ok"), json!("error or panic"));
                return;
            }
            if firsts[k].len() == i {
                let want: Vec<Option<[u8; 3]>> = case.px[..w * th].iter().map(|p| Some(composite(*p, Some(bgs[k])).map(level))).collect();
                match decode(&sink) {
                    Ok(d) if d.pix == want && (d.width, d.height) == (w, th) => {}
                    _ => {
                        out.fail("with two handlers used alternately an image is not shown over its own handler's background", input, json!({"handler": k, "background": bgs[k]}), json!(hex(&sink[..sink.len().min(300)])));
                        return;
                    }
                }
                firsts[k].push(sink);
            } else if firsts[k][i] != sink {
                out.fail("with two handlers used alternately a redraw emits different bytes", input, json!({"handler": k}), json!("other bytes"));
                return;
            }
        }
        cases.push(case);
        // an earlier image again on both
        let j = rng.below(cases.len() as u64) as usize;
        let old = cases[j].image();
        for k in [1usize, 0] {
            let mut sink = Vec::new();
            let _ = guarded(|| handlers[k].draw(&mut sink, &old, Position::new(0, 0)));
            if sink != firsts[k][j] {
                out.fail("with two handlers used alternately a redraw emits different bytes", input, json!({"handler": k, "image": j}), json!("other bytes"));
                return;
            }
        }
    }
    out.case(&format!("two-handlers {seed} {rounds}"), true);
    out.hist("two-handlers");
}

// ---------------------------------------------------------------------------------------------
// sinks: short writes, `Interrupted`, `Ok(0)`, errors — on the first draw and on the cache hit
// ---------------------------------------------------------------------------------------------

#[derive(Clone, Copy, Debug)]
enum Resp {
    Accept(usize),
    Interrupted,
    Fail,
}

/// an `io::Write` whose successive `write` calls answer a script (and take everything afterwards)
struct ScriptSink {
    script: Vec<Resp>,
    pos: usize,
    data: Vec<u8>,
}

impl std::io::Write for ScriptSink {
    fn write(&mut self, buf: &[u8]) -> std::io::Result<usize> {
        let r = self.script.get(self.pos).copied();
        self.pos += 1;
        match r {
            None => {
                self.data.extend_from_slice(buf);
                Ok(buf.len())
            }
            Some(Resp::Accept(n)) => {
                let n = n.min(buf.len());
                self.data.extend_from_slice(&buf[..n]);
                Ok(n)
            }
            Some(Resp::Interrupted) => Err(std::io::Error::new(std::io::ErrorKind::Interrupted, "interrupted")),
            Some(Resp::Fail) => Err(std::io::Error::new(std::io::ErrorKind::Other, "sink failed")),
        }
    }
    fn flush(&mut self) -> std::io::Result<()> {
        Ok(())
    }
}

fn parse_pattern(p: &str) -> Vec<Resp> {
    p.split('.')
        .map(|t| match t {
            "i" => Resp::Interrupted,
            "f" => Resp::Fail,
            _ => Resp::Accept(t[1..].parse().unwrap_or(1)),
        })
        .collect()
}

/// One image, one sink pattern, both branches of `draw`.
/// ORACLE: a draw that returns `Ok` has delivered a complete well-formed sequence with the image's picture
/// — on a cache hit exactly the bytes of the first draw; a draw that returns `Err` has delivered a prefix
/// (on a hit: of the first draw's bytes); afterwards a draw into a plain `Vec` works as always.
/// CORRESPONDENCE: `Ok`/`Err`, number of bytes that arrived and whether the image is cached afterwards,
/// against the model's `drawTo` (`write_all` in both branches).
fn run_sink_case(out: &mut Out, image_seed: u64, w: usize, h: usize, ncol: usize, pattern: &str) {
    use surf_n_term::image::verif_c12::cache_state;
    let mut rng = Rng::new(image_seed);
    let pal = pick_palette(&mut rng, ncol, false);
    let data: Vec<RGBA> = (0..w * h).map(|_| { let c = *rng.pick(&pal); RGBA::new(c[0], c[1], c[2], 255) }).collect();
    let img = Image::from_parts(data.into(), Shape::from(Size::new(h, w)));
    let key = Surface::hash(&img);
    let input = json!({"sink_image_seed": image_seed, "w": w, "h": h, "colours": ncol, "pattern": pattern,
        "history": "image = w x h noise of `colours` colours from Rng(sink_image_seed); sink answers its write calls by `pattern` (aN accept N bytes, i Interrupted, f error) repeated, then takes everything"});
    let reference = match draw(&mut SixelImageHandler::new(None), &img).and_then(|b| decode(&b).map(|d| (b, d.pix))) {
        Ok(r) => r,
        Err(e) => {
            out.fail("draw failed", input, json!("Ok"), json!(e));
            return;
        }
    };
    let len = reference.0.len();
    let pat = parse_pattern(pattern);
    let script: Vec<Resp> = (0..len).flat_map(|_| pat.iter().copied()).collect();
    for branch in ["miss", "hit"] {
        let mut handler = SixelImageHandler::new(None);
        let first = if branch == "hit" { draw(&mut handler, &img).ok() } else { None };
        let mut sink = ScriptSink { script: script.clone(), pos: 0, data: Vec::new() };
        let res = guarded(|| handler.draw(&mut sink, &img, Position::new(0, 0)));
        let ok = match res {
            Err(()) => {
                out.fail("draw panicked", input.clone(), json!("Ok or Err"), json!("panic"));
                return;
            }
            Ok(r) => r.is_ok(),
        };
        let arrived = sink.data;
        let cached = cache_state(&handler).1.iter().any(|e| e.0 == key);
        out.corr(
            &format!("c12 handover {branch} {pattern} {len} {len}"),
            &format!("{} {} {}", if ok { "ok" } else { "err" }, arrived.len(), if cached { "cached" } else { "not-cached" }),
        );
        let what = if ok {
            match &first {
                Some(f) if *f != arrived => Some("repeated draw into a sink that takes the bytes in pieces delivers other bytes than the first draw"),
                _ => match decode(&arrived) {
                    Ok(d) if d.pix == reference.1 => None,
                    Ok(_) => Some("draw into a sink that takes the bytes in pieces delivers another picture"),
                    Err(_) => Some("draw into a sink that takes the bytes in pieces returns Ok but what arrived is not a well-formed sixel sequence"),
                },
            }
        } else {
            match &first {
                Some(f) if !f.starts_with(&arrived) => Some("failed repeated draw delivered bytes that are not a prefix of the first draw"),
                _ if arrived.len() > len => Some("failed draw delivered more bytes than the encoding has"),
                _ => None,
            }
        };
        if let Some(what) = what {
            out.fail(what, input.clone(), json!({"branch": branch, "bytes": len}), json!({"returned": if ok { "Ok" } else { "Err" }, "arrived": arrived.len(), "head": hex(&arrived[..arrived.len().min(200)])}));
            return;
        }
        // afterwards the handler works as always
        match draw(&mut handler, &img).and_then(|b| decode(&b).map(|d| (b, d.pix))) {
            Ok((b, pix)) if pix == reference.1 && first.as_ref().map(|f| *f == b).unwrap_or(true) => {}
            _ => {
                out.fail("draw after a draw into a scripted sink gives another picture or other bytes", input.clone(), json!("the picture (and, after a hit, the bytes) of the first draw"), json!(branch));
                return;
            }
        }
        out.hist(&format!("sink:{branch}:{}", if ok { "ok" } else { "err" }));
    }
    out.case(&format!("sink {image_seed} {w} {h} {pattern}"), true);
}

// ---------------------------------------------------------------------------------------------
// the eviction loop: handlers with a small cache budget (hook `verif_c12::with_cache_size`)
// ---------------------------------------------------------------------------------------------

/// A session on one handler whose budget is `budget` bytes.  Images come from a pool (48 x 128, 48 x 64
/// and small noise images), every draw is followed now and then by an immediate second draw.
/// ORACLE: every draw gives the image's picture; a draw of an image that is in the cache (hook view of
/// the cache before the draw) gives the bytes of its previous draw; a second draw right after a draw whose
/// encoding fits the budget gives identical bytes.
/// CORRESPONDENCE: the trace (hit / miss and `size` after every draw, final content from most to least
/// recently used) against the Lean `Handler` model with the same budget.
fn run_eviction_session(out: &mut Out, seed: u64, budget: usize, ops: usize) {
    use surf_n_term::image::verif_c12::{cache_state, with_cache_size};
    let mut rng = Rng::new(seed);
    let pool: Vec<Image> = (0..18)
        .map(|i| {
            let (w, h, ncol) = match i % 3 {
                0 => (48, 128, 64),
                1 => (48, 60, 32),
                _ => (1 + rng.below(24) as usize, 6 + rng.below(24) as usize, 6),
            };
            let pal = pick_palette(&mut rng, ncol, false);
            let data: Vec<RGBA> = (0..w * h).map(|_| { let c = *rng.pick(&pal); RGBA::new(c[0], c[1], c[2], 255) }).collect();
            Image::from_parts(data.into(), Shape::from(Size::new(h, w)))
        })
        .collect();
    // pairs of DIFFERENT images in one strided layout (transposed store / column stride 2) that agree on
    // the left part and on the first rows: the cache key has to tell them apart as well
    let mut pool = pool;
    for layout in [2u8, 4, 2, 4] {
        let (w, h) = (12 + rng.below(20) as usize, 12 + rng.below(20) as usize);
        let a = gen_image(&mut rng, w, h, 5, false);
        let mut b = a.clone();
        for y in 3..h {
            for x in w / 2 + 2..w {
                b[y * w + x] = [255 - b[y * w + x][0], 17, b[y * w + x][2] ^ 0x80, 255];
            }
        }
        for px in [a, b] {
            pool.push(Case { w, h, px, bg: None, crop: None, layout, tag: "pool-strided".into() }.image());
        }
    }
    // `Surface::hash` is used below only to recognise the entries the hook shows: it has to tell the pool
    // images apart (a cross-check of the helper; the draws themselves are judged on pictures and bytes)
    {
        let keys: BTreeSet<u64> = pool.iter().map(|i| Surface::hash(i)).collect();
        if keys.len() != pool.len() {
            out.corr("c12 surface-hash-tells-the-pool-images-apart", &format!("no: {} keys for {} different images", keys.len(), pool.len()));
        }
    }
    // budget 0 stands for "exactly the encoded length of the first pool image" (size == budget: the
    // loop condition is `>`, the entry must stay)
    let budget = if budget == 0 { draw(&mut SixelImageHandler::new(None), &pool[0]).map(|b| b.len()).unwrap_or(1) } else { budget };
    let mut handler = with_cache_size(None, budget);
    let mut last: Vec<Option<Vec<u8>>> = vec![None; pool.len()];
    let mut picture: Vec<Option<Vec<Option<[u8; 3]>>>> = vec![None; pool.len()];
    let mut history: Vec<usize> = Vec::new();
    let mut trace = String::new();
    let mut req = String::new();
    let (mut hits, mut misses, mut evictions) = (0u64, 0u64, 0u64);
    let mut pending_repeat: Option<usize> = None;
    // reference LRU cache of this budget (most recently used first): what the handler is documented to be
    let mut lru: Vec<(u64, usize)> = Vec::new();
    let mut lru_size = 0usize;
    for _ in 0..ops {
        let i = match pending_repeat.take() {
            Some(i) => i,
            None => if history.is_empty() { 0 } else if rng.chance(1, 3) { history[history.len() - 1 - rng.below(history.len().min(4) as u64) as usize] } else { rng.below(pool.len() as u64) as usize },
        };
        let immediate = history.last() == Some(&i);
        history.push(i);
        let key = Surface::hash(&pool[i]);
        let (_, before) = cache_state(&handler);
        let cached = before.iter().any(|e| e.0 == key);
        let fail_input = json!({"eviction_seed": seed, "budget": budget, "ops": history.len(),
            "history": format!("handler with a cache budget of {budget} bytes; pool image indices drawn in this order: {history:?}")});
        let bytes = match draw(&mut handler, &pool[i]) {
            Ok(b) => b,
            Err(e) => {
                out.fail("draw failed in a session", fail_input, json!("Ok"), json!(e));
                return;
            }
        };
        let pix = decode(&bytes).map(|d| d.pix).unwrap_or_default();
        if let Some(p) = &picture[i] {
            if *p != pix {
                out.fail("an image drawn again on one handler gives a different picture", fail_input, json!("the picture of its first draw"), json!(hex(&bytes[..bytes.len().min(400)])));
                return;
            }
        } else {
            picture[i] = Some(pix);
        }
        if let Some(prev) = &last[i] {
            let held = lru.iter().any(|e| e.0 == key);
            let must_equal = cached || held || (immediate && prev.len() <= budget);
            if must_equal && *prev != bytes {
                out.fail(
                    if cached { "an image that is in the cache is drawn with different bytes" } else if held { "an image that a least-recently-used cache of this budget still holds (a hit refreshes its position) is drawn with different bytes" } else { "second draw right after the first emits different bytes although the encoding fits the cache budget" },
                    fail_input,
                    json!(hex(&prev[..prev.len().min(400)])),
                    json!(hex(&bytes[..bytes.len().min(400)])),
                );
                return;
            }
        }
        // reference LRU: a hit moves the entry to the front, a miss inserts and evicts from the back
        if let Some(p) = lru.iter().position(|e| e.0 == key) {
            let e = lru.remove(p);
            lru.insert(0, e);
        } else {
            lru.insert(0, (key, bytes.len()));
            lru_size += bytes.len();
            while lru_size > budget {
                match lru.pop() {
                    Some(e) => lru_size -= e.1,
                    None => break,
                }
            }
        }
        let (size, after) = cache_state(&handler);
        if cached { hits += 1 } else { misses += 1; evictions += (before.len() + 1 - after.len()) as u64 }
        trace.push_str(&format!("{}{} ", if cached { 'h' } else { 'm' }, size));
        req.push_str(&format!("{}{}:{}", if req.is_empty() { "" } else { "," }, key, bytes.len()));
        if bytes.len() <= budget && rng.chance(1, 4) {
            pending_repeat = Some(i);
        }
        last[i] = Some(bytes);
        // erase is an operation of the session too (with and without a position): the cache stays as it is
        if rng.chance(1, 5) {
            let pos = if rng.chance(1, 2) { Some(Position::new(rng.below(40) as usize, rng.below(80) as usize)) } else { None };
            let j = if rng.chance(1, 2) { i } else { rng.below(pool.len() as u64) as usize };
            erase(&mut handler, &pool[j], pos);
        }
    }
    let (size, content) = cache_state(&handler);
    let content: Vec<String> = content.iter().map(|(k, l)| format!("{k}:{l}")).collect();
    out.corr(&format!("c12 cache {budget} {req}"), &format!("{trace}| {size} {}", if content.is_empty() { "-".to_string() } else { content.join(",") }));
    out.case(&format!("eviction {seed} {budget} {ops}"), evictions > 0);
    out.hist("eviction-session");
    out.extra(&format!("eviction_{seed}"), json!({"budget": budget, "draws": ops, "hits": hits, "misses": misses, "evictions": evictions}));
}

fn main() {
    if std::env::var("C12_PROBE").is_ok() {
        println!("composite cross-check: worst difference {}", composite_cross_check());
        return;
    }
    let cfg = Cfg::from_env();
    let corners = corner_cases();
    if std::env::var("C12_LOUD").is_err() { verif_harness::silence_panics(); }
    if let Some(names) = &cfg.tables {
        write_tables(&cfg, names);
        return;
    }
    let mut out = cfg.out();
    let rule = "one case = one image (size, pixels, background, crop) drawn twice on one handler and once on a fresh one; non-trivial = more than one colour register or a repeat count above 3; distinct by (visible pixels, size, background)";
    if let Some(r) = &cfg.replay {
        let inp = &r["failure"]["input"];
        if let (Some(seed), Some(budget), Some(ops)) = (inp["eviction_seed"].as_u64(), inp["budget"].as_u64(), inp["ops"].as_u64()) {
            run_eviction_session(&mut out, seed, budget as usize, ops as usize);
            out.finish(rule);
            return;
        }
        if let (Some(seed), Some(pattern)) = (inp["sink_image_seed"].as_u64(), inp["pattern"].as_str()) {
            run_sink_case(&mut out, seed, inp["w"].as_u64().unwrap_or(1) as usize, inp["h"].as_u64().unwrap_or(6) as usize, inp["colours"].as_u64().unwrap_or(2) as usize, pattern);
            out.finish(rule);
            return;
        }
        if let (Some(seed), Some(rounds)) = (inp["two_handlers_seed"].as_u64(), inp["rounds"].as_u64()) {
            run_two_handlers(&mut out, seed, rounds as usize);
            out.finish(rule);
            return;
        }
        if inp["degenerate"].as_bool() == Some(true) {
            run_degenerate(&mut out, inp["w"].as_u64().unwrap_or(0) as usize, inp["h"].as_u64().unwrap_or(0) as usize);
            out.finish(rule);
            return;
        }
        if let (Some(seed), Some(count), Some(stride)) = (inp["session_seed"].as_u64(), inp["count"].as_u64(), inp["stride"].as_u64()) {
            run_session(&mut out, seed, count as usize, (stride as usize).max(1), 64 << 20);
            out.finish(rule);
            return;
        }
        if let Some(case) = Case::from_json(&r["failure"]["input"]) {
            // failures of the cache need a history: an image of the same shape with other pixels first
            let mut shared = Shared::new();
            let mut sibling = case.clone();
            // (it agrees with the image on the first rows and on the left part, so that a cache key that
            // looks only at the shape or at a prefix of the buffer confuses the two)
            let (sw, sh) = (sibling.w, sibling.h);
            let all = sw < 4 || sh < 4;
            for (i, p) in sibling.px.iter_mut().enumerate() {
                if all || (i / sw >= 2 && i % sw > sw / 2) {
                    *p = [255 - p[0], 255 - p[1], p[2] ^ 0x55, 255];
                }
            }
            sibling.layout = case.layout;
            let _ = draw(shared.handler(case.bg), &sibling.image());
            run_case(&mut out, &mut shared, &case, true);
        }
        out.finish(rule);
        return;
    }
    let mut rng = Rng::new(cfg.seed);
    let mut shared = Shared::new();
    for v in 0..=255u8 {
        let c = [v, 255 - v, v.wrapping_mul(7), 255];
        let p = pre_reduce(c);
        out.corr(&format!("c12 pre {} {} {}", c[0], c[1], c[2]), &format!("{} {} {}", p[0], p[1], p[2]));
    }
    // exactness on non-opaque pixels: a grid of (colour, alpha, background) triples
    {
        let all: Vec<u8> = (0..=254).collect();
        let some_alphas = [0u8, 1, 2, 3, 64, 127, 128, 200, 253, 254];
        let many_bgs: Vec<u8> = (0..16).map(|i| (i * 17) as u8).collect();
        if cfg.thorough {
            alpha_grid(&mut out, &all, &many_bgs);
        } else {
            alpha_grid(&mut out, &some_alphas, &[0, 30, 128, 255]);
        }
    }
    for case in corners {
        run_case(&mut out, &mut shared, &case, true);
    }
    // "any width": pictures wider than 65536 columns (column numbers beyond 16 bits)
    {
        let mut widths: Vec<(usize, usize)> = vec![(65535, 6), (65536, 6), (65537, 6), (70000, 6)];
        if cfg.thorough {
            widths.extend([(65538, 7), (65600, 12), (131071, 6), (131072, 6), (131073, 6), (140000, 6), (200000, 6)]);
            for _ in 0..6 {
                widths.push((65536 + rng.below(80000) as usize, 6 + rng.below(7) as usize));
            }
        }
        for (w, h) in widths {
            let mut r = rng.fork();
            run_case(&mut out, &mut shared, &wide_case(&mut r, w, h, "wide"), false);
        }
        // as a cropped view: 6 x 65560 out of 8 x 65570
        let mut r = rng.fork();
        let inner = wide_case(&mut r, 65560, 6, "wide-crop");
        let (bw, bh) = (65570usize, 8usize);
        let mut big = vec![[7u8, 7, 7, 255]; bw * bh];
        for y in 0..6 {
            big[(y + 1) * bw + 4..(y + 1) * bw + 4 + 65560].copy_from_slice(&inner.px[y * 65560..(y + 1) * 65560]);
        }
        run_case(&mut out, &mut shared, &Case { w: bw, h: bh, px: big, bg: None, crop: Some((1, 7, 4, 65564)), layout: 0, tag: "wide-crop".into() }, false);
    }
    // the sampling rule of the palette extraction (256 registers: below 51 200 kept pixels every pixel
    // is walked): pictures just below / above 25 600 and 51 200 pixels and in between, with 230 colours
    // used once; exactness is demanded below 51 200, and the `subsampled` lines tie the model's threshold
    for (w, h) in [(106usize, 240usize), (107, 240), (160, 203), (160, 240), (213, 240), (214, 240), (230, 245)] {
        let mut r = rng.fork();
        let case = sampling_case(&mut r, w, h, 230, "sampling-threshold");
        run_case(&mut out, &mut shared, &case, (w, h) == (107, 240));
    }
    for i in 0..if cfg.thorough { 150 } else { 3 } {
        let mut r = rng.fork();
        // 25 601 ..= 51 199 kept pixels
        let (w, h) = loop {
            let w = 100 + r.below(160) as usize;
            let h = 100 + r.below(220) as usize;
            let kept = w * (h / 6 * 6);
            if (25_601..51_200).contains(&kept) {
                break (w, h);
            }
        };
        let singles = 1 + r.below(240) as usize;
        let mut case = sampling_case(&mut r, w, h, singles, if singles >= 200 { "sampling-mid" } else { "mid" });
        if i % 4 == 3 {
            // as a cropped view of a larger backing image: same pixels, other strides
            let (bw, bh) = (w + 3, h + 2);
            let mut big = vec![[7u8, 7, 7, 255]; bw * bh];
            for y in 0..h {
                for x in 0..w {
                    big[(y + 1) * bw + x + 2] = case.px[y * w + x];
                }
            }
            case = Case { w: bw, h: bh, px: big, bg: None, crop: Some((1, 1 + h, 2, 2 + w)), layout: 0, tag: case.tag.clone() };
        }
        run_case(&mut out, &mut shared, &case, false);
    }
    // one image large enough to be subsampled by the palette extraction (structure only)
    {
        let (w, h) = (240usize, 216usize);
        let mut r = rng.fork();
        let px = gen_image(&mut r, w, h, 700, false);
        run_case(&mut out, &mut shared, &Case { w, h, px, bg: None, crop: None, layout: 0, tag: "subsampled".into() }, false);
    }
    // images answered with nothing
    for (w, h) in [(0usize, 6usize), (0, 12), (0, 0), (5, 0), (5, 1), (5, 5), (1, 3), (300, 5)] {
        run_degenerate(&mut out, w, h);
    }
    // the helper the expectations rely on for compositing, against the formula written out in the harness
    {
        let worst = composite_cross_check();
        out.extra("composite_cross_check_worst_difference", json!(worst));
        if worst > 0.6 {
            out.corr("c12 rasterize-blend-over-agrees-with-srgb-compositing", &format!("no: differs by {worst} (8-bit units)"));
        }
    }
    run_two_handlers(&mut out, rng.next(), if cfg.thorough { 300 } else { 25 });
    // sinks that take the bytes in pieces, are interrupted, or fail: first draw and cache hit
    {
        let small = ["a1", "a2", "a3", "a7", "a1.i.a5", "i.i.a3", "a5.a1.a4096", "a10.f", "a0", "a7.a7.f", "f", "i.a1.i.a2.i.a3"];
        let large = ["a64", "a1000", "a4096", "a333.i", "a4096.a1", "a2000.f", "a100.a0"];
        let rounds = if cfg.thorough { 12 } else { 1 };
        for _ in 0..rounds {
            for p in small {
                run_sink_case(&mut out, rng.next(), 1 + rng.below(12) as usize, 6 + rng.below(8) as usize, 1 + rng.below(5) as usize, p);
            }
            for p in large {
                run_sink_case(&mut out, rng.next(), 48, 128, 64, p);
            }
            if cfg.thorough {
                for _ in 0..6 {
                    let p = format!("a{}", 1 + rng.below(4096));
                    run_sink_case(&mut out, rng.next(), 8 + rng.below(40) as usize, 6 + rng.below(60) as usize, 2 + rng.below(30) as usize, &p);
                }
            }
        }
    }
    // the eviction loop, with budgets of 64 KiB and less
    for (k, budget) in [65536usize, 30000, 100_000, 4096, 1, 0].iter().enumerate() {
        let ops = if cfg.thorough { 600 } else { 90 };
        run_eviction_session(&mut out, rng.next() ^ k as u64, *budget, ops);
    }
    // sessions: quick one of about 1.3 MiB of sixel output, thorough several up to about 12 MiB
    // (the cache budget is 128 MiB: nothing may be evicted, every redraw must be byte-identical)
    if cfg.thorough {
        for k in 0..3 {
            run_session(&mut out, rng.next(), 200 + 150 * k, 100, 16 << 20);
        }
    } else {
        run_session(&mut out, rng.next(), 64, 32, 4 << 20);
    }
    let n = if cfg.thorough { 60_000 } else { 1_500 };
    for i in 0..n {
        let case = random_case(&mut rng, cfg.thorough);
        // the pixel dump of the Lean interpreter on every case in the quick tier, on one in eight in the
        // thorough tier (the summary line on the others)
        run_case(&mut out, &mut shared, &case, !cfg.thorough || i % 8 == 0);
    }
    out.finish(rule);
}
