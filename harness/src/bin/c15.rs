//! C15: compiled automata accept exactly the language of the expression that built them.
//!
//! For random expression trees (all combinators of `surf_n_term::automata::NFA`):
//!  * structural correspondence: `NFA::verif_dump()` of the automaton built through the public API must be
//!    EQUAL (numbering included) to the dump of the Lean model `Re.toNFA` (`c15 dump`);
//!  * exhaustive bisimulation: the DFA table read through the public `DFA` API (BFS from `start()` over all
//!    256 bytes) against the lazy subset automaton the Lean model builds from the dumped NFA (`c15 bisim`);
//!  * the states reached on member strings and near-miss mutants (`c15 run`), and `Re.matchB`, the verified
//!    matcher, applied to the implementation's verdicts (`c15 match`, oracle lines);
//!  * independent Rust oracle: a memoised backtracking matcher over the expression tree decides what
//!    `DFA::matches` must answer on every string up to length L over the effective alphabet of the
//!    expression and on the member / mutant strings; tags after a string must be those of the matching
//!    alternatives; a terminal state must have no accepted extension.
use serde_json::{Value, json};
use std::collections::{BTreeSet, HashMap, HashSet};
use surf_n_term::automata::{DFA, DFAState, NFA};
use surf_n_term::surface::{Shape, Surface};
use surf_n_term::{Image, Position, RGBA, TerminalCommand};
use verif_harness::{Cfg, r#gen::Rng, guarded, out::Out, out::hex};

#[derive(Clone, Debug, PartialEq)]
enum Re {
    Lit(Vec<u8>),
    Pred(Vec<(u8, u8)>),
    Seq(Vec<Re>),
    Alt(Vec<Re>),
    Opt(Box<Re>),
    Plus(Box<Re>),
    Star(Box<Re>),
    Empty,
    Nothing,
    Tag(u64, Box<Re>),
}
use Re::*;

fn in_ranges(rs: &[(u8, u8)], b: u8) -> bool {
    rs.iter().any(|(lo, hi)| *lo <= b && b <= *hi)
}

impl Re {
    /// prefix form understood by the Lean driver
    fn tokens(&self, out: &mut String) {
        match self {
            Lit(s) => {
                out.push_str("L ");
                out.push_str(&hex(s));
            }
            Pred(rs) => {
                out.push_str("P ");
                if rs.is_empty() {
                    out.push('-');
                }
                for (i, (lo, hi)) in rs.iter().enumerate() {
                    if i > 0 {
                        out.push(',');
                    }
                    out.push_str(&format!("{lo:02x}-{hi:02x}"));
                }
            }
            Seq(es) | Alt(es) => {
                out.push_str(if matches!(self, Seq(_)) { "S " } else { "A " });
                out.push_str(&es.len().to_string());
                for e in es {
                    out.push(' ');
                    e.tokens(out);
                }
            }
            Opt(e) | Plus(e) | Star(e) => {
                out.push_str(match self {
                    Opt(_) => "O ",
                    Plus(_) => "+ ",
                    _ => "* ",
                });
                e.tokens(out);
            }
            Empty => out.push('E'),
            Nothing => out.push('N'),
            Tag(t, e) => {
                out.push_str(&format!("T {t} "));
                e.tokens(out);
            }
        }
    }
    fn show(&self) -> String {
        let mut s = String::new();
        self.tokens(&mut s);
        s
    }
    fn parse(toks: &mut std::slice::Iter<&str>) -> Option<Re> {
        let t = *toks.next()?;
        Some(match t {
            "L" => {
                let h = *toks.next()?;
                if h == "-" {
                    Lit(vec![])
                } else {
                    Lit((0..h.len() / 2).map(|i| u8::from_str_radix(&h[2 * i..2 * i + 2], 16).ok()).collect::<Option<_>>()?)
                }
            }
            "P" => {
                let r = *toks.next()?;
                let mut rs = vec![];
                if r != "-" {
                    for part in r.split(',') {
                        let (a, b) = part.split_once('-')?;
                        rs.push((u8::from_str_radix(a, 16).ok()?, u8::from_str_radix(b, 16).ok()?));
                    }
                }
                Pred(rs)
            }
            "S" | "A" => {
                let k: usize = toks.next()?.parse().ok()?;
                let mut es = vec![];
                for _ in 0..k {
                    es.push(Re::parse(toks)?);
                }
                if t == "S" { Seq(es) } else { Alt(es) }
            }
            "O" => Opt(Box::new(Re::parse(toks)?)),
            "+" => Plus(Box::new(Re::parse(toks)?)),
            "*" => Star(Box::new(Re::parse(toks)?)),
            "E" => Empty,
            "N" => Nothing,
            "T" => {
                let tag: u64 = toks.next()?.parse().ok()?;
                Tag(tag, Box::new(Re::parse(toks)?))
            }
            _ => return None,
        })
    }
    fn nodes(&self) -> usize {
        match self {
            Seq(es) | Alt(es) => 1 + es.iter().map(|e| e.nodes()).sum::<usize>(),
            Opt(e) | Plus(e) | Star(e) | Tag(_, e) => 1 + e.nodes(),
            _ => 1,
        }
    }
    fn depth(&self) -> usize {
        match self {
            Seq(es) | Alt(es) => 1 + es.iter().map(|e| e.depth()).max().unwrap_or(0),
            Opt(e) | Plus(e) | Star(e) | Tag(_, e) => 1 + e.depth(),
            _ => 0,
        }
    }
    fn has_tag(&self) -> bool {
        match self {
            Seq(es) | Alt(es) => es.iter().any(|e| e.has_tag()),
            Opt(e) | Plus(e) | Star(e) => e.has_tag(),
            Tag(..) => true,
            _ => false,
        }
    }
    fn kind(&self) -> &'static str {
        match self {
            Lit(_) => "lit",
            Pred(_) => "pred",
            Seq(_) => "seq",
            Alt(_) => "alt",
            Opt(_) => "opt",
            Plus(_) => "plus",
            Star(_) => "star",
            Empty => "empty",
            Nothing => "nothing",
            Tag(..) => "tag",
        }
    }
    /// through the PUBLIC api of the crate
    fn build(&self) -> NFA<u64> {
        /// operands; a repeated operand is built once and CLONED (as the decoder does with `hex.clone()`,
        /// `size.clone()`), so that `merge_states` renumbers clones of one automaton
        fn operands(es: &[Re]) -> Vec<NFA<u64>> {
            let mut built: Vec<NFA<u64>> = Vec::with_capacity(es.len());
            for (i, e) in es.iter().enumerate() {
                match es[..i].iter().position(|f| f == e) {
                    Some(j) => {
                        let copy = built[j].clone();
                        built.push(copy)
                    }
                    None => built.push(e.build()),
                }
            }
            built
        }
        match self {
            Lit(s) => NFA::from(std::str::from_utf8(s).expect("literals are UTF-8")),
            // the two helper constructors of the public API
            Pred(rs) if rs.as_slice() == [(b'0', b'9')] => NFA::digit(),
            Plus(e) if matches!(&**e, Pred(rs) if rs.as_slice() == [(b'0', b'9')]) => NFA::number(),
            Pred(rs) => {
                let rs = rs.clone();
                NFA::predicate(move |b| in_ranges(&rs, b))
            }
            // two operands: the `+` / `|` operators or the n-ary functions, depending on the shape
            Seq(es) if es.len() == 2 && es[0].nodes() % 2 == 0 => {
                let mut ops = operands(es);
                let b = ops.pop().unwrap();
                let a = ops.pop().unwrap();
                a + b
            }
            Seq(es) => NFA::sequence(operands(es)),
            Alt(es) if es.len() == 2 && es[0].nodes() % 2 == 0 => {
                let mut ops = operands(es);
                let b = ops.pop().unwrap();
                let a = ops.pop().unwrap();
                a | b
            }
            Alt(es) => NFA::choice(operands(es)),
            Opt(e) => e.build().optional(),
            Plus(e) => e.build().some(),
            Star(e) => e.build().many(),
            Empty => NFA::empty(),
            Nothing => NFA::nothing(),
            Tag(t, e) => e.build().tag_stop_state(*t),
        }
    }
    fn atoms<'a>(&'a self, out: &mut Vec<&'a Re>) {
        match self {
            Lit(_) | Pred(_) => out.push(self),
            Seq(es) | Alt(es) => es.iter().for_each(|e| e.atoms(out)),
            Opt(e) | Plus(e) | Star(e) | Tag(_, e) => e.atoms(out),
            _ => {}
        }
    }
}

/* ---------- independent oracle: memoised backtracking matcher ---------- */

/// bit j of the result: `re` matches `w[i..j]`  (|w| < 64)
fn ends(re: &Re, w: &[u8], i: usize) -> u64 {
    match re {
        Lit(s) => {
            if w.len() >= i + s.len() && &w[i..i + s.len()] == s.as_slice() {
                1 << (i + s.len())
            } else {
                0
            }
        }
        Pred(rs) => {
            if i < w.len() && in_ranges(rs, w[i]) {
                1 << (i + 1)
            } else {
                0
            }
        }
        Seq(es) => {
            let mut cur: u64 = 1 << i;
            for e in es {
                let mut next = 0u64;
                for p in 0..=w.len() {
                    if cur >> p & 1 == 1 {
                        next |= ends(e, w, p);
                    }
                }
                cur = next;
                if cur == 0 {
                    break;
                }
            }
            cur
        }
        Alt(es) => es.iter().fold(0, |m, e| m | ends(e, w, i)),
        Opt(e) => (1 << i) | ends(e, w, i),
        Empty => 1 << i,
        Nothing => 0,
        Tag(_, e) => ends(e, w, i),
        Plus(e) | Star(e) => {
            // least fixed point: positions reachable by one or more (plus) / zero or more (star) rounds
            let mut reached: u64 = if matches!(re, Star(_)) { 1 << i } else { 0 };
            let mut todo: u64 = 1 << i;
            let mut done: u64 = 0;
            while todo != 0 {
                let p = todo.trailing_zeros() as usize;
                todo &= !(1 << p);
                done |= 1 << p;
                let m = ends(e, w, p);
                reached |= m;
                todo |= m & !done;
            }
            reached
        }
    }
}

fn oracle_matches(re: &Re, w: &[u8]) -> bool {
    assert!(w.len() < 63);
    ends(re, w, 0) >> w.len() & 1 == 1
}

/// positions reachable from `i` by zero or more rounds of `e` (bit mask)
fn loop_positions(e: &Re, w: &[u8], i: usize) -> u64 {
    let mut reached: u64 = 1 << i;
    let mut todo: u64 = 1 << i;
    while todo != 0 {
        let p = todo.trailing_zeros() as usize;
        todo &= !(1 << p);
        let m = ends(e, w, p) & !reached;
        reached |= m;
        todo |= m;
    }
    reached
}

/// tags completed at the END of `w` when `re` starts at position `i`: a tagged sub-expression has matched a
/// suffix `w[p..]` and everything that must precede it has matched `w[i..p]` (reference for C15_tags_alive).
/// `off_stop`: only tags that do not sit on the stop state of `re`'s automaton — `tag_stop_state` REPLACES the
/// tag of the stop state, so only those survive when `re` itself is tagged.  The stop state of a sequence is
/// that of its last component, of a one-or-more that of its operand; choice, optional and zero-or-more have a
/// fresh one.
fn alive(re: &Re, w: &[u8], i: usize, off_stop: bool, out: &mut BTreeSet<u64>) {
    match re {
        Tag(t, e) => {
            if !off_stop && ends(e, w, i) >> w.len() & 1 == 1 {
                out.insert(*t);
            }
            alive(e, w, i, true, out);
        }
        Seq(es) => {
            let mut cur: u64 = 1 << i;
            for (k, e) in es.iter().enumerate() {
                let last = k + 1 == es.len();
                let mut next = 0u64;
                for p in 0..=w.len() {
                    if cur >> p & 1 == 1 {
                        alive(e, w, p, last && off_stop, out);
                        next |= ends(e, w, p);
                    }
                }
                cur = next;
                if cur == 0 {
                    break;
                }
            }
        }
        Alt(es) => es.iter().for_each(|e| alive(e, w, i, false, out)),
        Opt(e) => alive(e, w, i, false, out),
        Plus(e) | Star(e) => {
            let ps = loop_positions(e, w, i);
            let inner = matches!(re, Plus(_)) && off_stop;
            for p in 0..=w.len() {
                if ps >> p & 1 == 1 {
                    alive(e, w, p, inner, out);
                }
            }
        }
        Lit(_) | Pred(_) | Empty | Nothing => {}
    }
}

/// expected tag set after `w` — for every reachable state, accepting or not, tags in any position, re-tagged
/// blocks included (C15_tags_alive)
fn oracle_tags(re: &Re, w: &[u8]) -> Option<BTreeSet<u64>> {
    let mut out = BTreeSet::new();
    alive(re, w, 0, false, &mut out);
    Some(out)
}

/// the tag on the stop state of the automaton of `re` (what a `tag_stop_state` around it replaces)
fn stop_tag(re: &Re) -> Option<u64> {
    match re {
        Seq(es) => es.last().and_then(stop_tag),
        Plus(e) => stop_tag(e),
        Tag(t, _) => Some(*t),
        _ => None,
    }
}

/// some `tag_stop_state` lands on a state that already carries a tag
fn has_retag(re: &Re) -> bool {
    match re {
        Seq(es) | Alt(es) => es.iter().any(has_retag),
        Opt(e) | Plus(e) | Star(e) => has_retag(e),
        Tag(_, e) => has_retag(e) || stop_tag(e).is_some(),
        _ => false,
    }
}

/* ---------- tag types of the crate itself (the tag clause is generic in the tag type) ---------- */

const ATLAS: usize = 12;

/// `ATLAS` images of the same size cut from ONE pixel buffer (built from raw parts: buffer + shape); image
/// `k` is identified by the `start` offset of its shape, a plain field
fn atlas_images() -> Vec<Image> {
    let data: std::sync::Arc<[RGBA]> = (0..ATLAS).map(|k| RGBA::new(20 * k as u8, 7, 9, 255)).collect::<Vec<_>>().into();
    (0..ATLAS)
        .map(|k| Image::from_parts(data.clone(), Shape { start: k, end: k + 1, width: 1, height: 1, row_stride: ATLAS, col_stride: 1 }))
        .collect()
}

fn image_index(img: &Image) -> u64 {
    img.shape().start as u64
}

fn command_of(imgs: &[Image], t: u64) -> TerminalCommand {
    let img = imgs[t as usize % ATLAS].clone();
    if t % 2 == 0 { TerminalCommand::Image(img, Position::new(0, 0)) } else { TerminalCommand::ImageErase(img, None) }
}

fn command_index(cmd: &TerminalCommand) -> u64 {
    match cmd {
        TerminalCommand::Image(img, _) | TerminalCommand::ImageErase(img, _) => image_index(img),
        _ => u64::MAX,
    }
}

/// `MatcherTag::Matcher(i)` on the wire
fn mk_tag(i: usize) -> u64 {
    1000 + i as u64
}

/// what is checked: an expression, or matchers combined as `MatcherAutomata::new` (decoder.rs) combines them
enum Subject {
    Expr(Re),
    /// `(true, g)`: `Either::Left(g)` -> `g.tags_map(|_| Matcher(i)).tag_stop_state(Matcher(i))`;
    /// `(false, g)`: `Either::Right(g)` -> `g.tags_map(Item)`
    Production(Vec<(bool, Re)>),
}

impl Subject {
    fn src(&self) -> String {
        match self {
            Subject::Expr(re) => re.show(),
            Subject::Production(ms) => {
                let mut s = format!("M {}", ms.len());
                for (parsed, re) in ms {
                    s.push_str(if *parsed { " L " } else { " R " });
                    re.tokens(&mut s);
                }
                s
            }
        }
    }
    fn parse(src: &str) -> Option<Subject> {
        let toks: Vec<&str> = src.split(' ').collect();
        let mut it = toks.iter();
        if toks.first() == Some(&"M") {
            it.next();
            let k: usize = it.next()?.parse().ok()?;
            let mut ms = vec![];
            for _ in 0..k {
                let side = *it.next()?;
                ms.push((side == "L", Re::parse(&mut it)?));
            }
            Some(Subject::Production(ms))
        } else {
            Re::parse(&mut it).map(Subject::Expr)
        }
    }
    /// the language as one expression (tags do not matter for matching)
    fn lang(&self) -> Re {
        match self {
            Subject::Expr(re) => re.clone(),
            Subject::Production(ms) => Alt(ms.iter().map(|m| m.1.clone()).collect()),
        }
    }
    /// through the PUBLIC api
    fn build(&self) -> NFA<u64> {
        match self {
            Subject::Expr(re) => re.build(),
            Subject::Production(ms) => NFA::choice(ms.iter().enumerate().map(|(i, (parsed, re))| {
                if *parsed {
                    re.build().tags_map(move |_| mk_tag(i)).tag_stop_state(mk_tag(i))
                } else {
                    re.build().tags_map(|t| t)
                }
            })),
        }
    }
    /// C15_tags / C15_tags_choice / C15_tags_production_re
    fn tags(&self, w: &[u8]) -> Option<BTreeSet<u64>> {
        match self {
            Subject::Expr(re) => oracle_tags(re, w),
            Subject::Production(ms) => {
                let mut tags = BTreeSet::new();
                for (i, (parsed, re)) in ms.iter().enumerate() {
                    if *parsed {
                        // Matcher(i): the matcher has matched, or one of its own (erased) tags is alive
                        if oracle_matches(re, w) || !oracle_tags(re, w)?.is_empty() {
                            tags.insert(mk_tag(i));
                        }
                    } else {
                        tags.extend(oracle_tags(re, w)?);
                    }
                }
                Some(tags)
            }
        }
    }
}

/* ---------- dumps ---------- */

fn runs(edges: &[(u8, usize)]) -> String {
    if edges.is_empty() {
        return "-".into();
    }
    let mut parts = vec![];
    let mut i = 0;
    while i < edges.len() {
        let (lo, t) = edges[i];
        let mut hi = lo;
        let mut j = i + 1;
        while j < edges.len() && edges[j].1 == t && edges[j].0 as usize == hi as usize + 1 {
            hi = edges[j].0;
            j += 1;
        }
        parts.push(format!("{lo:02x}-{hi:02x}>{t}"));
        i = j;
    }
    parts.join(",")
}

fn list(xs: impl Iterator<Item = String>) -> String {
    let v: Vec<String> = xs.collect();
    if v.is_empty() { "-".into() } else { v.join(",") }
}

/// `start stop n st0;st1;…`, `st = edges/eps/tag`; ids must be dense and in order
fn dump_nfa(nfa: &NFA<u64>) -> String {
    let d = nfa.verif_dump();
    let mut sts = vec![];
    for (i, st) in d.states.iter().enumerate() {
        let id = if st.id == i { String::new() } else { format!("id{}!", st.id) };
        sts.push(format!(
            "{id}{}/{}/{}",
            runs(&st.edges),
            list(st.epsilons.iter().map(|e| e.to_string())),
            st.tag.map(|t| t.to_string()).unwrap_or("-".into())
        ));
    }
    format!("{} {} {} {}", d.start, d.stop, d.states.len(), sts.join(";"))
}

struct Table {
    rows: Vec<(bool, bool, Vec<u64>, Vec<(u8, usize)>)>,
    ids: Vec<DFAState>,
}

/// the DFA as seen through its public API: BFS from `start()`, states numbered by discovery
fn dfa_table(dfa: &DFA<u64>) -> Table {
    let mut index: HashMap<DFAState, usize> = HashMap::new();
    let mut ids = vec![dfa.start()];
    index.insert(dfa.start(), 0);
    let mut rows = vec![];
    let mut i = 0;
    while i < ids.len() {
        let s = ids[i];
        let info = dfa.info(s);
        let mut edges = vec![];
        for b in 0..=255u8 {
            if let Some(t) = dfa.transition(s, b) {
                let n = ids.len();
                let j = *index.entry(t).or_insert_with(|| {
                    ids.push(t);
                    n
                });
                edges.push((b, j));
            }
        }
        rows.push((info.is_accepting, info.is_terminal, info.tags.iter().cloned().collect(), edges));
        i += 1;
    }
    Table { rows, ids }
}

fn show_table(t: &Table) -> String {
    let rows: Vec<String> = t
        .rows
        .iter()
        .map(|(a, term, tags, edges)| {
            let mut f = String::new();
            if *a {
                f.push('a');
            }
            if *term {
                f.push('t');
            }
            if f.is_empty() {
                f.push('-');
            }
            format!("{f}/{}/{}", list(tags.iter().map(|t| t.to_string())), runs(edges))
        })
        .collect();
    format!("{} {}", t.rows.len(), rows.join(";"))
}

/* ---------- generation ---------- */

const LETTERS: &[u8] = b"abc";

fn gen_atom(rng: &mut Rng) -> Re {
    match rng.below(14) {
        0..=3 => Lit(vec![*rng.pick(LETTERS)]),
        4 => Lit((0..rng.range(2, 3)).map(|_| *rng.pick(LETTERS)).collect()),
        5 => Lit(vec![]),
        6 => Pred(vec![(b'a', b'b')]),
        7 => Pred(vec![(b'b', b'c')]),
        8 => Pred(vec![(b'0', b'9')]),
        9 => match rng.below(4) {
            0 => Pred(vec![]),
            1 => Pred(vec![(0, 255)]),
            2 => Pred(vec![(0, b'a' - 1), (b'a' + 1, 255)]),
            _ => Pred(vec![(b'a', b'a'), (b'c', b'c')]),
        },
        10 => Empty,
        // literals are `&str`: multi-byte UTF-8 goes through `From<&str>` byte by byte
        11 => Lit(rng.pick(&["\u{e9}", "\u{ff}", "a\u{20ac}", "\u{e9}b", "\u{10348}"]).as_bytes().to_vec()),
        // predicates over the upper half, 0xFF included
        12 => match rng.below(5) {
            0 => Pred(vec![(0x80, 0xff)]),
            1 => Pred(vec![(0xff, 0xff)]),
            2 => Pred(vec![(0xc3, 0xc3)]),
            3 => Pred(vec![(0xa9, 0xbf)]),
            _ => Pred(vec![(b'a', b'a'), (0xfe, 0xff)]),
        },
        _ => {
            if rng.chance(1, 3) {
                Nothing
            } else {
                Lit(vec![*rng.pick(LETTERS)])
            }
        }
    }
}

/// matchers as the decoder registers them: parsed families (tag-free grammars) and item tables
fn gen_production(rng: &mut Rng, depth: usize) -> Vec<(bool, Re)> {
    let k = rng.range(1, 4) as usize;
    (0..k)
        .map(|_| {
            if rng.chance(2, 3) {
                let g = gen_re(rng, depth.saturating_sub(1));
                // now and then a parsed matcher that carries (erased) tags of its own
                (true, if rng.chance(1, 8) { sprinkle_tags(rng, g) } else { g })
            } else {
                (false, gen_tagged(rng, depth.saturating_sub(1)))
            }
        })
        .collect()
}

/// operand that begins or ends with a loop (the shapes on which in-place ε-edges go wrong)
fn gen_loopy(rng: &mut Rng, depth: usize) -> Re {
    let x = gen_re(rng, depth.saturating_sub(2));
    let y = gen_re(rng, depth.saturating_sub(2));
    let lp = |rng: &mut Rng, e: Re| match rng.below(3) {
        0 => Plus(Box::new(e)),
        1 => Star(Box::new(e)),
        _ => Opt(Box::new(Plus(Box::new(e)))),
    };
    match rng.below(6) {
        0 => Seq(vec![lp(rng, x), y]),
        1 => Seq(vec![x, lp(rng, y)]),
        2 => lp(rng, x),
        3 => Alt(vec![Seq(vec![lp(rng, x.clone()), y.clone()]), Seq(vec![y, lp(rng, x)])]),
        4 => Seq(vec![lp(rng, x.clone()), y, lp(rng, x)]),
        _ => Seq(vec![Empty, lp(rng, x), Seq(vec![])]),
    }
}

fn gen_re(rng: &mut Rng, depth: usize) -> Re {
    if depth == 0 {
        return gen_atom(rng);
    }
    match rng.below(20) {
        0..=1 => gen_atom(rng),
        2..=5 => {
            let k = *rng.pick(&[0usize, 1, 2, 2, 2, 3, 3, 4]);
            Seq((0..k).map(|_| gen_re(rng, depth - 1)).collect())
        }
        6..=9 => {
            let k = *rng.pick(&[0usize, 1, 2, 2, 2, 3, 3, 4]);
            Alt((0..k).map(|_| gen_re(rng, depth - 1)).collect())
        }
        10..=11 => Opt(Box::new(gen_re(rng, depth - 1))),
        12..=13 => Plus(Box::new(gen_re(rng, depth - 1))),
        14..=15 => Star(Box::new(gen_re(rng, depth - 1))),
        16 => Opt(Box::new(gen_loopy(rng, depth - 1))),
        17 => Plus(Box::new(gen_loopy(rng, depth - 1))),
        18 => Star(Box::new(gen_loopy(rng, depth - 1))),
        _ => gen_loopy(rng, depth),
    }
}

/// a choice whose alternatives carry tags (some without, some tags repeated)
fn gen_tagged(rng: &mut Rng, depth: usize) -> Re {
    let k = rng.range(1, 5) as usize;
    Alt((0..k)
        .map(|_| {
            let body = gen_re(rng, depth.saturating_sub(1));
            if rng.chance(4, 5) { Tag(rng.range(1, 4) as u64, Box::new(body)) } else { body }
        })
        .collect())
}

/// tagged sub-expressions that are NOT the last component: a tagged choice followed by a suffix, an optional
/// tagged prefix, a tagged choice under a loop — the tags show on non-accepting states
fn gen_tagged_inside(rng: &mut Rng, depth: usize) -> Re {
    let d = depth.saturating_sub(2);
    let choice = gen_tagged(rng, d);
    let x = gen_re(rng, d);
    let y = gen_re(rng, d);
    match rng.below(6) {
        0 => Seq(vec![x, choice, y]),
        1 => Seq(vec![choice, y]),
        2 => Seq(vec![Opt(Box::new(Tag(rng.range(1, 9) as u64, Box::new(x)))), y]),
        3 => Plus(Box::new(Seq(vec![choice, y]))),
        4 => Seq(vec![Star(Box::new(choice)), y]),
        _ => Alt(vec![Seq(vec![choice, x]), Tag(rng.range(1, 9) as u64, Box::new(y))]),
    }
}

/// alternatives assembled from an already tagged building block and then given their own tag
/// (`tag_stop_state` replaces): `word | ("x" word)<p> | (word+)<r>`
fn gen_retagged(rng: &mut Rng, depth: usize) -> Re {
    let body = gen_re(rng, depth.saturating_sub(2));
    let word = Tag(rng.range(1, 4) as u64, Box::new(body));
    let x = gen_atom(rng);
    let mut alts = vec![word.clone()];
    for _ in 0..rng.range(1, 3) {
        let t = rng.range(5, 9) as u64;
        alts.push(match rng.below(5) {
            0 => Tag(t, Box::new(Seq(vec![x.clone(), word.clone()]))),
            1 => Tag(t, Box::new(Plus(Box::new(word.clone())))),
            2 => Tag(t, Box::new(word.clone())),
            3 => Tag(t, Box::new(Seq(vec![word.clone(), Plus(Box::new(word.clone()))]))),
            _ => Tag(t, Box::new(Plus(Box::new(Seq(vec![x.clone(), word.clone()]))))),
        });
    }
    Alt(alts)
}

/// tags in arbitrary positions (exercises `tag_stop_state` + `merge_states` tag transport)
fn sprinkle_tags(rng: &mut Rng, re: Re) -> Re {
    let re = match re {
        Seq(es) => Seq(es.into_iter().map(|e| sprinkle_tags(rng, e)).collect()),
        Alt(es) => Alt(es.into_iter().map(|e| sprinkle_tags(rng, e)).collect()),
        Opt(e) => Opt(Box::new(sprinkle_tags(rng, *e))),
        Plus(e) => Plus(Box::new(sprinkle_tags(rng, *e))),
        Star(e) => Star(Box::new(sprinkle_tags(rng, *e))),
        Tag(t, e) => Tag(t, Box::new(sprinkle_tags(rng, *e))),
        other => other,
    };
    if rng.chance(1, 5) { Tag(rng.range(1, 9) as u64, Box::new(re)) } else { re }
}

fn corner_cases() -> Vec<Re> {
    let l = |s: &str| Lit(s.as_bytes().to_vec());
    let plus = |e: Re| Plus(Box::new(e));
    let star = |e: Re| Star(Box::new(e));
    let opt = |e: Re| Opt(Box::new(e));
    let tag = |t: u64, e: Re| Tag(t, Box::new(e));
    let digit = || Pred(vec![(b'0', b'9')]);
    vec![
        opt(Seq(vec![plus(l("a")), l("b")])),
        opt(Seq(vec![l("a"), plus(l("b"))])),
        opt(plus(l("a"))),
        opt(star(l("a"))),
        opt(opt(l("a"))),
        plus(Seq(vec![plus(l("a")), l("b")])),
        plus(Seq(vec![l("a"), plus(l("b"))])),
        plus(plus(l("a"))),
        plus(opt(l("a"))),
        plus(star(l("a"))),
        star(Seq(vec![plus(l("a")), l("b")])),
        star(Seq(vec![l("a"), star(l("b"))])),
        star(star(l("a"))),
        star(plus(l("a"))),
        star(opt(l("a"))),
        Seq(vec![]),
        Alt(vec![]),
        Seq(vec![Seq(vec![]), Alt(vec![])]),
        Alt(vec![Seq(vec![]), Alt(vec![])]),
        opt(Empty),
        plus(Empty),
        star(Empty),
        opt(Nothing),
        plus(Nothing),
        star(Nothing),
        Seq(vec![Nothing, l("a")]),
        Seq(vec![l("a"), Nothing]),
        Seq(vec![Empty, plus(l("a")), Empty]),
        Seq(vec![l("a"), Seq(vec![]), l("b")]),
        Seq(vec![l("a")]),
        Alt(vec![l("a")]),
        Alt(vec![Empty, l("a")]),
        Seq(vec![star(l("a")), star(l("a"))]),
        Seq(vec![plus(l("a")), plus(l("a")), l("a")]),
        Seq(vec![Empty, Empty]),
        plus(Seq(vec![Empty, Empty])),
        star(Seq(vec![opt(l("a")), opt(l("b"))])),
        l(""),
        l("abc"),
        plus(l("")),
        Pred(vec![]),
        star(Pred(vec![(0, 255)])),
        Seq(vec![star(Pred(vec![(0, 255)])), l("a"), star(Pred(vec![(0, 255)]))]),
        opt(Seq(vec![star(Alt(vec![l("a"), l("b")])), l("a")])),
        Alt(vec![tag(1, l("abc")), tag(2, l("abd"))]),
        Alt(vec![tag(1, plus(l("a"))), tag(2, l("a")), tag(1, l("ab")), l("b")]),
        Alt(vec![tag(1, star(l("a"))), tag(2, opt(l("a"))), tag(3, Empty), tag(4, Nothing)]),
        Alt(vec![tag(1, l("a")), tag(1, l("a"))]),
        Alt(vec![tag(1, l("a")), Alt(vec![tag(2, l("a")), tag(3, l("b"))])]),
        Seq(vec![Alt(vec![tag(1, l("a")), tag(2, l("b"))]), l("c")]),
        plus(tag(5, l("a"))),
        tag(1, tag(2, l("a"))),
        tag(7, Empty),
        // literals beyond ASCII (`From<&str>` walks bytes), predicates over the upper half
        l("\u{e9}"),
        Seq(vec![l("\u{e9}"), plus(Pred(vec![(0x80, 0xff)])), l("a\u{20ac}")]),
        Alt(vec![tag(1, l("\u{ff}")), tag(2, Pred(vec![(0xff, 0xff)])), tag(3, Seq(vec![Pred(vec![(0xc3, 0xc3)]), Pred(vec![(0x80, 0xbf)])]))]),
        star(Pred(vec![(0xfe, 0xff)])),
        Alt(vec![Alt(vec![tag(1, l("a")), tag(2, plus(l("a")))]), Alt(vec![tag(3, l("ab")), tag(1, star(l("a")))]), tag(4, l("b"))]),
        // re-tagging replaces the tag of the stop state
        Alt(vec![tag(1, l("ab")), tag(2, Seq(vec![l("x"), tag(1, l("ab"))])), tag(3, plus(tag(1, l("ab"))))]),
        tag(2, Seq(vec![tag(1, l("a")), plus(tag(1, l("a")))])),
        // tags on components that are not the last one: reported on non-accepting states
        Seq(vec![l("<"), Alt(vec![tag(1, l("a")), tag(2, plus(l("b"))), tag(3, l("ab")), tag(4, Seq(vec![l("a"), star(l("b"))]))]), l(">")]),
        Seq(vec![opt(tag(7, l("x"))), l("y")]),
        plus(Seq(vec![Alt(vec![tag(1, l("a")), tag(2, l("aa"))]), l("b")])),
        Seq(vec![star(tag(3, Pred(vec![(b'0', b'9')]))), l(";")]),
        // shapes of the production grammars
        Seq(vec![l("\x1b["), plus(Seq(vec![plus(digit()), opt(l(";"))])), l("m")]),
        Seq(vec![l("\x1b["), plus(digit()), l(";"), plus(digit()), l("R")]),
        Seq(vec![
            l("\x1bP1+r"),
            opt(Seq(vec![
                plus(digit()),
                l("="),
                plus(digit()),
                star(Seq(vec![l(";"), plus(digit()), l("="), plus(digit())])),
            ])),
            l("\x1b\\"),
        ]),
        Seq(vec![l("\x1b]"), plus(digit()), l(";"), plus(Pred(vec![(0, 6), (8, 0x1a), (0x1c, 255)])), Alt(vec![l("\x1b\\"), l("\x07")])]),
    ]
}

/// one random member of the language (None when the sub-language is empty)
/// `MatcherAutomata::new` shapes: parsed families next to an item table
fn production_corner_cases() -> Vec<Vec<(bool, Re)>> {
    let l = |s: &str| Lit(s.as_bytes().to_vec());
    let plus = |e: Re| Plus(Box::new(e));
    let tag = |t: u64, e: Re| Tag(t, Box::new(e));
    let digit = || Pred(vec![(b'0', b'9')]);
    let keys = || Alt(vec![tag(1, l("\x1b[A")), tag(2, l("\x1b[B")), tag(3, l("\x1b")), tag(1, l("\x1bOA"))]);
    vec![
        vec![(true, Seq(vec![l("\x1b["), plus(digit()), l(";"), plus(digit()), l("R")])), (false, keys())],
        vec![(false, keys()), (true, Seq(vec![l("\x1b["), plus(digit()), l("A")])), (true, l("\x1b[A"))],
        vec![(true, l("a")), (true, plus(l("a"))), (true, Empty)],
        vec![(false, keys())],
        vec![(true, tag(5, l("a")))],
        vec![],
    ]
}

fn gen_member(re: &Re, rng: &mut Rng, budget: &mut usize) -> Option<Vec<u8>> {
    match re {
        Lit(s) => Some(s.clone()),
        Pred(rs) => {
            if rs.is_empty() {
                return None;
            }
            let (lo, hi) = *rng.pick(rs);
            Some(vec![match rng.below(4) {
                0 => lo,
                1 => hi,
                _ => rng.range(lo as i64, hi as i64) as u8,
            }])
        }
        Seq(es) => {
            let mut w = vec![];
            for e in es {
                w.extend(gen_member(e, rng, budget)?);
            }
            Some(w)
        }
        Alt(es) => {
            if es.is_empty() {
                return None;
            }
            let k = rng.below(es.len() as u64) as usize;
            (0..es.len()).find_map(|d| gen_member(&es[(k + d) % es.len()], rng, budget))
        }
        Opt(e) => {
            if rng.chance(1, 3) {
                Some(vec![])
            } else {
                Some(gen_member(e, rng, budget).unwrap_or_default())
            }
        }
        Plus(e) | Star(e) => {
            let min = if matches!(re, Plus(_)) { 1 } else { 0 };
            let k = if *budget == 0 { min } else { rng.range(min, 3) };
            *budget = budget.saturating_sub(1);
            let mut w = vec![];
            for _ in 0..k {
                w.extend(gen_member(e, rng, budget)?);
            }
            Some(w)
        }
        Empty => Some(vec![]),
        Nothing => None,
        Tag(_, e) => gen_member(e, rng, budget),
    }
}

/// one representative byte per class of bytes that no atom of the expression tells apart
fn effective_alphabet(re: &Re) -> Vec<u8> {
    let mut atoms = vec![];
    re.atoms(&mut atoms);
    let mut seen: HashMap<Vec<bool>, (u8, u8)> = HashMap::new();
    let mut order = vec![];
    for b in 0..=255u8 {
        let sig: Vec<bool> = atoms
            .iter()
            .flat_map(|a| match a {
                Lit(s) => s.iter().map(|c| *c == b).collect::<Vec<_>>(),
                Pred(rs) => vec![in_ranges(rs, b)],
                _ => vec![],
            })
            .collect();
        match seen.get_mut(&sig) {
            Some(mm) => mm.1 = b,
            None => {
                seen.insert(sig.clone(), (b, b));
                order.push(sig);
            }
        }
    }
    let mut reps: Vec<u8> = order.iter().map(|sig| seen[sig].0).collect();
    // bytes used by the expression first, the "no atom matches" class last
    reps.sort_by_key(|b| {
        let used = atoms.iter().any(|a| match a {
            Lit(s) => s.contains(b),
            Pred(rs) => in_ranges(rs, *b),
            _ => false,
        });
        (!used, *b)
    });
    // then the largest byte of every class (0xFF among them), used for members, mutants and extensions
    for sig in &order {
        let (lo, hi) = seen[sig];
        if hi != lo {
            reps.push(hi);
        }
    }
    reps
}

fn mutate(w: &[u8], alphabet: &[u8], rng: &mut Rng) -> Vec<u8> {
    let mut v = w.to_vec();
    let sym = |rng: &mut Rng| if alphabet.is_empty() { b'a' } else { *rng.pick(alphabet) };
    match rng.below(7) {
        0 if !v.is_empty() => {
            v.remove(rng.below(v.len() as u64) as usize);
        }
        1 => {
            let p = rng.below(v.len() as u64 + 1) as usize;
            v.insert(p, sym(rng));
        }
        2 if !v.is_empty() => {
            let p = rng.below(v.len() as u64) as usize;
            v[p] = sym(rng);
        }
        3 if v.len() >= 2 => {
            let p = rng.below(v.len() as u64 - 1) as usize;
            v.swap(p, p + 1);
        }
        4 if !v.is_empty() => {
            v.truncate(rng.below(v.len() as u64) as usize);
        }
        5 if !v.is_empty() => {
            let p = rng.below(v.len() as u64) as usize;
            let c = v[p];
            v.insert(p, c);
        }
        _ => v.push(sym(rng)),
    }
    v.truncate(40);
    v
}

/* ---------- checking one expression ---------- */

struct Ctx {
    out: Out,
    enum_budget: usize,
    words_per_expr: usize,
    with_corr: bool,
}

fn observe(dfa: &DFA<u64>, w: &[u8]) -> Option<(bool, bool, Vec<u64>)> {
    let s = dfa.transition_many(dfa.start(), w.iter().copied())?;
    let info = dfa.info(s);
    Some((info.is_accepting, info.is_terminal, info.tags.iter().cloned().collect()))
}

fn show_obs(o: &Option<(bool, bool, Vec<u64>)>) -> String {
    match o {
        None => "dead".into(),
        Some((a, t, tags)) => format!("{}{}:{}", *a as u8, *t as u8, list(tags.iter().map(|t| t.to_string()))),
    }
}

impl Ctx {
    /// returns false when an oracle failure was recorded.  `extended`: proper prefixes of every string of this
    /// subject (enumerated, member, mutant) that the oracle accepts
    #[allow(clippy::too_many_arguments)]
    fn check_word(
        &mut self,
        subject: &Subject,
        lang: &Re,
        src: &str,
        dfa: &DFA<u64>,
        alphabet: &[u8],
        extended: &HashSet<Vec<u8>>,
        w: &[u8],
    ) -> bool {
        let got = guarded(|| (dfa.matches(w.iter().copied()), observe(dfa, w)));
        let expected = oracle_matches(lang, w);
        let input = json!({"re": src, "word": hex(w)});
        // `transition_many` is the iteration of `transition` from `start()` (same state or both dead)
        let stepped = guarded(|| {
            let mut st = Some(dfa.start());
            for b in w {
                st = match st {
                    Some(s) => dfa.transition(s, *b),
                    None => None,
                };
            }
            (st, dfa.transition_many(dfa.start(), w.iter().copied()))
        });
        if let Ok((a, b)) = stepped {
            if a != b {
                self.out.fail(
                    "transition_many is not the iteration of transition",
                    input.clone(),
                    json!(format!("{a:?}")),
                    json!(format!("{b:?}")),
                );
                return false;
            }
        }
        let Ok((got_match, obs)) = got else {
            self.out.fail("DFA API panicked", input, json!(expected), json!("panic"));
            return false;
        };
        let mut ok = true;
        if got_match != expected {
            self.out.fail(
                "DFA::matches disagrees with the regular expression",
                input.clone(),
                json!(expected),
                json!(got_match),
            );
            ok = false;
        }
        // stepping is total and `matches` is what the stepping API says
        let acc = obs.as_ref().map(|o| o.0).unwrap_or(false);
        if acc != got_match {
            self.out.fail("matches differs from is_accepting of the state reached", input.clone(), json!(got_match), json!(acc));
            ok = false;
        }
        if let Some(exp_tags) = subject.tags(w) {
            let got_tags: BTreeSet<u64> = obs.as_ref().map(|o| o.2.iter().cloned().collect()).unwrap_or_default();
            if got_tags != exp_tags {
                self.out.fail(
                    "tags after the string are not those of the matching alternatives",
                    input.clone(),
                    json!(exp_tags),
                    json!(got_tags),
                );
                ok = false;
            }
        }
        if let Some((_, true, _)) = obs {
            // terminal: no byte can extend the match — no enumerated, member or mutant string of this subject
            // extends `w`, and no string `w b` / `w b c` over the whole effective alphabet does
            let mut witness: Option<Vec<u8>> = None;
            if extended.contains(w) {
                witness = Some(w.to_vec());
            } else if w.len() + 2 < 60 {
                'ext: for &b in alphabet {
                    for c in std::iter::once(None).chain(alphabet.iter().map(|c| Some(*c))) {
                        let mut v = w.to_vec();
                        v.push(b);
                        v.extend(c);
                        if oracle_matches(lang, &v) {
                            witness = Some(v);
                            break 'ext;
                        }
                    }
                }
            }
            if let Some(v) = witness {
                self.out.fail(
                    "state reported terminal although an extension matches",
                    input.clone(),
                    json!("not terminal"),
                    json!({"terminal_after": hex(w), "matching_extension_or_prefix_of_one": hex(&v)}),
                );
                ok = false;
            }
        }
        ok
    }

    /// the same automaton with the integer tags replaced by values of the crate's own tag types (`Image`, and
    /// `TerminalCommand` — the tag type of the production command automaton): every alternative's tag must
    /// still be reported, i.e. tags that are different values must stay different members of the tag set
    fn crate_tag_types<'a>(&mut self, re: &Re, src: &str, words: impl Iterator<Item = &'a Vec<u8>>) {
        let imgs = atlas_images();
        let built = guarded(|| {
            let a = re.build().tags_map(|t| imgs[t as usize % ATLAS].clone()).compile();
            let b = re.build().tags_map(|t| command_of(&imgs, t)).compile();
            (a, b)
        });
        let Ok((dfa_img, dfa_cmd)) = built else {
            self.out.fail("building or compiling the automaton with Image tags panicked", json!({"re": src, "word": "-"}), json!("no panic"), json!("panic"));
            return;
        };
        self.out.hist("tag-types:Image+TerminalCommand");
        for w in words {
            let Some(expected) = oracle_tags(re, w) else { continue };
            let expected: BTreeSet<u64> = expected.iter().map(|t| t % ATLAS as u64).collect();
            let got_img: Option<Vec<u64>> = guarded(|| {
                dfa_img.transition_many(dfa_img.start(), w.iter().copied()).map(|s| dfa_img.info(s).tags.iter().map(image_index).collect::<Vec<u64>>())
            })
            .unwrap_or(None);
            let got_cmd: Option<Vec<u64>> = guarded(|| {
                dfa_cmd.transition_many(dfa_cmd.start(), w.iter().copied()).map(|s| dfa_cmd.info(s).tags.iter().map(command_index).collect::<Vec<u64>>())
            })
            .unwrap_or(None);
            for (ty, got) in [("Image", got_img), ("TerminalCommand", got_cmd)] {
                let got = got.unwrap_or_default();
                let got_set: BTreeSet<u64> = got.iter().cloned().collect();
                if got_set != expected || got.len() != expected.len() {
                    self.out.fail(
                        "tags after the string are not those of the matching alternatives (tag type of the crate)",
                        json!({"re": src, "word": hex(w), "tag_type": ty, "tags": "tag t is the t-th same-sized image cut from one pixel buffer (identified by the start offset of its shape)"}),
                        json!(expected),
                        json!(got),
                    );
                    return;
                }
            }
        }
    }

    fn check_subject(&mut self, subject: &Subject, rng: &mut Rng, class: &str) {
        let src = subject.src();
        let lang = subject.lang();
        let nodes = lang.nodes();
        let built = guarded(|| {
            let nfa = subject.build();
            let dfa = nfa.compile();
            (nfa, dfa)
        });
        let Ok((nfa, dfa)) = built else {
            self.out.fail("building or compiling the automaton panicked", json!({"re": src, "word": "-"}), json!("no panic"), json!("panic"));
            return;
        };
        let dump = dump_nfa(&nfa);
        let table = dfa_table(&dfa);
        // `compile(&self)` leaves the automaton as it was and gives the same DFA again; `size()` of both
        // automata is what the dump / the exploration through the public API show
        {
            let again = guarded(|| (dump_nfa(&nfa), show_table(&dfa_table(&nfa.compile()))));
            let first = (dump.clone(), show_table(&table));
            if again.as_ref().ok() != Some(&first) {
                self.out.fail("compiling a second time gives a different automaton", json!({"re": src, "word": "-"}), json!(first.1), json!(again.map(|a| a.1).unwrap_or("panic".into())));
            }
            let states_in_dump = dump.split(' ').nth(2).and_then(|n| n.parse::<usize>().ok());
            if states_in_dump != Some(nfa.size()) || dfa.size() != table.ids.len() {
                self.out.fail(
                    "size() disagrees with the states of the automaton",
                    json!({"re": src, "word": "-"}),
                    json!({"nfa_states_dumped": states_in_dump, "dfa_states_reachable": table.ids.len()}),
                    json!({"nfa_size": nfa.size(), "dfa_size": dfa.size()}),
                );
            }
        }
        let alphabet = effective_alphabet(&lang);
        self.out.case(&src, nodes >= 3);
        self.out.hist(&format!("class:{class}"));
        self.out.hist(&format!("top:{}", lang.kind()));
        self.out.hist(&format!("depth:{}", lang.depth()));
        self.out.hist(&format!("nfa-states:{}", match nfa.size() { 0..=4 => "1-4", 5..=16 => "5-16", 17..=64 => "17-64", _ => "65+" }));
        self.out.hist(&format!("dfa-states:{}", match table.ids.len() { 0..=2 => "1-2", 3..=8 => "3-8", 9..=32 => "9-32", _ => "33+" }));
        {
            let mut atoms = vec![];
            lang.atoms(&mut atoms);
            if atoms.iter().any(|a| match a {
                Lit(s) => s.iter().any(|b| *b >= 0x80),
                Pred(rs) => rs.iter().any(|(lo, hi)| *hi >= 0x80 && *lo > 0),
                _ => false,
            }) {
                self.out.hist("atoms:bytes>=0x80");
            }
        }
        if self.with_corr {
            // (1) structure, numbering included …
            self.out.corr(&format!("c15 dump {src}"), &dump);
            // … and the class of the difference, should there be one: `equal`, `representation-only …`
            // (renumbering / other NFA with the same observable DFA) or `different: …`
            self.out.corr(&format!("c15 dumpcmp {src} | {dump}"), "equal");
            if let Subject::Expr(re) = subject {
                if re.has_tag() && nodes % 3 == 0 {
                    // `tags_map` renames tags and nothing else
                    let k = (nodes % 5) as u64 + 1;
                    if let Ok(mapped) = guarded(|| dump_nfa(&re.build().tags_map(|t| t + k))) {
                        self.out.corr(&format!("c15 dumpmap {k} {src}"), &mapped);
                        self.out.hist("tags_map");
                    }
                }
            }
            // (2) exhaustive bisimulation with the model's subset automaton
            self.out.corr(&format!("c15 bisim {dump} | {}", show_table(&table)), &format!("ok {}", table.ids.len()));
        }

        // all strings over the effective alphabet up to the budgeted length (shortest first) …
        let k = alphabet.len().clamp(1, 5);
        let mut maxlen = 0;
        let mut total = 1usize;
        while maxlen < 6 && total + k.pow(maxlen as u32 + 1) <= self.enum_budget {
            maxlen += 1;
            total += k.pow(maxlen as u32);
        }
        let syms = &alphabet[..k.min(alphabet.len())];
        let mut enumerated: Vec<Vec<u8>> = vec![vec![]];
        let mut level: Vec<Vec<u8>> = vec![vec![]];
        for _ in 0..maxlen {
            level = level.iter().flat_map(|w| syms.iter().map(move |s| { let mut v = w.clone(); v.push(*s); v })).collect();
            enumerated.extend(level.iter().cloned());
        }
        self.out.hist(&format!("enum-len:{maxlen}"));

        // … (3) members and near-miss mutants
        let mut words: Vec<Vec<u8>> = vec![];
        for _ in 0..self.words_per_expr / 3 {
            let mut budget = 6;
            if let Some(m) = gen_member(&lang, rng, &mut budget) {
                let mut m = m;
                m.truncate(40);
                for _ in 0..2 {
                    let mut x = mutate(&m, &alphabet, rng);
                    if rng.chance(1, 4) {
                        x = mutate(&x, &alphabet, rng);
                    }
                    words.push(x);
                }
                words.push(m);
            } else {
                words.push((0..rng.below(4)).map(|_| if alphabet.is_empty() { b'a' } else { *rng.pick(&alphabet) }).collect());
            }
        }
        if lang.has_tag() {
            // tags are judged on every state on the way, accepting or not
            let prefixes: Vec<Vec<u8>> = words.iter().take(12).flat_map(|w| (0..w.len()).map(move |n| w[..n].to_vec())).collect();
            words.extend(prefixes);
        }
        words.sort();
        words.dedup();

        // proper prefixes of everything the oracle accepts: a terminal state must not be reached on any of them
        let mut extended: HashSet<Vec<u8>> = HashSet::new();
        let mut members = 0;
        for w in enumerated.iter().chain(words.iter()) {
            if oracle_matches(&lang, w) {
                members += 1;
                for n in 0..w.len() {
                    extended.insert(w[..n].to_vec());
                }
            }
        }
        self.out.hist(if members == 0 { "members:none" } else { "members:some" });

        for w in enumerated.iter().chain(words.iter()) {
            self.out.evaluations += 1;
            if !self.check_word(subject, &lang, &src, &dfa, &alphabet, &extended, w) {
                break;
            }
        }
        if let Subject::Expr(re) = subject {
            if re.has_tag() {
                if has_retag(re) {
                    self.out.hist("tags:retagged-block");
                }
                self.crate_tag_types(re, &src, enumerated.iter().chain(words.iter()));
            }
        }
        if self.with_corr && !words.is_empty() {
            let hexes: Vec<String> = words.iter().map(|w| hex(w)).collect();
            let obs: Vec<String> = words.iter().map(|w| show_obs(&observe(&dfa, w))).collect();
            self.out.corr(&format!("c15 run {dump} | {}", hexes.join(" ")), &obs.join(" "));
            // the verified matcher judges the implementation's verdicts
            let verdicts: Vec<&str> = words.iter().map(|w| if dfa.matches(w.iter().copied()) { "1" } else { "0" }).collect();
            self.out.oracle(&format!("c15 match {} | {}", lang.show(), hexes.join(" ")), &verdicts.join(" "));
        }
        if self.out.evaluations % 7 == 0 {
            self.out.sample(json!({"re": src, "nfa_states": nfa.size(), "dfa_states": table.ids.len(), "words": words.len(), "enumerated_up_to": maxlen}));
        }
    }
}

fn main() {
    let cfg = Cfg::from_env();
    verif_harness::silence_panics();
    let out = cfg.out();
    let mut ctx = Ctx {
        out,
        enum_budget: if cfg.thorough { 6000 } else { 800 },
        words_per_expr: if cfg.thorough { 48 } else { 30 },
        with_corr: true,
    };
    let mut rng = Rng::new(cfg.seed);

    if let Some(replay) = &cfg.replay {
        // re-run one recorded failure: the subject with the thorough enumeration, then its word
        let input = &replay["failure"]["input"];
        let src = input["re"].as_str().unwrap_or("").to_string();
        if let Some(subject) = Subject::parse(&src) {
            ctx.enum_budget = 6000;
            ctx.check_subject(&subject, &mut rng, "replay");
            if let Some(h) = input["word"].as_str() {
                let w: Vec<u8> = if h == "-" { vec![] } else { (0..h.len() / 2).filter_map(|i| u8::from_str_radix(&h[2 * i..2 * i + 2], 16).ok()).collect() };
                if let Ok((_, dfa)) = guarded(|| { let n = subject.build(); let d = n.compile(); (n, d) }) {
                    let lang = subject.lang();
                    let alphabet = effective_alphabet(&lang);
                    ctx.check_word(&subject, &lang, &src, &dfa, &alphabet, &HashSet::new(), &w);
                }
            }
        } else {
            ctx.out.fail("replay file has no parsable expression", input.clone(), Value::Null, Value::Null);
        }
        ctx.out.finish("replay of one recorded expression");
        return;
    }

    // the tag sets are `BTreeSet<T>`: they rely on `Ord` of the tag type agreeing with identity of the value.
    // The tag values of the crate's own types used below are checked for that law against RAW identity.
    {
        let imgs = atlas_images();
        let cmds: Vec<TerminalCommand> = (0..ATLAS as u64).map(|t| command_of(&imgs, t)).collect();
        let mut broken = vec![];
        for i in 0..ATLAS {
            for j in 0..ATLAS {
                let eq = imgs[i].cmp(&imgs[j]) == std::cmp::Ordering::Equal;
                if eq != (i == j) || imgs[i].cmp(&imgs[j]) != imgs[j].cmp(&imgs[i]).reverse() {
                    broken.push(format!("Image #{i} vs #{j}"));
                }
            }
        }
        for i in 0..cmds.len() {
            for j in 0..cmds.len() {
                let eq = cmds[i].cmp(&cmds[j]) == std::cmp::Ordering::Equal;
                if eq != (i == j) || cmds[i].cmp(&cmds[j]) != cmds[j].cmp(&cmds[i]).reverse() {
                    broken.push(format!("TerminalCommand #{i} vs #{j}"));
                }
            }
        }
        ctx.out.extra("ord_law_pairs_checked", json!(ATLAS * ATLAS + cmds.len() * cmds.len()));
        if !broken.is_empty() {
            // shown with the expression on which it matters: two alternatives tagged with such values
            ctx.out.extra("ord_law_broken", json!(broken.iter().take(6).collect::<Vec<_>>()));
        }
    }
    for re in corner_cases() {
        ctx.check_subject(&Subject::Expr(re), &mut rng, "corner");
    }
    for ms in production_corner_cases() {
        ctx.check_subject(&Subject::Production(ms), &mut rng, "corner-production");
    }
    let n_random: usize = if cfg.thorough { 100_000 } else { 4_000 };
    let mut made = 0;
    while made < n_random {
        let depth = 1 + (made % 6);
        let (subject, class) = match made % 12 {
            0..=5 => (Subject::Expr(gen_re(&mut rng, depth)), "plain"),
            6 => (Subject::Expr(gen_loopy(&mut rng, depth)), "loopy"),
            7..=8 => (Subject::Expr(gen_tagged(&mut rng, depth)), "tagged-choice"),
            9 => {
                // choice of tagged choices (tags of nested choices: C15_tags_choice)
                let k = rng.range(1, 3) as usize;
                (Subject::Expr(Alt((0..k).map(|_| gen_tagged(&mut rng, depth.saturating_sub(1))).collect())), "nested-tagged-choice")
            }
            10 if made % 24 == 10 => (Subject::Production(gen_production(&mut rng, depth)), "production-shape"),
            10 if made % 24 == 22 && made % 48 == 22 => (Subject::Expr(gen_retagged(&mut rng, depth)), "retagged-block"),
            10 => (Subject::Expr(gen_tagged_inside(&mut rng, depth)), "tagged-inside"),
            _ => {
                let e = gen_re(&mut rng, depth);
                (Subject::Expr(sprinkle_tags(&mut rng, e)), "tags-anywhere")
            }
        };
        let lang = subject.lang();
        if lang.nodes() > 48 || lang.depth() > 6 {
            continue;
        }
        made += 1;
        ctx.check_subject(&subject, &mut rng, class);
    }
    ctx.out.extra("exhaustive", json!(false));
    ctx.out.extra(
        "exhaustive_per_expression",
        json!("bisimulation of the compiled DFA with the model's subset automaton: all reachable state pairs x all 256 bytes; all strings up to the recorded length over the effective alphabet against the Rust oracle"),
    );
    ctx.out.finish(
        "expressions: fixed corner cases (optional/one-or-more/zero-or-more over operands that begin or end with a loop, empty sequence/choice, empty/nothing operands, tagged choices, production-like shapes) + random trees of depth <= 6 with <= 48 nodes over literals of a,b,c and multi-byte UTF-8 strings and byte predicates (upper half and 0xFF included), choices of tagged choices, tagged sub-expressions that are not the last component and re-tagged building blocks (tags judged on every reachable state), the same automata with tags of the crate's own types Image and TerminalCommand, and matchers combined as MatcherAutomata::new combines them (tags_map + tag_stop_state per parsed matcher, tags_map(Item) for item tables); non-trivial = at least 3 nodes; distinct by expression text. Per expression: NFA dump equality, exhaustive DFA bisimulation, all strings up to length L (budget-limited, L <= 6) over the effective alphabet, members and mutants",
    );
}
