//! C11: kitty graphics output of `KittyImageHandler` (draw / erase / handle).
//!
//! * correspondence: the Lean model must write exactly the implementation's bytes for every event of a
//!   history (`c11 model …`, answered by `SurfModel.KittyStream`: the handler with the payload streamed pixel
//!   by pixel through C14's `Base64Encoder` model); the image hash (public `Surface::hash`) travels in the
//!   request;
//! * `c11 tables <dir> Base64Tables`: the streaming model reads the alphabet from the table compiled into the
//!   crate — same generated file, byte for byte, as `c14 tables` writes;
//! * oracle (Rust, this file): an independent kitty-graphics parser + RFC 4648 decoder + bookkeeping of what
//!   a terminal holds, checking the property on the implementation's bytes;
//! * oracle (Lean): the verified monitor `SurfModel.KittySpec.accepts` over the same trace (`c11 monitor …`)
//!   and the verified interpreter `kitty` against this file's parser (`c11 kitty …`).
use serde_json::{Value, json};
use std::collections::BTreeMap;
use surf_n_term::{
    Color, Image, ImageHandler, KittyImageHandler, Position, RGBA, Shape, Size, Surface, SurfaceOwned,
    TerminalEvent,
};
use verif_harness::{Cfg, guarded, r#gen::Rng, out::Out, out::hex};

// ---------------------------------------------------------------------------------------------
// independent kitty graphics protocol reader (written from the protocol description)
// ---------------------------------------------------------------------------------------------

#[derive(Debug, Clone, PartialEq)]
enum K {
    Transmit { display: bool, id: u64, pid: u64, f: u64, s: u64, v: u64, o: Option<Vec<u8>>, data: Vec<u8>, chunks: Vec<usize> },
    Put { id: u64, pid: u64 },
    Delete { d: u8, id: u64, pid: u64 },
}

struct Raw {
    keys: Vec<(u8, Vec<u8>)>,
    payload: Vec<u8>,
}

impl Raw {
    fn get(&self, k: u8) -> Option<&Vec<u8>> {
        self.keys.iter().find(|(kk, _)| *kk == k).map(|(_, v)| v)
    }
    fn num(&self, k: u8, d: u64) -> Result<u64, String> {
        match self.get(k) {
            None => Ok(d),
            Some(v) if !v.is_empty() && v.iter().all(|b| b.is_ascii_digit()) => {
                let mut n: u64 = 0;
                for b in v {
                    n = n.checked_mul(10).and_then(|n| n.checked_add((b - b'0') as u64)).ok_or("number too big")?;
                }
                Ok(n)
            }
            Some(_) => Err(format!("key {} is not a number", k as char)),
        }
    }
    fn chr(&self, k: u8, d: u8) -> Result<u8, String> {
        match self.get(k) {
            None => Ok(d),
            Some(v) if v.len() == 1 && !v[0].is_ascii_digit() => Ok(v[0]),
            Some(_) => Err(format!("key {} is not a character", k as char)),
        }
    }
}

/// all `ESC _ G … ESC \` commands of a stream; other bytes (CSI, `ESC 7`, …) are skipped
fn apcs(bytes: &[u8], truncated: bool) -> Result<Vec<Raw>, String> {
    let mut res = Vec::new();
    let mut i = 0;
    while i < bytes.len() {
        if bytes[i] == 0x1b && i + 1 < bytes.len() && bytes[i + 1] == b'_' {
            let graphics = i + 2 < bytes.len() && bytes[i + 2] == b'G';
            let mut j = i + 2;
            loop {
                if j + 1 >= bytes.len() {
                    if truncated {
                        // the writer failed inside this command: it never reached the terminal as a command
                        return Ok(res);
                    }
                    return Err("unterminated APC".into());
                }
                if bytes[j] == 0x1b {
                    if bytes[j + 1] == b'\\' {
                        break;
                    }
                    if graphics {
                        return Err("ESC inside a graphics command".into());
                    }
                }
                j += 1;
            }
            if graphics {
                let body = &bytes[i + 3..j];
                let (ctrl, payload) = match body.iter().position(|b| *b == b';') {
                    Some(p) => (&body[..p], &body[p + 1..]),
                    None => (body, &body[body.len()..]),
                };
                let mut keys = Vec::new();
                if !ctrl.is_empty() {
                    for item in ctrl.split(|b| *b == b',') {
                        if item.len() < 3 || item[1] != b'=' {
                            return Err(format!("bad control item {:?}", String::from_utf8_lossy(item)));
                        }
                        keys.push((item[0], item[2..].to_vec()));
                    }
                }
                res.push(Raw { keys, payload: payload.to_vec() });
            }
            i = j + 2;
        } else {
            i += 1;
        }
    }
    Ok(res)
}

fn b64_val(c: u8) -> Option<u32> {
    match c {
        b'A'..=b'Z' => Some((c - b'A') as u32),
        b'a'..=b'z' => Some((c - b'a') as u32 + 26),
        b'0'..=b'9' => Some((c - b'0') as u32 + 52),
        b'+' => Some(62),
        b'/' => Some(63),
        _ => None,
    }
}

/// strict RFC 4648 decoder
fn b64_decode(text: &[u8]) -> Result<Vec<u8>, String> {
    if text.len() % 4 != 0 {
        return Err("base64 length is not a multiple of 4".into());
    }
    let mut out = Vec::with_capacity(text.len() / 4 * 3);
    let groups = text.len() / 4;
    for (gi, g) in text.chunks(4).enumerate() {
        let last = gi + 1 == groups;
        let pad = if last && g[3] == b'=' { if g[2] == b'=' { 2 } else { 1 } } else { 0 };
        let mut acc: u32 = 0;
        for (k, c) in g.iter().enumerate() {
            let v = if k >= 4 - pad { 0 } else { b64_val(*c).ok_or("character outside the base64 alphabet")? };
            acc = (acc << 6) | v;
        }
        let bytes = [(acc >> 16) as u8, (acc >> 8) as u8, acc as u8];
        if (pad == 2 && (acc & 0xffff) != 0) || (pad == 1 && (acc & 0xff) != 0) {
            return Err("non-canonical base64 padding bits".into());
        }
        out.extend_from_slice(&bytes[..3 - pad]);
    }
    Ok(out)
}

fn finish(first: &Raw, chunks: &[Vec<u8>]) -> Result<K, String> {
    let a = first.chr(b'a', b't')?;
    let text: Vec<u8> = chunks.concat();
    Ok(K::Transmit {
        display: a == b'T',
        id: first.num(b'i', 0)?,
        pid: first.num(b'p', 0)?,
        f: first.num(b'f', 32)?,
        s: first.num(b's', 0)?,
        v: first.num(b'v', 0)?,
        o: first.get(b'o').cloned(),
        data: b64_decode(&text)?,
        chunks: chunks.iter().map(|c| c.len()).collect(),
    })
}

fn kitty(bytes: &[u8]) -> Result<Vec<K>, String> {
    kitty_of(bytes, false)
}

/// `truncated`: the stream was cut by a failing writer; commands that did not arrive completely (an
/// unterminated APC, a chunked transfer without its last chunk) are not commands the terminal has received
fn kitty_of(bytes: &[u8], truncated: bool) -> Result<Vec<K>, String> {
    let raws = apcs(bytes, truncated)?;
    let mut res = Vec::new();
    let mut pending: Option<(usize, Vec<Vec<u8>>)> = None;
    for (idx, r) in raws.iter().enumerate() {
        if let Some((first, mut chunks)) = pending.take() {
            chunks.push(r.payload.clone());
            match r.num(b'm', 0)? {
                0 => res.push(finish(&raws[first], &chunks)?),
                1 => pending = Some((first, chunks)),
                _ => return Err("m is neither 0 nor 1".into()),
            }
            continue;
        }
        match r.chr(b'a', b't')? {
            b't' | b'T' => match r.num(b'm', 0)? {
                0 => res.push(finish(r, &[r.payload.clone()])?),
                1 => pending = Some((idx, vec![r.payload.clone()])),
                _ => return Err("m is neither 0 nor 1".into()),
            },
            b'p' => res.push(K::Put { id: r.num(b'i', 0)?, pid: r.num(b'p', 0)? }),
            b'd' => res.push(K::Delete { d: r.chr(b'd', b'a')?, id: r.num(b'i', 0)?, pid: r.num(b'p', 0)? }),
            other => return Err(format!("unsupported action {}", other as char)),
        }
    }
    if pending.is_some() && !truncated {
        return Err("chunked transfer not finished".into());
    }
    Ok(res)
}

/// same canonical text as `SurfModel.Kitty.showCmd`
fn show_cmds(cmds: &[K]) -> String {
    if cmds.is_empty() {
        return "none".into();
    }
    let nat_list = |l: &Vec<usize>| {
        if l.is_empty() { "-".to_string() } else { l.iter().map(|n| n.to_string()).collect::<Vec<_>>().join(",") }
    };
    cmds.iter()
        .map(|c| match c {
            K::Transmit { display, id, f, s, v, o, data, chunks, .. } => {
                let o = match o {
                    None => "-".to_string(),
                    Some(v) if v.iter().all(|b| b.is_ascii_digit()) && v.len() < 30 => {
                        format!("n{}", String::from_utf8_lossy(v).parse::<u128>().unwrap_or(0))
                    }
                    Some(v) => format!("r{}", hex(v)),
                };
                format!("T{},i={id},f={f},s={s},v={v},o={o},data={},chunks={}", *display as u8, hex(data), nat_list(chunks))
            }
            K::Put { id, pid } => format!("P,i={id},p={pid}"),
            K::Delete { d, id, pid } => format!("D,d={d},i={id},p={pid}"),
        })
        .collect::<Vec<_>>()
        .join(" ")
}

// ---------------------------------------------------------------------------------------------
// histories
// ---------------------------------------------------------------------------------------------

/// how an image is made: parent surface `ph × pw` with pixel data `data` (row-major RGBA), optionally
/// transposed, optionally cropped to rows `r0..r1`, cols `c0..c1` (of the possibly transposed surface);
/// `via`: 0 = `Image::new(view_owned)`, 1 = `Image::from(owned).crop(..)`, 2 = `Image::new(view.transpose().transpose())`,
/// 3 = `Image::from_parts` with a hand-made strided shape: every second row and column of the parent
#[derive(Clone, Debug)]
struct ImgSpec {
    ph: usize,
    pw: usize,
    data: Vec<u8>,
    transpose: bool,
    crop: Option<(usize, usize, usize, usize)>,
    via: u8,
}

impl ImgSpec {
    fn to_json(&self) -> Value {
        json!({"ph": self.ph, "pw": self.pw, "data": hex(&self.data), "t": self.transpose, "via": self.via,
               "crop": self.crop.map(|(a, b, c, d)| vec![a, b, c, d])})
    }
    fn from_json(v: &Value) -> Option<ImgSpec> {
        let crop = match v.get("crop") {
            Some(Value::Array(a)) if a.len() == 4 => {
                Some((a[0].as_u64()? as usize, a[1].as_u64()? as usize, a[2].as_u64()? as usize, a[3].as_u64()? as usize))
            }
            _ => None,
        };
        Some(ImgSpec {
            ph: v["ph"].as_u64()? as usize,
            pw: v["pw"].as_u64()? as usize,
            data: unhex(v["data"].as_str()?)?,
            transpose: v["t"].as_bool()?,
            crop,
            via: v["via"].as_u64()? as u8,
        })
    }
    fn parent_px(&self, row: usize, col: usize) -> [u8; 4] {
        let o = (row * self.pw + col) * 4;
        [self.data[o], self.data[o + 1], self.data[o + 2], self.data[o + 3]]
    }
    /// the pixels the image is meant to have, from the harness' own knowledge: (w, h, RGBA row-major)
    fn intended(&self) -> (usize, usize, Vec<u8>) {
        if self.via == 3 {
            let (w, h) = ((self.pw + 1) / 2, (self.ph + 1) / 2);
            let mut px = Vec::new();
            for r in 0..h {
                for c in 0..w {
                    px.extend_from_slice(&self.parent_px(2 * r, 2 * c));
                }
            }
            return (w, h, px);
        }
        let (th, tw) = if self.transpose { (self.pw, self.ph) } else { (self.ph, self.pw) };
        let (r0, r1, c0, c1) = self.crop.unwrap_or((0, th, 0, tw));
        let (r1, c1) = (r1.min(th), c1.min(tw));
        if self.crop.is_none() && (th == 0 || tw == 0) {
            return (tw, th, vec![]);
        }
        if r0 >= r1 || c0 >= c1 {
            return (0, 0, vec![]);
        }
        let mut px = Vec::new();
        for r in r0..r1 {
            for c in c0..c1 {
                px.extend_from_slice(&if self.transpose { self.parent_px(c, r) } else { self.parent_px(r, c) });
            }
        }
        (c1 - c0, r1 - r0, px)
    }
    /// start, end, width, height, row stride, column stride the image must have — plain arithmetic on the
    /// description, no `Shape` method involved
    fn expected_shape(&self) -> [usize; 6] {
        if self.via == 3 {
            return [0, self.ph * self.pw, (self.pw + 1) / 2, (self.ph + 1) / 2, 2 * self.pw, 2];
        }
        let mut sh = [0, self.ph * self.pw, self.pw, self.ph, self.pw, 1];
        if self.transpose {
            sh.swap(2, 3);
            sh.swap(4, 5);
        }
        match self.crop {
            Some((r0, r1, c0, c1)) => crop_shape(sh, r0, r1, c0, c1),
            None => sh,
        }
    }
    fn build(&self) -> Image {
        if self.via == 3 {
            let px: Vec<RGBA> = (0..self.ph * self.pw).map(|i| {
                let o = i * 4;
                RGBA::new(self.data[o], self.data[o + 1], self.data[o + 2], self.data[o + 3])
            }).collect();
            let e = self.expected_shape();
            return Image::from_parts(px.into(), Shape { start: e[0], end: e[1], width: e[2], height: e[3], row_stride: e[4], col_stride: e[5] });
        }
        let surf: SurfaceOwned<RGBA> = SurfaceOwned::new_with(Size { height: self.ph, width: self.pw }, |p| {
            let [r, g, b, a] = self.parent_px(p.row, p.col);
            RGBA::new(r, g, b, a)
        });
        match (self.transpose, self.crop, self.via) {
            (false, None, 2) => Image::new(surf.transpose().transpose()),
            (false, Some((r0, r1, c0, c1)), 2) => Image::new(surf.view_owned(r0..r1, c0..c1).transpose().transpose()),
            (true, None, 2) => Image::new(surf.transpose().transpose().transpose()),
            (true, Some((r0, r1, c0, c1)), 2) => {
                Image::new(surf.transpose().view_owned(r0..r1, c0..c1).transpose().transpose())
            }
            (false, None, 0) => Image::new(surf),
            (false, None, _) => Image::from(surf),
            (false, Some((r0, r1, c0, c1)), 0) => Image::new(surf.view_owned(r0..r1, c0..c1)),
            (false, Some((r0, r1, c0, c1)), _) => Image::from(surf).crop(r0..r1, c0..c1),
            (true, None, _) => Image::new(surf.transpose()),
            (true, Some((r0, r1, c0, c1)), 0) => Image::new(surf.transpose().view_owned(r0..r1, c0..c1)),
            (true, Some((r0, r1, c0, c1)), _) => Image::new(surf.transpose()).crop(r0..r1, c0..c1),
        }
    }
}

/// `Shape::view(r0..r1, c0..c1)` by hand: ranges clamp to the axis, an empty selection gives the all-zero shape
fn crop_shape(sh: [usize; 6], r0: usize, r1: usize, c0: usize, c1: usize) -> [usize; 6] {
    let (r1, c1) = (r1.min(sh[3]), c1.min(sh[2]));
    if r0 < r1 && c0 < c1 {
        [sh[0] + r0 * sh[4] + c0 * sh[5], sh[0] + (r1 - 1) * sh[4] + c1 * sh[5], c1 - c0, r1 - r0, sh[4], sh[5]]
    } else {
        [0; 6]
    }
}

#[derive(Clone, Debug)]
enum EvSpec {
    Draw(usize, usize, usize),
    Erase(usize, Option<(usize, usize)>),
    /// terminal response echoing the ids of the `put` of an earlier draw event (`None`: made-up ids);
    /// with or without placement; error or OK
    Resp(Option<usize>, bool, bool),
    /// error response for the image of an earlier draw event with a placement id this client never handed
    /// out (0 or >= 2^32)
    RespForeign(Option<usize>, u64),
    Other,
    /// the event, but `out` accepts only this many bytes and then fails
    Failing(Box<EvSpec>, usize),
    /// the event, but `out` takes only this many bytes per `write` call and interrupts every other call
    Short(Box<EvSpec>, usize),
    /// `handler = handler.quiet()`: the builder applied to a handler that may already have drawn
    Quiet,
    /// not a handler call: NOW take `images[k].crop(r0..r1, c0..c1)` and append it to the list of images
    /// (images derived from an image that the handler may already have seen)
    Derive(usize, usize, usize, usize, usize),
}

impl EvSpec {
    fn base(&self) -> &EvSpec {
        match self {
            EvSpec::Failing(inner, _) | EvSpec::Short(inner, _) => inner.base(),
            e => e,
        }
    }
    fn budget(&self) -> Option<usize> {
        match self {
            EvSpec::Failing(_, k) => Some(*k),
            EvSpec::Short(inner, _) => inner.budget(),
            _ => None,
        }
    }
    fn short(&self) -> Option<usize> {
        match self {
            EvSpec::Short(_, n) => Some(*n),
            EvSpec::Failing(inner, _) => inner.short(),
            _ => None,
        }
    }
    fn to_json(&self) -> Value {
        match self {
            EvSpec::Failing(inner, k) => json!(["w", k, inner.to_json()]),
            EvSpec::Derive(k, r0, r1, c0, c1) => json!(["c", k, r0, r1, c0, c1]),
            EvSpec::Short(inner, n) => json!(["s", n, inner.to_json()]),
            EvSpec::Quiet => json!(["q"]),
            EvSpec::Draw(k, r, c) => json!(["d", k, r, c]),
            EvSpec::Erase(k, Some((r, c))) => json!(["e", k, r, c]),
            EvSpec::Erase(k, None) => json!(["e", k]),
            EvSpec::Resp(j, p, e) => json!(["r", j.map(|j| j as i64).unwrap_or(-1), p, e]),
            EvSpec::RespForeign(j, p) => json!(["rf", j.map(|j| j as i64).unwrap_or(-1), p.to_string()]),
            EvSpec::Other => json!(["x"]),
        }
    }
    fn from_json(v: &Value) -> Option<EvSpec> {
        let a = v.as_array()?;
        let n = |i: usize| a.get(i).and_then(|x| x.as_u64()).map(|x| x as usize);
        Some(match a.first()?.as_str()? {
            "d" => EvSpec::Draw(n(1)?, n(2)?, n(3)?),
            "e" if a.len() == 4 => EvSpec::Erase(n(1)?, Some((n(2)?, n(3)?))),
            "e" => EvSpec::Erase(n(1)?, None),
            "c" => EvSpec::Derive(n(1)?, n(2)?, n(3)?, n(4)?, n(5)?),
            "q" => EvSpec::Quiet,
            "s" => EvSpec::Short(Box::new(EvSpec::from_json(&a[2])?), n(1)?),
            "w" => EvSpec::Failing(Box::new(EvSpec::from_json(&a[2])?), n(1)?),
            "rf" => EvSpec::RespForeign(a[1].as_i64().filter(|j| *j >= 0).map(|j| j as usize), a[2].as_str()?.parse().ok()?),
            "r" => EvSpec::Resp(a[1].as_i64().filter(|j| *j >= 0).map(|j| j as usize), a[2].as_bool()?, a[3].as_bool()?),
            _ => EvSpec::Other,
        })
    }
}

#[derive(Clone, Debug)]
struct History {
    quiet: bool,
    imgs: Vec<ImgSpec>,
    evs: Vec<EvSpec>,
}

impl History {
    fn to_json(&self) -> Value {
        json!({"quiet": self.quiet, "images": self.imgs.iter().map(|i| i.to_json()).collect::<Vec<_>>(),
               "events": self.evs.iter().map(|e| e.to_json()).collect::<Vec<_>>()})
    }
    fn from_json(v: &Value) -> Option<History> {
        Some(History {
            quiet: v["quiet"].as_bool()?,
            imgs: v["images"].as_array()?.iter().map(ImgSpec::from_json).collect::<Option<Vec<_>>>()?,
            evs: v["events"].as_array()?.iter().map(EvSpec::from_json).collect::<Option<Vec<_>>>()?,
        })
    }
}

fn unhex(s: &str) -> Option<Vec<u8>> {
    if s == "-" {
        return Some(vec![]);
    }
    if s.len() % 2 != 0 {
        return None;
    }
    (0..s.len() / 2).map(|i| u8::from_str_radix(&s[2 * i..2 * i + 2], 16).ok()).collect()
}

/// pixels of the built image read through `Surface::get` (not through the iterator `draw` uses)
fn content_of(img: &Image) -> (usize, usize, Vec<u8>) {
    let (w, h) = (img.width(), img.height());
    let mut px = Vec::with_capacity(w * h * 4);
    for row in 0..h {
        for col in 0..w {
            match img.get(Position { row, col }) {
                Some(c) => px.extend_from_slice(&c.to_rgba()),
                None => px.extend_from_slice(&[0, 0, 0, 0]),
            }
        }
    }
    (w, h, px)
}

#[derive(Clone)]
struct Placed {
    ct: (usize, usize, Vec<u8>),
    pos: (usize, usize),
    id: u64,
    pid: u64,
}

/// `out` of one event: accepts `budget` bytes (all, if `None`), then refuses
struct Limited {
    buf: Vec<u8>,
    budget: Option<usize>,
    refused: bool,
    /// a sink that takes at most this many bytes per `write` call and answers every other call with
    /// `ErrorKind::Interrupted` (legal for `io::Write`; `write_all` must cope, a bare `write` would lose bytes)
    short: Option<usize>,
    calls: usize,
}

impl std::io::Write for Limited {
    fn write(&mut self, data: &[u8]) -> std::io::Result<usize> {
        let data = match self.short {
            Some(n) if !data.is_empty() => {
                self.calls += 1;
                if self.calls % 2 == 1 {
                    return Err(std::io::Error::new(std::io::ErrorKind::Interrupted, "try again"));
                }
                &data[..n.max(1).min(data.len())]
            }
            _ => data,
        };
        match self.budget {
            None => {
                self.buf.extend_from_slice(data);
                Ok(data.len())
            }
            Some(b) => {
                let room = b - self.buf.len().min(b);
                if data.is_empty() {
                    return Ok(0);
                }
                if room == 0 {
                    self.refused = true;
                    return Err(std::io::Error::new(std::io::ErrorKind::BrokenPipe, "writer full"));
                }
                let n = room.min(data.len());
                self.buf.extend_from_slice(&data[..n]);
                Ok(n)
            }
        }
    }
    fn flush(&mut self) -> std::io::Result<()> {
        Ok(())
    }
}

/// what happened for one event
struct StepOut {
    /// the handler returned `Err`
    err: bool,
    /// the writer refused bytes: what arrived is a cut stream
    truncated: bool,
    bytes: Vec<u8>,
    handled: Option<bool>,
    /// resolved response ids (id, placement, error) for `Resp`
    resp: Option<(u64, Option<u64>, bool)>,
}

/// The response as the terminal sends it — `ESC _ G i=<id>[,p=<p>] ; <message> ESC \` — read by the crate's
/// event decoder: the path by which a real application obtains the event it hands to `handle`.
/// `None` when the decoder does not deliver exactly one event.
fn decoded_response(id: u64, placement: Option<u64>, error: bool) -> Option<TerminalEvent> {
    use surf_n_term::decoder::{Decoder, TTYEventDecoder};
    let mut bytes = format!("\x1b_Gi={id}");
    if let Some(p) = placement {
        bytes.push_str(&format!(",p={p}"));
    }
    bytes.push_str(if error { ";ENOENT:gone\x1b\\" } else { ";OK\x1b\\" });
    let mut out = Vec::new();
    TTYEventDecoder::new().decode_into(std::io::Cursor::new(bytes.into_bytes()), &mut out).ok()?;
    if out.len() == 1 { out.pop() } else { None }
}

/// the event for `handle`: written down directly, or (every other time) obtained through the decoder
fn response_event(k: usize, id: u64, placement: Option<u64>, error: bool) -> Result<TerminalEvent, &'static str> {
    let direct = TerminalEvent::KittyImage { id, placement, error: if error { Some("ENOENT:gone".to_string()) } else { None } };
    if k % 2 == 0 {
        return Ok(direct);
    }
    match decoded_response(id, placement, error) {
        Some(TerminalEvent::KittyImage { id: i, placement: p, error: e }) if i == id && p == placement && e.is_some() == error => {
            Ok(TerminalEvent::KittyImage { id: i, placement: p, error: e })
        }
        _ => Err("the crate's decoder does not deliver the terminal's graphics response (id, placement, OK / error) as sent"),
    }
}

/// an event is about to be inserted at index `at`: event indices `>= at` held by responses move up by one
fn shift_refs(ev: &mut EvSpec, at: usize) {
    match ev {
        EvSpec::Resp(Some(j), ..) | EvSpec::RespForeign(Some(j), _) if *j >= at => *j += 1,
        EvSpec::Failing(inner, _) | EvSpec::Short(inner, _) => shift_refs(inner, at),
        _ => {}
    }
}

/// run a history on a fresh `KittyImageHandler`
fn run_impl(hist: &History, imgs: &mut Vec<Image>) -> Result<Vec<StepOut>, &'static str> {
    // ---- run the implementation -------------------------------------------------------------
    let mut handler = if hist.quiet { KittyImageHandler::new().quiet() } else { KittyImageHandler::new() };
    let mut steps: Vec<StepOut> = Vec::new();
    // ids of the put of each draw event, as observed (for responses)
    let mut observed: Vec<Option<(u64, u64)>> = Vec::new();
    for ev in hist.evs.iter() {
        let mut wr = Limited { buf: Vec::new(), budget: ev.budget(), refused: false, short: ev.short(), calls: 0 };
        let ev = ev.base();
        let mut resp = None;
        if let EvSpec::Quiet = ev {
            handler = handler.quiet();
            observed.push(None);
            steps.push(StepOut { err: false, truncated: false, bytes: Vec::new(), handled: None, resp: None });
            continue;
        }
        if let EvSpec::Derive(k, r0, r1, c0, c1) = ev {
            let parent = imgs.get(*k).ok_or("derive refers to an image that does not exist yet")?;
            let d = guarded(|| parent.crop(*r0..*r1, *c0..*c1)).map_err(|_| "Image::crop panicked")?;
            imgs.push(d);
            observed.push(None);
            steps.push(StepOut { err: false, truncated: false, bytes: Vec::new(), handled: None, resp: None });
            continue;
        }
        // outer Err: panic; inner Err: the handler returned an error
        let r: Result<Result<Option<bool>, ()>, ()> = match ev {
            EvSpec::Draw(k, row, col) => guarded(|| {
                handler.draw(&mut wr, &imgs[*k], Position { row: *row, col: *col }).map(|_| None).map_err(|_| ())
            }),
            EvSpec::Erase(k, pos) => guarded(|| {
                handler.erase(&mut wr, &imgs[*k], pos.map(|(row, col)| Position { row, col })).map(|_| None).map_err(|_| ())
            }),
            EvSpec::Resp(j, with_placement, err) => {
                let (id, pid) = j.and_then(|j| observed.get(j).cloned().flatten()).unwrap_or((777, 5));
                let placement = if *with_placement { Some(pid) } else { None };
                resp = Some((id, placement, *err));
                let event = response_event(steps.len(), id, placement, *err)?;
                guarded(|| handler.handle(&mut wr, &event).map(Some).map_err(|_| ()))
            }
            EvSpec::RespForeign(j, placement) => {
                let (id, _) = j.and_then(|j| observed.get(j).cloned().flatten()).unwrap_or((777, 5));
                resp = Some((id, Some(*placement), true));
                let event = response_event(steps.len(), id, Some(*placement), true)?;
                guarded(|| handler.handle(&mut wr, &event).map(Some).map_err(|_| ()))
            }
            EvSpec::Other => guarded(|| handler.handle(&mut wr, &TerminalEvent::Wake).map(Some).map_err(|_| ())),
            EvSpec::Failing(..) | EvSpec::Short(..) | EvSpec::Derive(..) | EvSpec::Quiet => unreachable!(),
        };
        let (handled, err) = match r {
            Ok(Ok(h)) => (h, false),
            Ok(Err(())) if wr.refused => (None, true),
            Ok(Err(())) => return Err("handler returned an error although the writer accepted everything"),
            Err(()) => return Err("handler panicked"),
        };
        observed.push(match (ev, kitty_of(&wr.buf, wr.refused)) {
            (EvSpec::Draw(..), Ok(cmds)) => cmds.iter().rev().find_map(|c| match c {
                K::Put { id, pid } => Some((*id, *pid)),
                K::Transmit { display: true, id, pid, .. } => Some((*id, *pid)),
                _ => None,
            }),
            _ => None,
        });
        steps.push(StepOut { err, truncated: wr.refused, bytes: wr.buf, handled, resp });
    }

    Ok(steps)
}

struct Runner<'a> {
    out: &'a mut Out,
    /// histories in which two different contents were given the same image id (inherent to 32-bit ids when
    /// rare; a failure when frequent)
    id_collisions: Vec<Value>,
}

/// effects of the commands of one event, whatever their spelling
enum Fx {
    Tx { id: u64, s: usize, v: usize, data: Vec<u8> },
    Put { id: u64, pid: u64 },
    Del { id: u64, pid: u64 },
}

/// zero-based target of the first `CSI row ; col H` of a byte stream
fn cursor_target(bytes: &[u8]) -> Option<(usize, usize)> {
    let start = bytes.windows(2).position(|w| w == b"\x1b[")? + 2;
    let rest = &bytes[start..];
    let n1 = rest.iter().take_while(|b| b.is_ascii_digit()).count();
    if n1 == 0 || rest.get(n1) != Some(&b';') {
        return None;
    }
    let rest2 = &rest[n1 + 1..];
    let n2 = rest2.iter().take_while(|b| b.is_ascii_digit()).count();
    if n2 == 0 || rest2.get(n2) != Some(&b'H') {
        return None;
    }
    let row: usize = std::str::from_utf8(&rest[..n1]).ok()?.parse().ok()?;
    let col: usize = std::str::from_utf8(&rest2[..n2]).ok()?.parse().ok()?;
    Some((row.checked_sub(1)?, col.checked_sub(1)?))
}

fn in_domain(p: (usize, usize)) -> bool {
    p.0 < 65536 && p.1 < 65536 && p != CORNER
}

const CORNER: (usize, usize) = (65535, 65535);

impl<'a> Runner<'a> {
    /// run one history on the implementation; correspondence + both oracles. Returns false on failure.
    fn history(&mut self, hist: &History, lean_oracle: bool) -> bool {
        let input = json!({"history": hist.to_json()});
        let mut imgs: Vec<Image> = match guarded(|| hist.imgs.iter().map(|s| s.build()).collect::<Vec<_>>()) {
            Ok(v) => v,
            Err(()) => {
                self.out.fail("panic while building the image", input, json!("no panic"), json!("panic"));
                return false;
            }
        };
        // Shape::view / transpose, as far as the hypotheses of the theorems rest on them (WF of cropped images)
        for spec in hist.imgs.iter() {
            let show = |s: Shape| format!("{} {} {} {} {} {}", s.start, s.end, s.width, s.height, s.row_stride, s.col_stride);
            if spec.via == 3 {
                continue;
            }
            let base = Shape { start: 0, end: spec.ph * spec.pw, width: spec.pw, height: spec.ph, row_stride: spec.pw, col_stride: 1 };
            let mut cur = base;
            if spec.transpose {
                let t = SurfaceOwned::<RGBA>::new(Size { height: spec.ph, width: spec.pw }).transpose().shape();
                self.out.corr(&format!("c11 transpose {}", show(base)), &show(t));
                cur = t;
            }
            if let Some((r0, r1, c0, c1)) = spec.crop {
                let (r1c, c1c) = (r1.min(cur.height), c1.min(cur.width));
                if r0 < r1c && c0 < c1c {
                    let v = cur.view(r0..r1, c0..c1);
                    self.out.corr(&format!("c11 crop {} {r0} {r1c} {c0} {c1c}", show(cur)), &show(v));
                }
            }
        }

        // ---- run the implementation -------------------------------------------------------------
        let steps = match run_impl(hist, &mut imgs) {
            Ok(s) => s,
            Err(what) => {
                self.out.fail(what, input.clone(), json!("ok"), json!("panic/err"));
                return false;
            }
        };
        // contents of all images (the given ones and those derived during the history): the harness'
        // intention from the raw pixels, cross-checked with Surface::get
        let mut intended: Vec<(usize, usize, Vec<u8>)> = hist.imgs.iter().map(|s| s.intended()).collect();
        let mut shapes: Vec<[usize; 6]> = hist.imgs.iter().map(|s| s.expected_shape()).collect();
        let mut buffers: Vec<usize> = (0..hist.imgs.len()).collect(); // which given image's buffer an image shares
        for ev in hist.evs.iter() {
            if let EvSpec::Derive(k, r0, r1, c0, c1) = ev.base() {
                let (w, h, px) = intended[*k].clone();
                let (r1c, c1c) = ((*r1).min(h), (*c1).min(w));
                if *r0 < r1c && *c0 < c1c {
                    let mut out = Vec::new();
                    for r in *r0..r1c {
                        out.extend_from_slice(&px[(r * w + *c0) * 4..(r * w + c1c) * 4]);
                    }
                    intended.push((c1c - *c0, r1c - *r0, out));
                } else {
                    intended.push((0, 0, vec![]));
                }
                shapes.push(crop_shape(shapes[*k], *r0, *r1, *c0, *c1));
                buffers.push(buffers[*k]);
            }
        }
        // The expectation of the oracle is `intended` — cut from the raw generated pixels. What the crate's own
        // accessors say about the image (Surface::get / width / height, Image::shape, Image::data) is only
        // cross-checked against it: a disagreement is reported, it does not move the expectation.
        let contents = intended;
        for (i, img) in imgs.iter().enumerate() {
            let by_get = content_of(img);
            let sh = img.shape();
            let got_shape = [sh.start, sh.end, sh.width, sh.height, sh.row_stride, sh.col_stride];
            let raw: Vec<u8> = img.data().iter().flat_map(|c| c.to_rgba()).collect();
            if by_get != contents[i] || got_shape != shapes[i] || raw != hist.imgs[buffers[i]].data {
                self.out.fail("the image handed to the handler is not the window of the raw pixels that was asked for (Surface::get / Image::shape / Image::data disagree with the harness' arithmetic)",
                    json!({"history": hist.to_json(), "image": i}),
                    json!({"shape": shapes[i], "w": contents[i].0, "h": contents[i].1}),
                    json!({"shape": got_shape, "w": by_get.0, "h": by_get.1, "same_pixels": by_get.2 == contents[i].2, "same_buffer": raw == hist.imgs[buffers[i]].data}));
                return false;
            }
        }
        // hashes are read AFTER the history: what the handler saw is what a cache inside the image would hold
        let hashes: Vec<u64> = imgs.iter().map(|i| Surface::hash(i)).collect();

        // ---- correspondence line -----------------------------------------------------------------
        let failing = hist.evs.iter().any(|e| e.budget().is_some());
        let switches = hist.evs.iter().any(|e| matches!(e.base(), EvSpec::Quiet));
        let mut req = format!("c11 {} {}", if failing || switches { "modelw" } else { "model" }, if hist.quiet { "q1" } else { "q0" });
        for (img, hash) in imgs.iter().zip(hashes.iter()) {
            let s = img.shape();
            let data: Vec<u8> = img.data().iter().flat_map(|c| c.to_rgba()).collect();
            req.push_str(&format!(
                " img {hash} {} {} {} {} {} {} {}",
                s.start, s.end, s.width, s.height, s.row_stride, s.col_stride, hex(&data)
            ));
        }
        for (ev, st) in hist.evs.iter().zip(steps.iter()) {
            if let Some(b) = ev.budget() {
                req.push_str(&format!(" evw {b}"));
            }
            let ev = ev.base();
            match ev {
                EvSpec::Failing(..) | EvSpec::Short(..) => unreachable!(),
                EvSpec::Derive(..) => {}
                EvSpec::Quiet => req.push_str(" ev q"),
                EvSpec::Draw(k, r, c) => req.push_str(&format!(" ev d {k} {r} {c}")),
                EvSpec::Erase(k, Some((r, c))) => req.push_str(&format!(" ev e {k} {r} {c}")),
                EvSpec::Erase(k, None) => req.push_str(&format!(" ev e {k} - -")),
                EvSpec::Resp(..) | EvSpec::RespForeign(..) => {
                    let (id, pl, err) = st.resp.unwrap();
                    req.push_str(&format!(
                        " ev r {id} {} {}",
                        pl.map(|p| p.to_string()).unwrap_or("-".into()),
                        err as u8
                    ));
                }
                EvSpec::Other => req.push_str(" ev x"),
            }
        }
        let answer: Vec<String> = steps
            .iter()
            .zip(hist.evs.iter())
            .filter(|(_, ev)| !matches!(ev.base(), EvSpec::Derive(..)))
            .map(|(st, _)| match (st.err, st.handled) {
                (true, _) => format!("{}!", hex(&st.bytes)),
                (false, None) => hex(&st.bytes),
                (false, Some(h)) => format!("{}:{}", hex(&st.bytes), if h { "t" } else { "f" }),
            })
            .collect();
        self.out.corr(&req, &answer.join(" "));

        // ---- Rust oracle ------------------------------------------------------------------------
        let uses_corner = hist.evs.iter().any(|e| match e.base() {
            EvSpec::Draw(_, r, c) => (*r, *c) == CORNER,
            EvSpec::Erase(_, Some(p)) => *p == CORNER,
            _ => false,
        });
        let mut ok = true;
        let mut live: BTreeMap<u64, (usize, usize, Vec<u8>)> = BTreeMap::new();
        let mut placed: Vec<Placed> = Vec::new();
        let mut id_collision = false;
        let fail = |out: &mut Out, what: &str, k: usize, expected: Value, got: Value| {
            let mut inp = input.clone();
            inp["event_index"] = json!(k);
            out.fail(what, inp, expected, got);
        };
        // the same pixel content must be recognised as the same image whatever its memory layout
        for i in 0..contents.len() {
            for j in 0..i {
                if contents[i] == contents[j] && !contents[i].2.is_empty() && hashes[i] != hashes[j] {
                    fail(self.out, "equal pixel content but different Surface::hash (the content would be transmitted twice)", 0,
                         json!({"images": [j, i], "hash": hashes[j].to_string()}), json!(hashes[i].to_string()));
                    ok = false;
                }
            }
        }
        // ... and different pixel contents must not be taken for one another (equal 64-bit hashes of different
        // contents do not happen by chance; equal 32-bit ids of different hashes may, see below)
        for i in 0..contents.len() {
            for j in 0..i {
                if ok && contents[i] != contents[j] && !contents[i].2.is_empty() && !contents[j].2.is_empty() && hashes[i] == hashes[j] {
                    fail(self.out, "different pixel contents have the same Surface::hash (one image is taken for the other: not transmitted, wrong pixels placed)", 0,
                         json!({"images": [j, i], "sizes": [[contents[j].0, contents[j].1], [contents[i].0, contents[i].1]]}), json!(hashes[i].to_string()));
                    ok = false;
                }
            }
        }
        'events: for (k, (ev, st)) in hist.evs.iter().zip(steps.iter()).enumerate() {
            if !ok {
                break 'events;
            }
            let ev = ev.base();
            // after a write error only the commands that arrived completely count: an image is on the
            // terminal only when its whole transfer (every chunk, each a complete APC) got there
            let cmds = match kitty_of(&st.bytes, st.truncated) {
                Ok(c) => c,
                Err(e) => {
                    fail(self.out, "output is not a sequence of valid kitty graphics commands", k, json!("well-formed APC G commands"), json!(e));
                    ok = false;
                    break 'events;
                }
            };
            // an error response for an image means the terminal does not hold it (any more)
            if let Some((id, _, true)) = st.resp {
                live.remove(&id);
            }
            // rules for every command, whatever its spelling; `a=T` = transmit + display
            let mut fx: Vec<Fx> = Vec::new();
            for c in cmds.iter() {
                match c {
                    K::Transmit { display, id, pid, f, s, v, o, data, chunks } => {
                        if *id == 0 {
                            fail(self.out, "image id 0 (= unspecified) used for a transmission", k, json!("non-zero id"), json!(0));
                            ok = false;
                        }
                        if *id > u32::MAX as u64 {
                            fail(self.out, "image id exceeds the protocol's 32-bit range", k, json!("id <= 4294967295"), json!(id));
                            ok = false;
                        }
                        if *f != 32 || o.is_some() {
                            fail(self.out, "transmission is not plain RGBA (f=32, no compression)", k, json!("f=32"), json!(show_cmds(std::slice::from_ref(c)).chars().take(80).collect::<String>()));
                            ok = false;
                        }
                        if chunks.iter().any(|n| *n > 4096) || chunks.iter().any(|n| n % 4 != 0) {
                            fail(self.out, "payload chunk longer than 4096 or not a multiple of 4", k, json!("chunks <= 4096, multiples of 4"), json!(chunks));
                            ok = false;
                        }
                        if *s == 0 || *v == 0 || data.len() as u64 != 4 * s * v {
                            fail(self.out, "payload length differs from 4*s*v", k, json!(4 * s * v), json!(data.len()));
                            ok = false;
                        }
                        fx.push(Fx::Tx { id: *id, s: *s as usize, v: *v as usize, data: data.clone() });
                        if *display {
                            fx.push(Fx::Put { id: *id, pid: *pid });
                        }
                    }
                    K::Put { id, pid } => fx.push(Fx::Put { id: *id, pid: *pid }),
                    K::Delete { d, id, pid } => {
                        if *d != b'i' || *id == 0 {
                            fail(self.out, "deletion is not by non-zero image id with d=i", k, json!("d=i, i != 0"), json!([*d as u64, *id]));
                            ok = false;
                        }
                        fx.push(Fx::Del { id: *id, pid: *pid });
                    }
                }
            }
            for f in fx.iter() {
                match f {
                    Fx::Tx { id, s, v, data } => {
                        if live.contains_key(id) {
                            fail(self.out, "pixel data transmitted again while the terminal still holds it", k, json!("at most one transmission per image between error responses"), json!(id));
                            ok = false;
                        } else if let Some((other, _)) = live.iter().find(|(_, c)| (c.0, c.1) == (*s, *v) && c.2 == *data) {
                            fail(self.out, "pixel data of one content transmitted again under another id while the terminal still holds it", k,
                                 json!("at most one transmission per image content"), json!({"held_as": other, "sent_as": id}));
                            ok = false;
                        }
                        live.insert(*id, (*s, *v, data.clone()));
                    }
                    Fx::Put { id, pid } => {
                        if *id == 0 || *pid == 0 {
                            fail(self.out, "image id or placement id 0 (= unspecified) in a placement", k, json!("non-zero ids"), json!([id, pid]));
                            ok = false;
                        }
                        if *id > u32::MAX as u64 || *pid > u32::MAX as u64 {
                            fail(self.out, "image id or placement id exceeds the protocol's 32-bit range", k, json!("<= 4294967295"), json!([id, pid]));
                            ok = false;
                        }
                        if !live.contains_key(id) {
                            fail(self.out, "placement refers to an image that is not transmitted", k, json!("a=p only for transmitted ids"), json!(id));
                            ok = false;
                        }
                    }
                    Fx::Del { id, pid } => {
                        if *id > u32::MAX as u64 || *pid > u32::MAX as u64 {
                            fail(self.out, "image id or placement id exceeds the protocol's 32-bit range", k, json!("<= 4294967295"), json!([id, pid]));
                            ok = false;
                        }
                    }
                }
            }
            if !ok {
                break 'events;
            }
            // (transmission of this id,) one placement
            let draw_shape = |fx: &[Fx]| -> Option<(u64, u64)> {
                match fx {
                    [Fx::Put { id, pid }] => Some((*id, *pid)),
                    [Fx::Tx { id: t, .. }, Fx::Put { id, pid }] if t == id => Some((*id, *pid)),
                    _ => None,
                }
            };
            match ev {
                EvSpec::Draw(ki, row, col) => {
                    let ct = &contents[*ki];
                    if ct.0 == 0 || ct.1 == 0 {
                        if !cmds.is_empty() {
                            fail(self.out, "empty image transmitted or placed", k, json!("no command"), json!(show_cmds(&cmds)));
                            ok = false;
                        }
                        continue;
                    }
                    let Some((id, pid)) = draw_shape(&fx) else {
                        if st.truncated {
                            // cut by the write error: nothing, or the complete transmission of this very image
                            match fx.as_slice() {
                                [] => continue,
                                [Fx::Tx { s, v, data, .. }] if (*s, *v) == (ct.0, ct.1) && *data == ct.2 => continue,
                                _ => {}
                            }
                        }
                        fail(self.out, "draw is not (transmit of this image,) one placement", k, json!("[T] P"), json!(cmds.len()));
                        ok = false;
                        break 'events;
                    };
                    let held = live.get(&id).unwrap();
                    if (held.0, held.1) != (ct.0, ct.1) || held.2 != ct.2 {
                        if fx.len() == 1 {
                            // no data sent now: another content owns this id. With 32-bit ids this cannot be
                            // excluded; it is excused while it stays as rare as 32 bits explain (see `main`)
                            id_collision = true;
                            self.out.hist("note:image-id-collision");
                            let mut inp = input.clone();
                            inp["event_index"] = json!(k);
                            self.id_collisions.push(inp);
                            break 'events;
                        }
                        fail(self.out, "transmitted payload / declared size differs from the image's pixels", k,
                             json!({"s": ct.0, "v": ct.1, "data": hex(&ct.2[..ct.2.len().min(64)])}),
                             json!({"s": held.0, "v": held.1, "data": hex(&held.2[..held.2.len().min(64)])}));
                        ok = false;
                        break 'events;
                    }
                    placed.push(Placed { ct: ct.clone(), pos: (*row, *col), id, pid });
                }
                EvSpec::Erase(ki, pos) => {
                    let ct = &contents[*ki];
                    let dels: Vec<(u64, u64)> = fx.iter().filter_map(|f| match f { Fx::Del { id, pid } => Some((*id, *pid)), _ => None }).collect();
                    if st.truncated && fx.is_empty() {
                        continue;
                    }
                    if dels.is_empty() || dels.len() != fx.len() {
                        fail(self.out, "erase is not made of deletions only", k, json!("a=d"), json!(cmds.len()));
                        ok = false;
                        break 'events;
                    }
                    if pos.is_some() && dels.iter().any(|d| d.1 == 0) {
                        fail(self.out, "erase at a position carries placement id 0 (deletes all placements of the image)", k, json!("p != 0"), json!(0));
                        ok = false;
                        break 'events;
                    }
                    // protocol: d=i deletes placements of image i; with p only that placement
                    let hit = |p: &Placed| dels.iter().any(|(id, pid)| p.id == *id && (*pid == 0 || p.pid == *pid));
                    for p in placed.iter() {
                        let deleted = hit(p);
                        let meant = p.ct == *ct && pos.map(|q| q == p.pos).unwrap_or(true);
                        if deleted != meant {
                            let corner = *pos == Some(CORNER) || p.pos == CORNER;
                            if corner && p.ct == *ct {
                                // the recorded pigeonhole collision (0,0) / (65535,65535)
                                self.out.fail("C11-corner: placement id collision", json!({"pos": "65535,65535"}),
                                    json!("erase addresses only the placement drawn at that position"),
                                    json!(format!("erase at {:?} addresses the placement drawn at {:?} (p={})", pos, p.pos, p.pid)));
                            } else {
                                fail(self.out, "erase does not address exactly the placement created by drawing the image there", k,
                                     json!({"image": ki, "pos": format!("{:?}", pos)}),
                                     json!({"addresses": deleted, "placement_at": format!("{:?}", p.pos), "i": p.id, "p": p.pid, "deletions": dels}));
                                ok = false;
                                break 'events;
                            }
                        }
                    }
                    placed.retain(|p| !hit(p));
                }
                EvSpec::Resp(..) | EvSpec::RespForeign(..) => {
                    // a re-draw answering an error response: it must restore the placement the response names
                    // (same image, same placement id, where that placement was made) and is tracked from now on
                    if let (Some((rid, Some(rp), true)), false) = (st.resp, fx.is_empty()) {
                        let Some((id, pid)) = draw_shape(&fx) else {
                            if st.truncated && matches!(fx.as_slice(), [Fx::Tx { .. }]) {
                                continue; // the write error came after the transmission and before the placement
                            }
                            fail(self.out, "re-draw after an error response is not (transmit,) one placement", k, json!("[T] P"), json!(cmds.len()));
                            ok = false;
                            break 'events;
                        };
                        let target = cursor_target(&st.bytes);
                        if id != rid {
                            fail(self.out, "re-draw after an error response places another image than the response names", k, json!(rid), json!(id));
                            ok = false;
                            break 'events;
                        }
                        if let Some(q) = placed.iter().find(|q| q.id == rid && q.pid == rp) {
                            if target != Some(q.pos) || pid != rp {
                                fail(self.out, "re-draw after an error response does not restore the placement the response names (position / placement id)", k,
                                     json!({"pos": format!("{:?}", q.pos), "p": rp}), json!({"cursor": format!("{:?}", target), "p": pid}));
                                ok = false;
                                break 'events;
                            }
                        }
                        if let (Some(t), Some(ct)) = (target, live.get(&id)) {
                            if in_domain(t) {
                                placed.push(Placed { ct: ct.clone(), pos: t, id, pid });
                            }
                        }
                    }
                }
                EvSpec::Other | EvSpec::Derive(..) | EvSpec::Quiet => {}
                EvSpec::Failing(..) | EvSpec::Short(..) => unreachable!(),
            }
        }

        // ---- Lean oracles -----------------------------------------------------------------------
        if ok && lean_oracle && !uses_corner && !id_collision && !failing {
            let mut req = String::from("c11 monitor");
            for (ev, st) in hist.evs.iter().zip(steps.iter()) {
                let b = hex(&st.bytes);
                match ev {
                    EvSpec::Failing(..) | EvSpec::Short(..) | EvSpec::Derive(..) | EvSpec::Quiet => {}
                    EvSpec::Draw(k, r, c) => {
                        let ct = &contents[*k];
                        req.push_str(&format!(" D {} {} {} {r} {c} {b}", ct.0, ct.1, hex(&ct.2)));
                    }
                    EvSpec::Erase(k, pos) => {
                        let ct = &contents[*k];
                        let (r, c) = pos.map(|(r, c)| (r.to_string(), c.to_string())).unwrap_or(("-".into(), "-".into()));
                        req.push_str(&format!(" E {} {} {} {r} {c} {b}", ct.0, ct.1, hex(&ct.2)));
                    }
                    EvSpec::Resp(..) | EvSpec::RespForeign(..) => match st.resp {
                        Some((id, pl, true)) => {
                            req.push_str(&format!(" R {id} {} {b}", pl.map(|p| p.to_string()).unwrap_or("-".into())))
                        }
                        _ => req.push_str(&format!(" X {b}")),
                    },
                    EvSpec::Other => req.push_str(&format!(" X {b}")),
                }
            }
            // the Lean monitor is stricter than the property in spelling (separate a=t / a=p, exactly one
            // deletion per erase): a rejection is reported as a broken tie, the Rust oracle above states the property
            self.out.corr(&req, "ok");
            let all: Vec<u8> = steps.iter().flat_map(|s| s.bytes.iter().cloned()).collect();
            if let Ok(cmds) = kitty(&all) {
                self.out.oracle(&format!("c11 kitty {}", hex(&all)), &show_cmds(&cmds));
            }
        }

        // ---- statistics ---------------------------------------------------------------------------
        let big = contents.iter().any(|c| c.2.len() > 3072);
        let nontrivial = hist.evs.iter().any(|e| matches!(e.base(), EvSpec::Draw(..))) && contents.iter().any(|c| !c.2.is_empty());
        let key = format!("{}|{}", req_key(&steps), hist.evs.len());
        self.out.case(&key, nontrivial);
        self.out.hist(&format!("events:{}", match hist.evs.len() { 0..=2 => "1-2", 3..=6 => "3-6", 7..=49 => "7-49", _ => "50+" }));
        if big {
            self.out.hist("has-multi-chunk-image");
        }
        if hist.imgs.iter().any(|i| i.crop.is_some() || i.transpose) {
            self.out.hist("has-cropped-or-transposed-view");
        }
        if contents.iter().any(|c| c.2.is_empty()) {
            self.out.hist("has-empty-image");
        }
        if hist.evs.iter().any(|e| matches!(e.base(), EvSpec::RespForeign(..))) {
            self.out.hist("has-foreign-placement-response");
        }
        if failing {
            self.out.hist("has-failing-writer");
            if steps.iter().any(|st| st.err) {
                self.out.hist("has-write-error");
            }
        }
        if hist.evs.iter().any(|e| matches!(e.base(), EvSpec::Derive(..))) {
            self.out.hist("has-crop-derived-during-history");
        }
        if switches {
            self.out.hist("has-quiet-switch-mid-history");
        }
        if hist.imgs.len() >= 300 {
            self.out.hist("has-300+-images");
        }
        if hist.imgs.len() >= 10 {
            self.out.hist("has-10+-images");
        }
        if contents.iter().any(|c| c.2.len() > 9216) {
            self.out.hist("has-4+-chunk-image");
        }
        if (0..hist.imgs.len()).any(|i| (0..i).any(|j| contents[i] == contents[j] && !contents[i].2.is_empty() && (hist.imgs[i].ph, hist.imgs[i].pw, hist.imgs[i].transpose, hist.imgs[i].crop) != (hist.imgs[j].ph, hist.imgs[j].pw, hist.imgs[j].transpose, hist.imgs[j].crop))) {
            self.out.hist("has-equal-content-different-layout");
        }
        if hist.evs.iter().any(|e| matches!(e.base(), EvSpec::Resp(_, _, true))) {
            self.out.hist("has-error-response");
        }
        ok
    }
}

fn req_key(steps: &[StepOut]) -> String {
    // cheap fingerprint of the implementation's output
    let mut h: u64 = 0xcbf29ce484222325;
    for s in steps {
        for b in s.bytes.iter() {
            h = (h ^ *b as u64).wrapping_mul(0x100000001b3);
        }
        h = (h ^ 0xff).wrapping_mul(0x100000001b3);
    }
    format!("{h:x}")
}

// ---------------------------------------------------------------------------------------------
// generation
// ---------------------------------------------------------------------------------------------

fn gen_pixels(rng: &mut Rng, n: usize) -> Vec<u8> {
    let mode = rng.below(4);
    let base = [rng.next() as u8, rng.next() as u8, rng.next() as u8, rng.next() as u8];
    let mut v = Vec::with_capacity(n * 4);
    for i in 0..n {
        match mode {
            0 => v.extend_from_slice(&base),
            1 => v.extend_from_slice(&[(i % 251) as u8, (i / 251) as u8, base[2], 255]),
            2 => {
                let x = *rng.pick(&[0u8, 255, 61, 27, 92]);
                v.extend_from_slice(&[x, base[1], x, base[3]])
            }
            _ => v.extend_from_slice(&(rng.next() as u32).to_le_bytes()),
        }
    }
    v
}

fn gen_image(rng: &mut Rng, max: usize) -> ImgSpec {
    let dim = |rng: &mut Rng| -> usize {
        match rng.below(20) {
            0 => 0,
            1..=2 => 1,
            3..=10 => 1 + rng.below(6) as usize,
            11..=15 => 1 + rng.below(max.min(16) as u64) as usize,
            _ => 1 + rng.below(max as u64) as usize,
        }
    };
    let (ph, pw) = (dim(rng), dim(rng));
    let data = gen_pixels(rng, ph * pw);
    let transpose = rng.chance(1, 4);
    let (th, tw) = if transpose { (pw, ph) } else { (ph, pw) };
    let crop = if rng.chance(1, 2) {
        // mostly a proper window, sometimes empty or reaching past the edge
        let range = |rng: &mut Rng, n: usize| -> (usize, usize) {
            if n == 0 || rng.chance(1, 10) {
                let a = rng.below(n as u64 + 1) as usize;
                (a, a + rng.below(3) as usize)
            } else {
                let a = rng.below(n as u64) as usize;
                {
                    let over = if rng.chance(1, 8) { 1 } else { 0 };
                    (a, a + 1 + rng.below((n - a) as u64 + over) as usize)
                }
            }
        };
        let (r0, r1) = range(rng, th);
        let (c0, c1) = range(rng, tw);
        Some((r0, r1, c0, c1))
    } else {
        None
    };
    if !transpose && crop.is_none() && rng.chance(1, 5) {
        return ImgSpec { ph, pw, data, transpose, crop, via: 3 }; // hand-made strided shape through from_parts
    }
    ImgSpec { ph, pw, data, transpose, crop, via: rng.below(3) as u8 }
}

/// another image with exactly the pixels of `spec` but a different memory layout / construction
fn twin_of(rng: &mut Rng, spec: &ImgSpec) -> ImgSpec {
    let (w, h, px) = spec.intended();
    if w == 0 || h == 0 {
        let mut t = spec.clone();
        t.via = (t.via + 1) % 3;
        return t;
    }
    match rng.below(5) {
        // every second row and column of a parent almost twice the size (strides 2·pw and 2, via from_parts)
        4 => {
            let (ph, pw) = (2 * h - 1, 2 * w - 1);
            let mut data = gen_pixels(rng, ph * pw);
            for r in 0..h {
                for col in 0..w {
                    let o = (2 * r * pw + 2 * col) * 4;
                    data[o..o + 4].copy_from_slice(&px[(r * w + col) * 4..(r * w + col) * 4 + 4]);
                }
            }
            ImgSpec { ph, pw, data, transpose: false, crop: None, via: 3 }
        }
        // an owned copy of exactly these pixels
        0 => ImgSpec { ph: h, pw: w, data: px, transpose: false, crop: None, via: rng.below(2) as u8 },
        // a window of a larger parent
        1 => {
            let (a, b, c, d) = (rng.below(3) as usize, rng.below(3) as usize, rng.below(3) as usize, 1 + rng.below(3) as usize);
            let (ph, pw) = (h + a + b, w + c + d);
            let mut data = gen_pixels(rng, ph * pw);
            for r in 0..h {
                for col in 0..w {
                    let o = ((a + r) * pw + c + col) * 4;
                    data[o..o + 4].copy_from_slice(&px[(r * w + col) * 4..(r * w + col) * 4 + 4]);
                }
            }
            ImgSpec { ph, pw, data, transpose: false, crop: Some((a, a + h, c, c + w)), via: rng.below(2) as u8 }
        }
        // stored transposed, viewed through `transpose`
        2 => {
            let mut data = vec![0u8; px.len()];
            for r in 0..h {
                for col in 0..w {
                    let o = (col * h + r) * 4;
                    data[o..o + 4].copy_from_slice(&px[(r * w + col) * 4..(r * w + col) * 4 + 4]);
                }
            }
            ImgSpec { ph: w, pw: h, data, transpose: true, crop: None, via: 0 }
        }
        // the owned copy transposed twice
        _ => ImgSpec { ph: h, pw: w, data: px, transpose: false, crop: None, via: 2 },
    }
}

/// several layouts of one content (plus one unrelated image) drawn and erased on one handler
fn gen_twin_history(rng: &mut Rng) -> History {
    let base = loop {
        let g = gen_image(rng, 12);
        let (w, h, _) = g.intended();
        if w > 0 && h > 0 {
            break g;
        }
    };
    let n = 2 + rng.below(3) as usize;
    let mut imgs = vec![base.clone()];
    for _ in 1..n {
        imgs.push(twin_of(rng, &base));
    }
    imgs.push(gen_image(rng, 8));
    let local = [(0usize, 0usize), (2, 5), (5, 2), (9, 9)];
    let mut evs = Vec::new();
    let mut draws = Vec::new();
    for _ in 0..(3 + rng.below(8)) {
        let k = rng.below(imgs.len() as u64) as usize;
        let p = *rng.pick(&local);
        match rng.below(8) {
            0..=4 => {
                draws.push(evs.len());
                evs.push(EvSpec::Draw(k, p.0, p.1));
            }
            5..=6 => evs.push(EvSpec::Erase(k, if rng.chance(1, 4) { None } else { Some(p) })),
            _ => {
                let j = if draws.is_empty() { None } else { Some(*rng.pick(&draws)) };
                evs.push(EvSpec::Resp(j, rng.chance(1, 2), true));
            }
        }
    }
    History { quiet: rng.chance(1, 4), imgs, evs }
}

/// crops taken from an image during the history — before and after the handler has seen (drawn, erased)
/// the image they are taken from — and drawn / erased on the same handler
fn gen_derive_history(rng: &mut Rng) -> History {
    let base = loop {
        let g = gen_image(rng, 10);
        let (w, h, _) = g.intended();
        if w * h >= 2 {
            break g;
        }
    };
    let mut dims = vec![{
        let (w, h, _) = base.intended();
        (w, h)
    }];
    let mut imgs = vec![base];
    if rng.chance(1, 3) {
        let g = gen_image(rng, 6);
        let (w, h, _) = g.intended();
        dims.push((w, h));
        imgs.push(g);
    }
    let local = [(0usize, 0usize), (2, 5), (5, 2), (9, 9), (1, 7)];
    let mut evs = Vec::new();
    let mut draws = Vec::new();
    for _ in 0..(4 + rng.below(9)) {
        let k = rng.below(dims.len() as u64) as usize;
        let p = *rng.pick(&local);
        match rng.below(10) {
            0..=3 => {
                draws.push(evs.len());
                evs.push(EvSpec::Draw(k, p.0, p.1));
            }
            4..=6 => {
                let (w, h) = dims[k];
                if w * h == 0 {
                    continue;
                }
                let r0 = rng.below(h as u64) as usize;
                let r1 = r0 + 1 + rng.below((h - r0) as u64) as usize;
                let c0 = rng.below(w as u64) as usize;
                let c1 = c0 + 1 + rng.below((w - c0) as u64) as usize;
                evs.push(EvSpec::Derive(k, r0, r1, c0, c1));
                dims.push((c1 - c0, r1 - r0));
                // the fresh crop is used at once, more often than not
                if rng.chance(2, 3) {
                    draws.push(evs.len());
                    evs.push(EvSpec::Draw(dims.len() - 1, p.0, p.1));
                }
            }
            7..=8 => evs.push(EvSpec::Erase(k, if rng.chance(1, 4) { None } else { Some(p) })),
            _ => {
                let j = if draws.is_empty() { None } else { Some(*rng.pick(&draws)) };
                evs.push(EvSpec::Resp(j, rng.chance(1, 2), true));
            }
        }
    }
    History { quiet: rng.chance(1, 4), imgs, evs }
}

/// `n` distinct tiny images: the first is drawn, then all the others, then the first again (and a few of the
/// early ones): nothing may be transmitted twice however many images the handler has seen
fn long_history(n: usize, seed: u64) -> History {
    let imgs: Vec<ImgSpec> = (0..n)
        .map(|i| {
            let mut px = vec![i as u8, (i >> 8) as u8, (seed as u8) ^ 0x33, 255];
            if i % 2 == 1 {
                px.extend_from_slice(&[(i >> 3) as u8, 7, i as u8, 1]);
            }
            ImgSpec { ph: 1, pw: px.len() / 4, data: px, transpose: false, crop: None, via: (i % 2) as u8 }
        })
        .collect();
    let mut evs: Vec<EvSpec> = (0..n).map(|i| EvSpec::Draw(i, i % 7, i % 5)).collect();
    evs.extend([EvSpec::Draw(0, 0, 0), EvSpec::Draw(1, 3, 3), EvSpec::Draw(n / 2, 1, 1), EvSpec::Draw(n - 1, 2, 2)]);
    // error responses for an early and for a late image, then both again
    evs.extend([EvSpec::Resp(Some(0), true, true), EvSpec::Resp(Some(n - 1), true, true), EvSpec::Draw(0, 4, 4), EvSpec::Erase(0, Some((0, 0)))]);
    History { quiet: false, imgs, evs }
}

/// many tiny images and many events on one handler (growth of the transmitted set)
fn gen_big_history(rng: &mut Rng) -> History {
    let nimg = 10 + rng.below(41) as usize;
    let imgs: Vec<ImgSpec> = (0..nimg)
        .map(|i| {
            let (ph, pw) = (1 + rng.below(3) as usize, 1 + rng.below(3) as usize);
            let mut data = gen_pixels(rng, ph * pw);
            data[0] = i as u8; // keep the contents apart
            data[1] = (i >> 8) as u8 ^ 0x5a;
            ImgSpec { ph, pw, data, transpose: rng.chance(1, 6), crop: None, via: rng.below(3) as u8 }
        })
        .collect();
    let pool: Vec<(usize, usize)> = (0..8).map(|i| (i * 3 % 7, i * 5 % 11)).collect();
    let nev = 50 + rng.below(80) as usize;
    let mut evs = Vec::new();
    let mut draws = Vec::new();
    for _ in 0..nev {
        let k = rng.below(nimg as u64) as usize;
        let p = *rng.pick(&pool);
        match rng.below(20) {
            0..=12 => {
                draws.push(evs.len());
                evs.push(EvSpec::Draw(k, p.0, p.1));
            }
            13..=15 => evs.push(EvSpec::Erase(k, if rng.chance(1, 6) { None } else { Some(p) })),
            16..=17 => {
                let j = if draws.is_empty() { None } else { Some(*rng.pick(&draws)) };
                evs.push(EvSpec::Resp(j, rng.chance(3, 4), rng.chance(3, 4)));
            }
            18 => {
                let j = if draws.is_empty() { None } else { Some(*rng.pick(&draws)) };
                evs.push(EvSpec::RespForeign(j, foreign_placement(rng)));
            }
            _ => evs.push(EvSpec::Other),
        }
    }
    History { quiet: rng.chance(1, 4), imgs, evs }
}

fn foreign_placement(rng: &mut Rng) -> u64 {
    match rng.below(5) {
        0 => 0,
        1 => 1 << 32,
        2 => (1 << 32) + rng.below(1 << 20),
        3 => u64::MAX - rng.below(3),
        _ => (1u64 << 32).wrapping_add(rng.next() >> 8),
    }
}

/// an image whose payload needs four or more chunks (more than 2304 pixels), thin or square
fn gen_many_chunk_history(rng: &mut Rng) -> History {
    let (ph, pw) = match rng.below(4) {
        0 => (1 + rng.below(3) as usize, 2400 + rng.below(1200) as usize),
        1 => (2400 + rng.below(1200) as usize, 1 + rng.below(2) as usize),
        _ => (49 + rng.below(16) as usize, 49 + rng.below(16) as usize),
    };
    let img = ImgSpec { ph, pw, data: gen_pixels(rng, ph * pw), transpose: rng.chance(1, 4), crop: None, via: rng.below(3) as u8 };
    let small = gen_image(rng, 6);
    let evs = vec![
        EvSpec::Draw(0, 2, 5),
        EvSpec::Draw(1, 1, 1),
        EvSpec::Draw(0, 5, 2),
        EvSpec::Resp(Some(0), rng.chance(1, 2), true),
        EvSpec::Draw(0, 2, 5),
        EvSpec::Erase(0, Some((5, 2))),
    ];
    History { quiet: false, imgs: vec![img, small], evs }
}

/// byte counts at which a failing writer is interesting for this output: nothing at all, one byte, inside
/// the first header, one byte before / exactly at / one byte after the end of every command, inside every
/// payload, all but the last byte, everything (no failure)
fn cut_points(bytes: &[u8]) -> Vec<usize> {
    let n = bytes.len();
    let mut v = vec![0, 1, 7, n.saturating_sub(1), n.saturating_sub(2), n];
    let mut last = 0;
    for i in 1..n {
        if bytes[i - 1] == 0x1b && bytes[i] == b'\\' {
            let end = i + 1;
            v.extend([end - 2, end - 1, end, end + 1, end + 3, (last + end) / 2]);
            last = end;
        }
    }
    v.retain(|k| *k <= n);
    v.sort();
    v.dedup();
    v
}

fn dry_run(hist: &History) -> Option<Vec<Vec<u8>>> {
    let imgs: Vec<Image> = guarded(|| hist.imgs.iter().map(|s| s.build()).collect::<Vec<_>>()).ok()?;
    let mut imgs = imgs;
    Some(run_impl(hist, &mut imgs).ok()?.into_iter().map(|s| s.bytes).collect())
}

/// give one or two events of `base` a writer that fails somewhere interesting, then draw / erase the images
/// concerned again through working writers
fn with_failures(rng: &mut Rng, mut base: History) -> History {
    let Some(outs) = dry_run(&base) else { return base };
    let cands: Vec<usize> = (0..outs.len()).filter(|i| !outs[*i].is_empty()).collect();
    if cands.is_empty() {
        return base;
    }
    let mut follow = Vec::new();
    for _ in 0..(1 + rng.below(2)) {
        let i = *rng.pick(&cands);
        if base.evs[i].budget().is_some() {
            continue;
        }
        let cuts = cut_points(&outs[i]);
        let k = if rng.chance(1, 5) { rng.below(outs[i].len() as u64 + 1) as usize } else { *rng.pick(&cuts) };
        let ev = base.evs[i].clone();
        match &ev {
            EvSpec::Draw(img, r, c) | EvSpec::Erase(img, Some((r, c))) => {
                follow.extend([EvSpec::Draw(*img, *r, *c), EvSpec::Draw(*img, *c, *r), EvSpec::Erase(*img, Some((*r, *c)))]);
            }
            EvSpec::Resp(Some(j), ..) | EvSpec::RespForeign(Some(j), _) => {
                if let EvSpec::Draw(img, r, c) = base.evs[*j].base() {
                    follow.extend([EvSpec::Draw(*img, *r, *c), EvSpec::Erase(*img, None)]);
                }
            }
            _ => {}
        }
        base.evs[i] = EvSpec::Failing(Box::new(ev), k);
    }
    base.evs.extend(follow);
    base
}

/// every possible failure point of the draw, the erase and the re-draw of a 1x1 image; the interesting ones
/// of a three-chunk image
fn failure_corpus() -> Vec<History> {
    let mut v = Vec::new();
    let one = solid(1, 1, [9, 8, 7, 6]);
    let d = EvSpec::Draw(0, 2, 5);
    let e = EvSpec::Erase(0, Some((2, 5)));
    let r = EvSpec::Resp(Some(0), true, true);
    let fail = |ev: &EvSpec, k: usize| EvSpec::Failing(Box::new(ev.clone()), k);
    let len = |evs: Vec<EvSpec>, i: usize, img: &ImgSpec| -> usize {
        dry_run(&History { quiet: false, imgs: vec![img.clone()], evs }).map(|o| o[i].len()).unwrap_or(0)
    };
    let l_draw = len(vec![d.clone()], 0, &one);
    for k in 0..=l_draw {
        v.push(History { quiet: false, imgs: vec![one.clone()], evs: vec![fail(&d, k), d.clone(), e.clone(), d.clone()] });
    }
    let l_erase = len(vec![d.clone(), e.clone()], 1, &one);
    for k in 0..=l_erase {
        v.push(History { quiet: false, imgs: vec![one.clone()], evs: vec![d.clone(), fail(&e, k), e.clone(), d.clone()] });
    }
    let l_redraw = len(vec![d.clone(), r.clone()], 1, &one);
    for k in 0..=l_redraw {
        v.push(History { quiet: k % 2 == 1, imgs: vec![one.clone()], evs: vec![d.clone(), fail(&r, k), d.clone(), e.clone(), r.clone(), d.clone()] });
    }
    // second draw (placement only) cut
    let l_put = len(vec![d.clone(), d.clone()], 1, &one);
    for k in [0, 1, l_put / 2, l_put - 1] {
        v.push(History { quiet: false, imgs: vec![one.clone()], evs: vec![d.clone(), fail(&d, k), d.clone(), e.clone()] });
    }
    let big = gradient(40, 40);
    if let Some(outs) = dry_run(&History { quiet: false, imgs: vec![big.clone()], evs: vec![d.clone(), r.clone()] }) {
        for k in cut_points(&outs[0]) {
            v.push(History { quiet: false, imgs: vec![big.clone()], evs: vec![fail(&d, k), d.clone(), e.clone()] });
        }
        for k in cut_points(&outs[1]).into_iter().step_by(2) {
            v.push(History { quiet: false, imgs: vec![big.clone()], evs: vec![d.clone(), fail(&r, k), d.clone(), e.clone()] });
        }
    }
    v
}

const POS_POOL: [(usize, usize); 9] =
    [(0, 0), (0, 65535), (65535, 0), (3, 7), (7, 3), (65534, 65535), (65535, 65534), (1, 0), (0, 1)];

fn gen_pos(rng: &mut Rng, local: &[(usize, usize)]) -> (usize, usize) {
    match rng.below(6) {
        0..=2 => *rng.pick(local),
        3..=4 => *rng.pick(&POS_POOL),
        _ => loop {
            let p = (rng.below(65536) as usize, rng.below(65536) as usize);
            if p != CORNER {
                break p;
            }
        },
    }
}

fn gen_history(rng: &mut Rng, max: usize) -> History {
    let nimg = 1 + rng.below(3) as usize;
    let mut imgs: Vec<ImgSpec> = (0..nimg).map(|_| gen_image(rng, max)).collect();
    if max >= 40 && rng.chance(1, 2) {
        // payload above one chunk: more than 768 pixels
        let (ph, pw) = (26 + rng.below(15) as usize, 30 + rng.below(11) as usize);
        let mut big = ImgSpec { ph, pw, data: gen_pixels(rng, ph * pw), transpose: rng.chance(1, 4), crop: None, via: rng.below(2) as u8 };
        if rng.chance(1, 3) {
            let (th, tw) = if big.transpose { (pw, ph) } else { (ph, pw) };
            big.crop = Some((rng.below(3) as usize, th - rng.below(3) as usize, rng.below(3) as usize, tw - rng.below(3) as usize));
        }
        imgs[0] = big;
    }
    if nimg > 1 && rng.chance(1, 5) {
        // same pixels through a different construction: same content, must share the transmission
        imgs[1] = twin_of(rng, &imgs[0].clone());
    }
    // a few positions that recur inside this history (so that erase meets its draw, and (r,c)/(c,r) both occur)
    let a = (rng.below(65536) as usize, rng.below(65536) as usize);
    let mut local = vec![(0, 0), (a.0 % 65535, a.1 % 65535), (a.1 % 65535, a.0 % 65535), (2, 5), (5, 2)];
    local.dedup();
    let long = rng.chance(1, 4);
    let nev = 1 + rng.below(if long { 14 } else { 7 }) as usize;
    let mut evs = Vec::new();
    let mut draws: Vec<usize> = Vec::new();
    for _ in 0..nev {
        let k = rng.below(nimg as u64) as usize;
        let ev = match rng.below(10) {
            0..=4 => {
                let p = gen_pos(rng, &local);
                draws.push(evs.len());
                EvSpec::Draw(k, p.0, p.1)
            }
            5..=6 => {
                let p = gen_pos(rng, &local);
                EvSpec::Erase(k, if rng.chance(1, 5) { None } else { Some(p) })
            }
            7..=8 => {
                let j = if draws.is_empty() || rng.chance(1, 8) { None } else { Some(*rng.pick(&draws)) };
                if rng.chance(1, 8) {
                    EvSpec::RespForeign(j, foreign_placement(rng))
                } else {
                    EvSpec::Resp(j, rng.chance(3, 4), rng.chance(3, 4))
                }
            }
            _ => EvSpec::Other,
        };
        evs.push(ev);
    }
    History { quiet: rng.chance(1, 4), imgs, evs }
}

fn solid(ph: usize, pw: usize, px: [u8; 4]) -> ImgSpec {
    ImgSpec { ph, pw, data: px.iter().cycle().take(ph * pw * 4).cloned().collect(), transpose: false, crop: None, via: 0 }
}

fn gradient(ph: usize, pw: usize) -> ImgSpec {
    let mut data = Vec::new();
    for r in 0..ph {
        for c in 0..pw {
            data.extend_from_slice(&[r as u8, c as u8, (r * pw + c) as u8, 200]);
        }
    }
    ImgSpec { ph, pw, data, transpose: false, crop: None, via: 0 }
}

/// A 1x2 image whose `Surface::hash` has the given low 32 bits: edge values of the id arithmetic (all ones:
/// the largest residue; see also the 1x1 witness of id 0). Constructed on the assumption that the hash is
/// 64-bit FNV-1a over height, width and length-prefixed pixels (its low 32 bits are then a 32-bit recurrence:
/// meet in the middle over the four bytes of the last pixel), and VERIFIED through the public `Surface::hash`;
/// if the hash is computed differently nothing is returned.
fn image_with_hash_low32(target: u32) -> Option<ImgSpec> {
    const P: u32 = 0x1b3; // low 32 bits of the FNV prime 0x100000001b3
    let step = |h: u32, b: u8| (h ^ b as u32).wrapping_mul(P);
    // inverse of P modulo 2^32 (Newton)
    let mut inv: u32 = 1;
    for _ in 0..6 {
        inv = inv.wrapping_mul(2u32.wrapping_sub(P.wrapping_mul(inv)));
    }
    for p0 in 0u32..64 {
        let first = [p0 as u8, 17, 34, 51];
        let mut h: u32 = 0x84222325; // low 32 bits of the offset basis
        for b in 1u64.to_le_bytes().iter().chain(2u64.to_le_bytes().iter()) {
            h = step(h, *b);
        }
        for b in 4u64.to_le_bytes().iter().chain(first.iter()).chain(4u64.to_le_bytes().iter()) {
            h = step(h, *b);
        }
        let mut fwd: std::collections::HashMap<u32, (u8, u8)> = std::collections::HashMap::new();
        for b0 in 0..=255u8 {
            for b1 in 0..=255u8 {
                fwd.insert(step(step(h, b0), b1), (b0, b1));
            }
        }
        for b3 in 0..=255u8 {
            for b2 in 0..=255u8 {
                let before3 = target.wrapping_mul(inv) ^ b3 as u32;
                let before2 = before3.wrapping_mul(inv) ^ b2 as u32;
                if let Some((b0, b1)) = fwd.get(&before2) {
                    let mut data = first.to_vec();
                    data.extend_from_slice(&[*b0, *b1, b2, b3]);
                    let spec = ImgSpec { ph: 1, pw: 2, data, transpose: false, crop: None, via: 1 };
                    if (Surface::hash(&spec.build()) & 0xffff_ffff) as u32 == target {
                        return Some(spec);
                    }
                    return None; // the hash is not what the construction assumes
                }
            }
        }
    }
    None
}

/// white-box cases, run whatever the seed
fn corpus() -> Vec<History> {
    let mut v = Vec::new();
    // edge residues of the content hash: low 32 bits all ones / all zero / 2^32-2
    for t in [0xffff_ffffu32, 0, 0xffff_fffe] {
        if let Some(img) = image_with_hash_low32(t) {
            v.push(History { quiet: false, imgs: vec![img], evs: vec![EvSpec::Draw(0, 2, 5), EvSpec::Draw(0, 5, 2), EvSpec::Erase(0, Some((2, 5))), EvSpec::Resp(Some(0), true, true)] });
        }
    }
    let witness = solid(1, 1, [178, 12, 127, 104]); // image id 0 on the pinned tree
    let d = |k, r, c| EvSpec::Draw(k, r, c);
    let e = |k, r, c| EvSpec::Erase(k, Some((r, c)));
    // (0,0): placement id must not be 0; erase there must leave the other placement alone
    v.push(History { quiet: false, imgs: vec![gradient(2, 3)], evs: vec![d(0, 0, 0), d(0, 4, 4), e(0, 0, 0), e(0, 4, 4)] });
    v.push(History { quiet: false, imgs: vec![witness.clone()], evs: vec![d(0, 0, 0), e(0, 0, 0), d(0, 1, 1)] });
    // empty images: 0x0, 0x5, 5x0, empty crop
    for (ph, pw) in [(0, 0), (0, 5), (5, 0)] {
        v.push(History { quiet: false, imgs: vec![solid(ph, pw, [1, 2, 3, 4]), gradient(2, 2)], evs: vec![d(0, 1, 1), d(1, 1, 1), d(0, 0, 0), e(0, 1, 1)] });
    }
    let mut empty_crop = gradient(4, 4);
    empty_crop.crop = Some((2, 2, 0, 4));
    v.push(History { quiet: true, imgs: vec![empty_crop], evs: vec![d(0, 2, 2), EvSpec::Erase(0, None)] });
    // row != col, both orders
    v.push(History { quiet: false, imgs: vec![gradient(3, 2)], evs: vec![d(0, 2, 5), d(0, 5, 2), e(0, 2, 5), e(0, 5, 2)] });
    v.push(History { quiet: false, imgs: vec![gradient(3, 2)], evs: vec![d(0, 0, 65535), d(0, 65535, 0), e(0, 65535, 0), d(0, 65534, 65535), e(0, 0, 65535)] });
    // chunk boundaries: 768 px = exactly 4096 base64 bytes; 769 px; 40x40 = 3 chunks; non-square
    for (ph, pw) in [(24, 32), (32, 24), (1, 1), (40, 40), (27, 29), (40, 39), (2, 40)] {
        v.push(History { quiet: false, imgs: vec![gradient(ph, pw)], evs: vec![d(0, 1, 2), d(0, 2, 1), EvSpec::Resp(Some(0), true, true), d(0, 1, 2), EvSpec::Erase(0, None)] });
    }
    let mut strip = gradient(40, 40);
    strip.crop = Some((0, 1, 0, 40)); // wait: 769 px is not reachable below 40x40 as a rectangle; 31x25 = 775
    v.push(History { quiet: false, imgs: vec![strip, gradient(31, 25)], evs: vec![d(0, 0, 0), d(1, 0, 0), e(0, 0, 0)] });
    // cropped / transposed views
    let mut crop = gradient(7, 9);
    crop.crop = Some((2, 6, 3, 8));
    let mut crop2 = crop.clone();
    crop2.via = 1;
    let mut tr = gradient(5, 8);
    tr.transpose = true;
    let mut trc = gradient(6, 4);
    trc.transpose = true;
    trc.crop = Some((1, 3, 2, 6));
    v.push(History { quiet: false, imgs: vec![crop, crop2, tr, trc], evs: vec![d(0, 1, 1), d(1, 2, 2), d(2, 3, 3), d(3, 4, 4), e(1, 1, 1), e(0, 2, 2)] });
    // error responses: with and without placement, unknown id, OK response; then the image must be sent again
    v.push(History { quiet: false, imgs: vec![gradient(3, 3), gradient(2, 2)], evs: vec![
        d(0, 1, 1), d(1, 2, 2), EvSpec::Resp(Some(0), false, true), d(0, 1, 1), EvSpec::Resp(Some(1), true, false), d(1, 2, 2),
        EvSpec::Resp(None, true, true), EvSpec::Resp(Some(1), true, true), d(1, 3, 3), EvSpec::Other] });
    // one content in four layouts (owned, window of a larger parent, stored transposed, transposed twice):
    // one transmission, shared id, erase of one layout addresses the placement made through another
    let owned = gradient(3, 2);
    let mut window = ImgSpec { ph: 5, pw: 4, data: vec![7u8; 5 * 4 * 4], transpose: false, crop: Some((1, 4, 1, 3)), via: 0 };
    let mut stored_t = ImgSpec { ph: 2, pw: 3, data: vec![0u8; 24], transpose: true, crop: None, via: 0 };
    for r in 0..3 {
        for c in 0..2 {
            let px = owned.parent_px(r, c);
            let o = ((1 + r) * 4 + 1 + c) * 4;
            window.data[o..o + 4].copy_from_slice(&px);
            let o = (c * 3 + r) * 4;
            stored_t.data[o..o + 4].copy_from_slice(&px);
        }
    }
    let mut twice = owned.clone();
    twice.via = 2;
    let mut window1 = window.clone();
    window1.via = 1;
    v.push(History { quiet: false, imgs: vec![owned, window, stored_t, twice, window1], evs: vec![
        d(0, 1, 1), d(1, 2, 2), d(2, 3, 3), d(3, 4, 4), d(4, 5, 5), e(3, 1, 1), e(0, 2, 2), EvSpec::Erase(2, None)] });
    // a re-draw after an error response restores the placement where it was made (row != col), and an erase
    // afterwards addresses it; foreign placement ids (0, 2^32, 2^32+5, u64::MAX) in error responses
    v.push(History { quiet: false, imgs: vec![gradient(2, 2), gradient(1, 3)], evs: vec![
        d(0, 2, 5), d(1, 7, 3), EvSpec::Resp(Some(0), true, true), e(0, 5, 2), e(0, 2, 5), d(0, 2, 5),
        EvSpec::Resp(Some(1), true, true), EvSpec::Erase(1, None), d(1, 0, 65535), EvSpec::Resp(Some(8), true, true), e(1, 0, 65535)] });
    v.push(History { quiet: true, imgs: vec![gradient(2, 2), gradient(1, 3)], evs: vec![
        d(0, 2, 5), EvSpec::RespForeign(Some(0), 0), d(0, 2, 5), EvSpec::RespForeign(Some(0), 1 << 32), d(1, 1, 1),
        EvSpec::RespForeign(Some(4), (1 << 32) + 5), e(1, 1, 1), EvSpec::RespForeign(Some(0), u64::MAX), d(0, 2, 5), e(0, 2, 5)] });
    // four and more chunks: 50x50 = 10000 bytes -> 13336 characters; a thin 1x2500 strip; 64x64 = 6 chunks
    for (ph, pw) in [(50, 50), (1, 2500), (64, 64)] {
        v.push(History { quiet: false, imgs: vec![gradient(ph, pw)], evs: vec![d(0, 2, 5), EvSpec::Resp(Some(0), true, true), e(0, 2, 5)] });
    }
    // crops derived from an image the handler already knows (drawn / erased / only hashed by an erase), and one
    // derived before; a crop of a crop; the full-size crop (same content: shares the transmission)
    let dv = |k, r0, r1, c0, c1| EvSpec::Derive(k, r0, r1, c0, c1);
    v.push(History { quiet: false, imgs: vec![gradient(4, 5)], evs: vec![
        dv(0, 0, 2, 0, 2), d(0, 1, 1), dv(0, 1, 3, 1, 4), d(2, 2, 2), d(1, 3, 3), dv(2, 0, 1, 1, 3), d(3, 4, 4),
        dv(0, 0, 4, 0, 5), d(4, 5, 5), e(2, 2, 2), e(0, 1, 1), e(3, 4, 4), EvSpec::Erase(1, None)] });
    v.push(History { quiet: false, imgs: vec![gradient(3, 3)], evs: vec![
        e(0, 1, 1), dv(0, 0, 1, 0, 3), d(1, 1, 1), d(0, 1, 1), e(1, 1, 1), EvSpec::Resp(Some(2), true, true)] });
    // a strided image made by hand (from_parts: every second row / column of a 5x7 parent), its crop, and an owned
    // copy of the same pixels; all through a sink that takes 3 bytes per call and interrupts every other call
    let strided = ImgSpec { via: 3, ..gradient(5, 7) };
    let (sw, sh_, spx) = strided.intended();
    let copy = ImgSpec { ph: sh_, pw: sw, data: spx, transpose: false, crop: None, via: 0 };
    let short = |ev: EvSpec| EvSpec::Short(Box::new(ev), 3);
    v.push(History { quiet: false, imgs: vec![strided, copy], evs: vec![
        short(d(0, 2, 5)), short(d(1, 5, 2)), dv(0, 1, 3, 1, 4), short(d(2, 1, 1)), short(EvSpec::Resp(Some(0), true, true)),
        short(EvSpec::Resp(Some(3), true, true)), short(e(1, 2, 5)), short(EvSpec::Erase(2, None))] });
    // quiet() applied to a handler that has already drawn: the record of transmitted images must survive
    v.push(History { quiet: false, imgs: vec![gradient(2, 2), gradient(1, 3)], evs: vec![
        d(0, 2, 5), EvSpec::Quiet, d(0, 5, 2), d(1, 1, 1), EvSpec::Resp(Some(0), true, true), EvSpec::Quiet, d(1, 3, 3),
        e(0, 2, 5), EvSpec::Resp(Some(3), true, true), d(0, 2, 5)] });
    // 320 distinct images on one handler, then the first ones again
    v.push(long_history(320, 1));
    // twenty images, all drawn, then all drawn again: nothing may be transmitted a second time
    let many: Vec<ImgSpec> = (0..20).map(|i| solid(1, 2, [i as u8, 1, 2, 3])).collect();
    let mut evs: Vec<EvSpec> = (0..20).map(|i| d(i, i % 5, i % 3)).collect();
    evs.extend((0..20).map(|i| d(i, i % 3, i % 5)));
    evs.extend((0..20).map(|i| e(i, i % 5, i % 3)));
    v.push(History { quiet: false, imgs: many, evs });
    v
}

fn corner_case(run: &mut Runner) {
    let img = gradient(2, 2);
    let hist = History {
        quiet: false,
        imgs: vec![img],
        evs: vec![EvSpec::Draw(0, 0, 0), EvSpec::Draw(0, 65535, 65535), EvSpec::Erase(0, Some(CORNER))],
    };
    run.history(&hist, false);
    run.out.hist("corner-case");
}

/// 1x1 images whose id is 0: run the real handler, read `i=` of the transmission
fn id_zero_search(out: &mut Out, thorough: bool) {
    let mut examined = 0u64;
    let found = std::cell::Cell::new(0u64);
    let scan = |r: u8, g: u8, b: u8, a: u8, out: &mut Out| {
        let img = Image::from(SurfaceOwned::new_with(Size { height: 1, width: 1 }, |_| RGBA::new(r, g, b, a)));
        let mut buf = Vec::with_capacity(96);
        let mut h = KittyImageHandler::new();
        if h.draw(&mut buf, &img, Position { row: 1, col: 1 }).is_err() {
            return;
        }
        // "\x1b_Ga=t,f=32,i=<id>,"  — cheap scan, full parse only on suspicion
        let zero = buf.windows(5).any(|w| w == b",i=0,") || buf.windows(5).any(|w| w == b",i=0;");
        if zero {
            found.set(found.get() + 1);
            out.fail("image id 0 (= unspecified) used for a transmission", json!({"history": History { quiet: false, imgs: vec![solid(1, 1, [r, g, b, a])], evs: vec![EvSpec::Draw(0, 1, 1)] }.to_json()}), json!("non-zero id"), json!(0));
        }
    };
    if thorough {
        for r in 0..=255u8 {
            for g in 0..=255u8 {
                for b in 0..=255u8 {
                    scan(r, g, b, 104, out);
                    examined += 1;
                }
            }
        }
    } else {
        for g in 0..=255u8 {
            for b in 0..=255u8 {
                scan(178, g, b, 104, out);
                examined += 1;
            }
        }
    }
    out.extra("id_zero_search", json!({"one_by_one_images_examined": examined, "alpha": 104, "found": found.get()}));
}

/// `SurfModel/Generated/Base64Tables.lean` from the current build of /repo. The model of `Base64Encoder` that
/// `SurfModel.KittyStream` runs (C14's) takes `BASE64_ENCODE` from this file, and C11's theorems go through
/// `C14_tables` over it, so C11's check regenerates it too. The text must stay byte-identical to what
/// `c14 tables` (`write_tables` in c14.rs) writes: both checks write the same file.
fn write_tables(cfg: &Cfg, names: &[String]) {
    fn rows(l: &[u8]) -> String {
        l.chunks(16)
            .map(|c| format!("   {}", c.iter().map(|x| x.to_string()).collect::<Vec<_>>().join(", ")))
            .collect::<Vec<_>>()
            .join(",\n")
    }
    for name in names {
        assert_eq!(name, "Base64Tables", "c11 generates only Base64Tables");
        let enc = surf_n_term::encoder::verif_c14::base64_encode_table();
        let dec = surf_n_term::decoder::verif_c14::base64_decode_table();
        let mut s = String::new();
        s.push_str("/-! GENERATED by `c14 tables` from the current build of /repo (hooks encoder::verif_c14, decoder::verif_c14). Do not edit. -/\n");
        s.push_str("namespace SurfModel.Generated.Base64Tables\n\n");
        s.push_str(&format!("/-- `BASE64_ENCODE` of src/encoder.rs -/\ndef encodeTable : List Nat := [\n{}]\n\n", rows(&enc)));
        s.push_str(&format!("/-- `BASE64_DECODE` of src/decoder.rs -/\ndef decodeTable : List Nat := [\n{}]\n\n", rows(&dec)));
        s.push_str("end SurfModel.Generated.Base64Tables\n");
        std::fs::write(cfg.outdir.join(format!("{name}.lean")), s).unwrap();
    }
}

fn main() {
    let cfg = Cfg::from_env();
    if let Some(names) = &cfg.tables {
        write_tables(&cfg, names);
        return;
    }
    let mut out = cfg.out();
    verif_harness::silence_panics();

    if let Some(rep) = cfg.replay.as_ref() {
        let input = &rep["failure"]["input"];
        let mut run = Runner { out: &mut out, id_collisions: Vec::new() };
        if let Some(h) = input.get("history").and_then(History::from_json) {
            run.history(&h, true);
        } else if input.get("pos").is_some() {
            corner_case(&mut run);
        } else {
            for h in corpus().into_iter().chain(failure_corpus()) {
                run.history(&h, true);
            }
        }
        out.finish("replay of one recorded input");
        return;
    }

    let mut rng = Rng::new(cfg.seed);
    {
        let mut run = Runner { out: &mut out, id_collisions: Vec::new() };
        for h in corpus() {
            run.history(&h, true);
        }
        for h in failure_corpus() {
            run.history(&h, true);
        }
        corner_case(&mut run);
        let n = if cfg.thorough { 60_000 } else { 4_000 };
        for i in 0..n {
            let max = if i % 4 == 0 { 40 } else { 12 };
            let h = if i % 10 == 3 {
                gen_derive_history(&mut rng)
            } else if cfg.thorough && i % 2000 == 17 {
                long_history(300 + rng.below(500) as usize, rng.next())
            } else if i % 10 == 1 {
                gen_twin_history(&mut rng)
            } else if i % 40 == 7 {
                gen_big_history(&mut rng)
            } else if cfg.thorough && i % 200 == 13 {
                gen_many_chunk_history(&mut rng)
            } else {
                gen_history(&mut rng, max)
            };
            let h = if i % 12 == 5 { with_failures(&mut rng, h) } else { h };
            // the builder quiet() somewhere in the middle (once or twice)
            let h = if i % 7 == 2 {
                let mut h = h;
                for _ in 0..(1 + rng.below(2)) {
                    let at = rng.below(h.evs.len() as u64 + 1) as usize;
                    // responses refer to earlier draw events by index: keep them pointing at the same events
                    for e in h.evs.iter_mut() {
                        shift_refs(e, at);
                    }
                    h.evs.insert(at, EvSpec::Quiet);
                }
                h
            } else {
                h
            };
            // sinks that take a few bytes per call and interrupt every other call: same bytes must arrive
            let h = if i % 9 == 4 {
                let n = 1 + rng.below(9) as usize;
                History { evs: h.evs.into_iter().map(|e| if matches!(e, EvSpec::Derive(..)) { e } else { EvSpec::Short(Box::new(e), n) }).collect(), ..h }
            } else {
                h
            };
            run.history(&h, true);
            if i % 211 == 0 {
                let s = json!({"images": h.imgs.iter().map(|i| format!("{}x{}{}{}", i.ph, i.pw, if i.transpose { " transposed" } else { "" }, i.crop.map(|c| format!(" crop {:?}", c)).unwrap_or_default())).collect::<Vec<_>>(),
                               "events": h.evs.iter().map(|e| e.to_json()).collect::<Vec<_>>()});
                run.out.sample(s);
            }
        }
        // different contents under one image id: inherent to 32-bit ids when it happens once in a blue moon
        // (64-bit content hashes folded to 32 bits), a defect of the id scheme when it is frequent
        let n_coll = run.id_collisions.len();
        if n_coll > 2 {
            let first = run.id_collisions[0].clone();
            run.out.fail("different image contents share an image id far more often than 32-bit ids explain", first,
                json!("at most a couple of collisions per run"), json!(n_coll));
        }
        run.out.extra("image_id_collisions_excused", json!(n_coll.min(2)));
    }
    id_zero_search(&mut out, cfg.thorough);
    out.finish("(one history in 12 additionally gives one or two of its events a writer that fails after k bytes — k = 0, 1, inside a header, around the end of every command, inside every payload, all but the last byte — and then draws / erases the images concerned again through working writers; every k for the draw, erase and re-draw of a 1x1 image and the command boundaries of a 3-chunk image are run on every seed) histories of draw / erase / terminal-response (own, made-up and foreign placement ids >= 2^32 or 0) / other events on one KittyImageHandler; one history in 10 draws 2-4 different memory layouts of one pixel content (owned copy, window of a larger parent, stored transposed, transposed twice), one in 10 takes crops of an image DURING the history (before and after the handler has drawn / erased it) and draws / erases them, one history of every run has 320 distinct tiny images drawn on one handler before the first ones come again (thorough: 30 more with 300-800), one in 40 has 10-50 tiny images and 50-130 events, thorough: one in 200 has an image of 4+ chunks (thin 1-3 x 2400-3600 or 49-64 squared); the rest over 1-3 images (0x0 .. 40x40, random / constant / gradient pixels, plain, cropped, transposed, transposed+cropped, built by Image::new(view) or Image::from(..).crop(..)); positions from a recurring pool incl. (0,0), (0,65535), (65535,0), swapped pairs, random below 65536; non-trivial = at least one draw of a non-empty image; distinct by the bytes the implementation wrote; plus the corner case (65535,65535) and a search over 1x1 images for image id 0");
}
