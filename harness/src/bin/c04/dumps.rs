// Dumps of the production automata in the wire format of the C15 driver (`SurfModel.Automata.Wire`), with
// tags rendered as the model's tag numbers. Shared by the C04 and C02 harnesses:
// `#[path = "c04/dumps.rs"] mod dumps;` (needs `mod events;` next to it).
#![allow(dead_code)]
use super::events::{MATCHER_BASE, key_code};
use surf_n_term::{
    automata::verif_c15::VerifNfaDump,
    decoder::verif_c04::{VerifDfaState, VerifTag},
    terminal::TerminalEvent,
};

/// maximal runs of consecutive bytes with the same target: `lo-hi>target,…`
pub fn runs(edges: &[(u8, usize)]) -> String {
    if edges.is_empty() {
        return "-".into();
    }
    let mut parts = vec![];
    let mut i = 0;
    while i < edges.len() {
        let (lo, t) = edges[i];
        let mut hi = lo;
        let mut j = i + 1;
        while j < edges.len() && edges[j].1 == t && edges[j].0 as usize == hi as usize + 1 {
            hi = edges[j].0;
            j += 1;
        }
        parts.push(format!("{lo:02x}-{hi:02x}>{t}"));
        i = j;
    }
    parts.join(",")
}

pub fn list(xs: impl Iterator<Item = String>) -> String {
    let v: Vec<String> = xs.collect();
    if v.is_empty() { "-".into() } else { v.join(",") }
}

/// tag number of an item of the event automaton: key code; anything else has no number in the model
pub fn event_item_tag(e: &TerminalEvent) -> String {
    match e {
        TerminalEvent::Key(k) => key_code(k).to_string(),
        other => format!("not-a-key:{other:?}").replace([' ', '/', ';', ','], "_"),
    }
}

/// `start stop n st0;st1;…`, `st = edges/eps/tag`; ids must be dense and in order
pub fn dump_nfa<T>(d: &VerifNfaDump<T>, tag: impl Fn(&T) -> String) -> String {
    let mut sts = vec![];
    for (i, st) in d.states.iter().enumerate() {
        let id = if st.id == i { String::new() } else { format!("id{}!", st.id) };
        sts.push(format!(
            "{id}{}/{}/{}",
            runs(&st.edges),
            list(st.epsilons.iter().map(|e| e.to_string())),
            st.tag.as_ref().map(&tag).unwrap_or("-".into())
        ));
    }
    format!("{} {} {} {}", d.start, d.stop, d.states.len(), sts.join(";"))
}

/// the model's number of a tag
pub fn tag_number<T>(t: &VerifTag<T>, item: &impl Fn(&T) -> String) -> String {
    match t {
        VerifTag::Item(e) => item(e),
        VerifTag::Matcher(i) => (MATCHER_BASE + *i as u64).to_string(),
    }
}

/// `<n> row;row;…`, `row = flags/tags/edges` (the table format of `c15 bisim`)
pub fn show_table<T>(dfa: &[VerifDfaState<T>], item: impl Fn(&T) -> String) -> String {
    let rows: Vec<String> = dfa
        .iter()
        .map(|s| {
            let mut f = String::new();
            if s.accepting {
                f.push('a');
            }
            if s.terminal {
                f.push('t');
            }
            if f.is_empty() {
                f.push('-');
            }
            format!("{f}/{}/{}", list(s.tags.iter().map(|t| tag_number(t, &item))), runs(&s.edges))
        })
        .collect();
    format!("{} {}", dfa.len(), rows.join(";"))
}
