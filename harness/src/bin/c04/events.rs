// Canonical text of decoder results, implemented identically in Lean (`SurfModel.Payload.showEvent`).
// Shared by the C04 and C02 harnesses: `#[path = "c04/events.rs"] mod events;`
//
// One event is one token without spaces:
//   key:<variant>.<payload>.<mode bits>          mouse:<variant>.<payload>.<mode>@<row>,<col>
//   cpr:<row>,<col>                               size:<cell h>,<cell w>,<pixel h>,<pixel w>
//   decmode:<mode number>,<status number>         kitty:<id>,<placement|->,<ok|e<hex of message>>
//   kbd:<level>                                   termcap:<hex key>=<hex value|!>;…   (sorted, `-` if empty)
//   da:<n>,<n>,…  (sorted, `-` if empty)          raw:<hex>
//   color:<fg|bg|p<index>>=<r>,<g>,<b>,<a>        face:<fg>/<bg>/<underline>/<bold><italic><blink><reverse><strike>
//   sgr:<reset>/<fg>/<bg>/<underline|->/<underline colour>/<bold><italic><blink><strike>  (tri-state: 1 0 -)
//   paste:<hex>                                   char:<code point>
#![allow(dead_code)]
use surf_n_term::{
    Color as _, Face, FaceAttrs, FaceModify, Key, KeyMod, KeyName, RGBA, UnderlineStyle,
    terminal::{DecMode, DecModeStatus, TerminalColor, TerminalCommand, TerminalEvent},
};

pub fn hexs(bytes: &[u8]) -> String {
    if bytes.is_empty() {
        return "-".to_string();
    }
    let mut s = String::with_capacity(bytes.len() * 2);
    for b in bytes {
        s.push_str(&format!("{b:02x}"));
    }
    s
}

/// position of the `KeyName` variant in the declaration (= derived order) and its payload
pub fn key_name_variant(name: KeyName) -> (u64, u64) {
    match name {
        KeyName::Backspace => (0, 0),
        KeyName::Char(c) => (1, c as u64),
        KeyName::Delete => (2, 0),
        KeyName::Insert => (3, 0),
        KeyName::Down => (4, 0),
        KeyName::End => (5, 0),
        KeyName::Enter => (6, 0),
        KeyName::Esc => (7, 0),
        KeyName::F(n) => (8, n as u64),
        KeyName::Home => (9, 0),
        KeyName::Left => (10, 0),
        KeyName::MouseLeft => (11, 0),
        KeyName::MouseMiddle => (12, 0),
        KeyName::MouseMove => (13, 0),
        KeyName::MouseRight => (14, 0),
        KeyName::MouseWheelDown => (15, 0),
        KeyName::MouseWheelUp => (16, 0),
        KeyName::PageDown => (17, 0),
        KeyName::PageUp => (18, 0),
        KeyName::Right => (19, 0),
        KeyName::Tab => (20, 0),
        KeyName::Up => (21, 0),
    }
}

pub fn key_name_of_variant(v: u64, p: u64) -> Option<KeyName> {
    Some(match v {
        0 => KeyName::Backspace,
        1 => KeyName::Char(char::from_u32(p as u32)?),
        2 => KeyName::Delete,
        3 => KeyName::Insert,
        4 => KeyName::Down,
        5 => KeyName::End,
        6 => KeyName::Enter,
        7 => KeyName::Esc,
        8 => KeyName::F(p as usize),
        9 => KeyName::Home,
        10 => KeyName::Left,
        11 => KeyName::MouseLeft,
        12 => KeyName::MouseMiddle,
        13 => KeyName::MouseMove,
        14 => KeyName::MouseRight,
        15 => KeyName::MouseWheelDown,
        16 => KeyName::MouseWheelUp,
        17 => KeyName::PageDown,
        18 => KeyName::PageUp,
        19 => KeyName::Right,
        20 => KeyName::Tab,
        21 => KeyName::Up,
        _ => return None,
    })
}

const MOD_FLAGS: [(KeyMod, u64); 9] = [
    (KeyMod::SHIFT, 1),
    (KeyMod::ALT, 2),
    (KeyMod::CTRL, 4),
    (KeyMod::SUPER, 8),
    (KeyMod::HYPER, 16),
    (KeyMod::META, 32),
    (KeyMod::CAPSLOCK, 64),
    (KeyMod::NUMLOCK, 128),
    (KeyMod::PRESS, 256),
];

/// Bytes the derived `Hash` implementation of a value feeds to the hasher: for a struct with one private integer
/// field this is that field as stored, read without any accessor, conversion or comparison of the crate.
fn hashed_bytes<T: std::hash::Hash>(v: &T) -> Vec<u8> {
    use std::hash::Hasher;
    struct Grab(Vec<u8>);
    impl Hasher for Grab {
        fn finish(&self) -> u64 {
            0
        }
        fn write(&mut self, bytes: &[u8]) {
            self.0.extend_from_slice(bytes);
        }
    }
    let mut g = Grab(Vec::new());
    v.hash(&mut g);
    g.0
}

fn le_word(bytes: &[u8]) -> u64 {
    let mut v: u64 = 0;
    for (i, b) in bytes.iter().take(8).enumerate() {
        let shift = if cfg!(target_endian = "big") { 8 * (bytes.len().min(8) - 1 - i) } else { 8 * i };
        v |= (*b as u64) << shift;
    }
    v
}

/// the modifier word of a `KeyMod` as the accessors report it (`contains` flag by flag)
pub fn mod_bits_by_accessors(m: KeyMod) -> u64 {
    MOD_FLAGS.iter().filter(|(f, _)| m.contains(*f)).map(|(_, b)| *b).sum()
}

/// The (private) modifier word of a `KeyMod` AS STORED (`bits: u32`, through the derived `Hash`), not through
/// `contains` / `from_bits` / `Debug`: shift 1, alt 2, ctrl 4, super 8, hyper 16, meta 32, capslock 64,
/// numlock 128, press 256.
pub fn mod_bits(m: KeyMod) -> u64 {
    le_word(&hashed_bytes(&m))
}

/// `!accessors=<n>` when `KeyMod::contains` disagrees with the stored word (appended to the canonical text so
/// that the disagreement shows as a mismatch), else empty
fn mod_check(m: KeyMod) -> String {
    let (raw, acc) = (mod_bits(m), mod_bits_by_accessors(m));
    if raw == acc { String::new() } else { format!("!accessors={acc}") }
}

pub fn mod_of_bits(bits: u64) -> KeyMod {
    KeyMod::from_bits(bits as u32)
}

/// the model's tag number of a key (order preserving, see `SurfModel.Grammar.keyCode3`)
pub fn key_code(k: &Key) -> u64 {
    let (v, p) = key_name_variant(k.name);
    (v * 4294967296 + p) * 512 + mod_bits(k.mode)
}

pub const MATCHER_BASE: u64 = 281474976710656;

const UNDERS: [UnderlineStyle; 6] = [
    UnderlineStyle::None,
    UnderlineStyle::Straight,
    UnderlineStyle::Double,
    UnderlineStyle::Curly,
    UnderlineStyle::Dotted,
    UnderlineStyle::Dashed,
];
/// number of an underline style by the NAME of the variant (no `PartialEq`, no `as`)
pub fn under_num(u: UnderlineStyle) -> usize {
    match u {
        UnderlineStyle::None => 0,
        UnderlineStyle::Straight => 1,
        UnderlineStyle::Double => 2,
        UnderlineStyle::Curly => 3,
        UnderlineStyle::Dotted => 4,
        UnderlineStyle::Dashed => 5,
    }
}
pub fn under_of_num(n: usize) -> UnderlineStyle {
    UNDERS[n % 6]
}
pub fn rgba_tok(c: Option<RGBA>) -> String {
    match c {
        None => "-".into(),
        Some(c) => {
            let [r, g, b, a] = c.to_rgba();
            format!("{r},{g},{b},{a}")
        }
    }
}
fn tri(v: Option<bool>) -> &'static str {
    match v {
        None => "-",
        Some(true) => "1",
        Some(false) => "0",
    }
}
fn bit(b: bool) -> &'static str {
    if b { "1" } else { "0" }
}

pub fn show_fmod(m: &FaceModify) -> String {
    format!(
        "sgr:{}/{}/{}/{}/{}/{}{}{}{}",
        bit(m.reset),
        rgba_tok(m.fg),
        rgba_tok(m.bg),
        m.underline.map(|u| under_num(u).to_string()).unwrap_or("-".into()),
        rgba_tok(m.underline_color),
        tri(m.bold),
        tri(m.italic),
        tri(m.blink),
        tri(m.strike)
    )
}

/// the attribute word of a `FaceAttrs` AS STORED (`bits: u16`, through the derived `Hash`)
pub fn face_attr_bits(a: FaceAttrs) -> u64 {
    le_word(&hashed_bytes(&a))
}

/// Independent layout table of the attribute word (src/face.rs): bits 0..2 underline style (0 none, 1 straight,
/// 2 double, 3 curly, 4 dotted, 5 dashed), then bold 8, italic 16, blink 32, reverse 64, strike 128.
pub fn show_face(f: &Face) -> String {
    let a = f.attrs;
    let w = face_attr_bits(a);
    let stored = format!(
        "{}/{}{}{}{}{}",
        w & 7,
        bit(w & 8 != 0),
        bit(w & 16 != 0),
        bit(w & 32 != 0),
        bit(w & 64 != 0),
        bit(w & 128 != 0)
    );
    // the same through the crate's accessors: a disagreement (or a bit outside the layout) is made visible
    let by_accessors = format!(
        "{}/{}{}{}{}{}",
        under_num(a.underline()),
        bit(a.contains(FaceAttrs::BOLD)),
        bit(a.contains(FaceAttrs::ITALIC)),
        bit(a.contains(FaceAttrs::BLINK)),
        bit(a.contains(FaceAttrs::REVERSE)),
        bit(a.contains(FaceAttrs::STRIKE))
    );
    let note = if stored != by_accessors {
        format!("!accessors={by_accessors}")
    } else if w >> 8 != 0 || w & 7 > 5 {
        format!("!word={w}")
    } else {
        String::new()
    };
    format!("face:{}/{}/{}{}", rgba_tok(f.fg), rgba_tok(f.bg), stored, note)
}

/// DEC private mode number of a mode, by the NAME of the variant (not by its discriminant: a wrong
/// discriminant must show)
pub fn dec_mode_number(m: DecMode) -> usize {
    match m {
        DecMode::VisibleCursor => 25,
        DecMode::AutoWrap => 7,
        DecMode::SixelScrolling => 80,
        DecMode::MouseReport => 1000,
        DecMode::MouseMotions => 1003,
        DecMode::MouseSGR => 1006,
        DecMode::AltScreen => 1049,
        DecMode::SynchronizedOutput => 2026,
        DecMode::BracketedPaste => 2004,
    }
}
/// DECRPM status value of a status, by the NAME of the variant
pub fn dec_status_number(s: DecModeStatus) -> usize {
    match s {
        DecModeStatus::NotRecognized => 0,
        DecModeStatus::Enabled => 1,
        DecModeStatus::Disabled => 2,
        DecModeStatus::PermanentlyEnabled => 3,
        DecModeStatus::PermanentlyDisabled => 4,
    }
}

/// Latin-1 string (every char below U+0100) as hex of its code points; other chars as `u<code>.`
fn latin1_hex(s: &str) -> String {
    if s.is_empty() {
        return "-".into();
    }
    let mut out = String::new();
    for c in s.chars() {
        let v = c as u32;
        if v < 256 {
            out.push_str(&format!("{v:02x}"));
        } else {
            out.push_str(&format!("u{v}."));
        }
    }
    out
}

pub fn show_event(e: &TerminalEvent) -> String {
    match e {
        TerminalEvent::Key(k) => {
            let (v, p) = key_name_variant(k.name);
            format!("key:{v}.{p}.{}{}", mod_bits(k.mode), mod_check(k.mode))
        }
        TerminalEvent::Mouse(m) => {
            let (v, p) = key_name_variant(m.name);
            format!("mouse:{v}.{p}.{}{}@{},{}", mod_bits(m.mode), mod_check(m.mode), m.pos.row, m.pos.col)
        }
        TerminalEvent::CursorPosition(p) => format!("cpr:{},{}", p.row, p.col),
        TerminalEvent::Size(s) => {
            format!("size:{},{},{},{}", s.cells.height, s.cells.width, s.pixels.height, s.pixels.width)
        }
        TerminalEvent::Resize(s) => {
            format!("resize:{},{},{},{}", s.cells.height, s.cells.width, s.pixels.height, s.pixels.width)
        }
        TerminalEvent::DecMode { mode, status } => {
            format!("decmode:{},{}", dec_mode_number(*mode), dec_status_number(*status))
        }
        TerminalEvent::KittyImage { id, placement, error } => format!(
            "kitty:{id},{},{}",
            placement.map(|p| p.to_string()).unwrap_or("-".into()),
            match error {
                None => "ok".to_string(),
                Some(msg) => format!("e{}", hexs(msg.as_bytes())),
            }
        ),
        TerminalEvent::KeyboardLevel(n) => format!("kbd:{n}"),
        TerminalEvent::Wake => "wake".into(),
        TerminalEvent::Termcap(map) => {
            // BTreeMap<String, _>: iteration in key order (code point order = order of the Latin-1 bytes)
            let items: Vec<String> = map
                .iter()
                .map(|(k, v)| {
                    format!("{}={}", latin1_hex(k), match v {
                        None => "!".to_string(),
                        Some(v) => latin1_hex(v),
                    })
                })
                .collect();
            if items.is_empty() { "termcap:-".into() } else { format!("termcap:{}", items.join(";")) }
        }
        TerminalEvent::DeviceAttrs(set) => {
            let items: Vec<String> = set.iter().map(|v| v.to_string()).collect();
            if items.is_empty() { "da:-".into() } else { format!("da:{}", items.join(",")) }
        }
        TerminalEvent::Raw(bytes) => format!("raw:{}", hexs(bytes)),
        TerminalEvent::Color { name, color } => format!(
            "color:{}={}",
            match name {
                TerminalColor::Foreground => "fg".to_string(),
                TerminalColor::Background => "bg".to_string(),
                TerminalColor::Palette(i) => format!("p{i}"),
            },
            rgba_tok(Some(*color))
        ),
        TerminalEvent::FaceGet(face) => show_face(face),
        TerminalEvent::Command(cmd) => show_command(cmd),
        TerminalEvent::Paste(text) => format!("paste:{}", hexs(text.as_bytes())),
        other => format!("other-event:{other:?}").replace(' ', "_"),
    }
}

pub fn show_command(c: &TerminalCommand) -> String {
    match c {
        TerminalCommand::FaceModify(m) => show_fmod(m),
        TerminalCommand::Char(c) => format!("char:{}", *c as u32),
        TerminalCommand::Raw(bytes) => format!("raw:{}", hexs(bytes)),
        other => format!("other-command:{other:?}").replace(' ', "_"),
    }
}

/// outcome of a payload decoder: `some <event>` | `none` | `panic`
pub fn show_result(r: Result<Option<String>, ()>) -> String {
    match r {
        Err(()) => "panic".into(),
        Ok(None) => "none".into(),
        Ok(Some(e)) => format!("some {e}"),
    }
}

/// The colour field of an OSC reply as the decoder sees it (`None` when the decoder does not get as far as
/// `parse_color`): body between `ESC ]` and the terminator, split at `;`, id 4 → third field, 10 / 11 → second.
pub fn osc_color_field(data: &[u8]) -> Option<&[u8]> {
    if data.len() < 3 {
        return None;
    }
    let body = if data[data.len() - 1] == 7 { &data[2..data.len() - 1] } else { &data[2..data.len().checked_sub(2)?] };
    let mut args = body.split(|c| *c == b';');
    let id = args.next()?;
    if id.iter().any(|b| !b.is_ascii_digit()) {
        return None;
    }
    // the value of the id as the saturating decoder computes it; ids of interest are tiny
    let stripped: Vec<u8> = id.iter().copied().skip_while(|b| *b == b'0').collect();
    let id: u64 = if stripped.is_empty() { 0 } else if stripped.len() > 3 { 1000 } else { std::str::from_utf8(&stripped).ok()?.parse().ok()? };
    match id {
        10 | 11 => args.next(),
        4 => {
            let index = args.next()?;
            if index.iter().any(|b| !b.is_ascii_digit()) {
                return None;
            }
            args.next()
        }
        _ => None,
    }
}

/// `true` when the colour text is handed to the part of `rasterize`'s colour parser that the model does not
/// cover (named colours, `/alpha` suffix): the model answers `ext` for these.
/// Same predicate as `SurfModel.Payload.colorExternal`.
pub fn color_external(text: &[u8]) -> bool {
    if std::str::from_utf8(text).is_err() {
        return false;
    }
    let (body, slash) = match text.iter().rposition(|b| *b == b'/') {
        None => (text, false),
        Some(i) => (&text[..i], true),
    };
    let hash_form = !body.is_empty() && body[0] == b'#' && (body.len() == 7 || body.len() == 9);
    let name_form = !body.is_empty()
        && body[0].is_ascii_lowercase()
        && body.iter().all(|b| b.is_ascii_lowercase() || b.is_ascii_digit() || *b == b'-');
    (slash && hash_form) || name_form
}

/// does the model answer `ext` for this token of the OSC family?
pub fn osc_external(data: &[u8]) -> bool {
    osc_color_field(data).map(color_external).unwrap_or(false)
}
