// placeholder, replaced by the protocol printer and stream generator
#![allow(dead_code, unused_imports)]
use verif_harness::{Cfg, r#gen::Rng, out::Out};
pub fn run(_cfg: &Cfg, _out: &mut Out, _rng: &mut Rng) {}
