// C04: what a terminal sends, written from the protocol documents (twin of `SurfModel/Protocol.lean`),
// the generator of message streams, the stream oracle against the real `TTYEventDecoder`, the key table
// tie and the correspondence lines of the payload models.
//
// `Msg` mirrors Lean `Msg` constructor by constructor; `print` gives the same bytes and `meaning` the same
// canonical event text (format: top of `events.rs`) as the Lean side (`proto msg <wire>` cross-checks the two
// transcriptions on every generated message).  Nothing in `print` / `meaning` calls the decoder.
#![allow(dead_code)]
use super::dumps;
use super::events::{self, show_event, show_result};
use serde_json::{Value, json};
use std::collections::{BTreeMap, BTreeSet, HashSet};
use std::io::Cursor;
use std::sync::OnceLock;
use surf_n_term::{
    decoder::{
        Decoder, TTYEventDecoder,
        verif_c04::{self, VerifDfaState, VerifTag},
    },
    terminal::{DecMode, DecModeStatus, TerminalEvent},
};
use verif_harness::{
    Cfg, guarded,
    out::{Out, hex},
    r#gen::Rng,
};

/* ================================================================ messages */

#[derive(Clone, Debug, PartialEq, Eq)]
pub enum ColorName {
    Foreground,
    Background,
    Palette(u64),
}

/// one channel of `rgb:…`: number of hex digits (1–4) and the transmitted value
#[derive(Clone, Copy, Debug, PartialEq, Eq)]
pub struct Channel {
    pub digits: u32,
    pub value: u64,
}

impl Channel {
    /// X11 scaling of an n-digit channel to 16 bits (digit replication); a byte colour keeps the top 8 bits
    pub fn byte(&self) -> u64 {
        let v16 = match self.digits {
            1 => self.value * 0x1111,
            2 => self.value * 0x101,
            3 => self.value * 16 + self.value / 256,
            _ => self.value,
        };
        v16 / 256
    }
}

#[derive(Clone, Debug, PartialEq, Eq)]
pub enum ColorSpec {
    /// `#rrggbb`
    Hash(u64, u64, u64),
    /// `rgb:r/g/b`
    Rgb(Channel, Channel, Channel),
}

#[derive(Clone, Copy, Debug, PartialEq, Eq)]
pub enum ColorForm {
    /// `38 ; 2 ; r ; g ; b`
    Semi,
    /// `38 : 2 : r : g : b`
    Colon,
    /// `38 : 2 : : r : g : b`
    ColonSpace,
}

#[derive(Clone, Debug, PartialEq, Eq)]
pub enum SgrItem {
    Reset,
    Bold(bool),
    Italic(bool),
    Blink(bool),
    Strike(bool),
    /// 0 off (`24`), 1 straight (`4`), 2 double (`4:2`), 3 curly, 4 dotted, 5 dashed
    Underline(u64),
    /// role 0 foreground, 1 background, 2 underline colour
    Rgb { role: u64, r: u64, g: u64, b: u64, form: ColorForm },
}

#[derive(Clone, Copy, Debug, PartialEq, Eq)]
pub enum OscEnd {
    St,
    Bel,
}

#[derive(Clone, Debug, PartialEq, Eq)]
pub enum Msg {
    /// a key in one of its spellings: index into `proto_keys()`
    Key(usize),
    /// printable text: one Unicode scalar value in UTF-8
    Text(u32),
    /// SGR mouse report `CSI < code ; x ; y M|m`
    Mouse { code: u64, x: u64, y: u64, press: bool },
    /// CPR `CSI row ; col R` (1-based)
    Cursor { row: u64, col: u64 },
    /// XTWINOPS 18 and 14 replies `CSI 8 ; h ; w t CSI 4 ; h ; w t`
    Size { ch: u64, cw: u64, ph: u64, pw: u64 },
    /// DECRPM `CSI ? mode ; status $ y`
    DecMode { mode_number: u64, status_number: u64 },
    /// DA1 `CSI ? a ; b ; … c`, optionally with a trailing `;`
    DeviceAttrs { attrs: Vec<u64>, trailing: bool },
    /// OSC 10 / 11 / 4 colour reply
    Color { name: ColorName, spec: ColorSpec, fin: OscEnd },
    /// DECRPSS reply to `DECRQSS m`: `DCS 1 $ r params m ST`
    FaceReport(Vec<SgrItem>),
    /// XTGETTCAP success `DCS 1 + r name=value ; … ST` (hex encoded)
    TermcapOk { entries: Vec<(Vec<u8>, Vec<u8>)>, upper: bool },
    /// XTGETTCAP failure `DCS 0 + r name ; … ST`
    TermcapFail { names: Vec<Vec<u8>>, upper: bool },
    /// kitty keyboard `CSI ? flags u`
    KeyboardLevel(u64),
    /// kitty keyboard `CSI code[:alt…] [; 1+mods] u`
    CsiU { code: u64, alts: Vec<u64>, mods: Option<u64> },
    /// kitty graphics response `APC G i=id[,p=placement] ; OK|message ST`
    KittyImage { id: u64, placement: Option<u64>, error: Option<Vec<u8>> },
    /// bracketed paste
    Paste(Vec<u8>),
    /// SGR sequence `CSI params m`
    Sgr(Vec<SgrItem>),
}

pub const FAMILY_NAMES: [&str; 14] = [
    "keys", "cursorPosition", "decMode", "deviceAttrs", "sgr", "kittyImage", "kittyKeyboard", "mouse", "osc",
    "reportSetting", "termcap", "termSize", "utf8", "paste",
];

/// = Lean `Msg.family` then `Family.index` (index of the matcher in `TTY_EVENT_AUTOMATA`)
pub fn family(m: &Msg) -> usize {
    match m {
        Msg::Key(_) => 0,
        Msg::Cursor { .. } => 1,
        Msg::DecMode { .. } => 2,
        Msg::DeviceAttrs { .. } => 3,
        Msg::Sgr(_) => 4,
        Msg::KittyImage { .. } => 5,
        Msg::KeyboardLevel(_) | Msg::CsiU { .. } => 6,
        Msg::Mouse { .. } => 7,
        Msg::Color { .. } => 8,
        Msg::FaceReport(_) => 9,
        Msg::TermcapOk { .. } | Msg::TermcapFail { .. } => 10,
        Msg::Size { .. } => 11,
        Msg::Text(_) => 12,
        Msg::Paste(_) => 13,
    }
}

/* ================================================================ the naming table */

const MOD_SHIFT: u64 = 1;
const MOD_ALT: u64 = 2;
const MOD_CTRL: u64 = 4;
const MOD_PRESS: u64 = 256;

// variants of `KeyName` as numbered by `events::key_name_variant`
const K_BACKSPACE: u64 = 0;
const K_CHAR: u64 = 1;
const K_DELETE: u64 = 2;
const K_INSERT: u64 = 3;
const K_DOWN: u64 = 4;
const K_END: u64 = 5;
const K_ENTER: u64 = 6;
const K_ESC: u64 = 7;
const K_F: u64 = 8;
const K_HOME: u64 = 9;
const K_LEFT: u64 = 10;
const K_MOUSE_LEFT: u64 = 11;
const K_MOUSE_MIDDLE: u64 = 12;
const K_MOUSE_MOVE: u64 = 13;
const K_MOUSE_RIGHT: u64 = 14;
const K_WHEEL_DOWN: u64 = 15;
const K_WHEEL_UP: u64 = 16;
const K_PAGE_DOWN: u64 = 17;
const K_PAGE_UP: u64 = 18;
const K_RIGHT: u64 = 19;
const K_TAB: u64 = 20;
const K_UP: u64 = 21;

type KeyRow = (Vec<u8>, (u64, u64, u64));

fn num(v: u64) -> Vec<u8> {
    v.to_string().into_bytes()
}

fn cat(parts: &[&[u8]]) -> Vec<u8> {
    let mut v = Vec::new();
    for p in parts {
        v.extend_from_slice(p);
    }
    v
}

const CSI: &[u8] = b"\x1b[";
const ST: &[u8] = b"\x1b\\";

fn build_proto_keys() -> Vec<KeyRow> {
    let mut t: Vec<KeyRow> = vec![
        (vec![27], (K_ESC, 0, 0)),
        (vec![127], (K_BACKSPACE, 0, 0)),
        (vec![0], (K_CHAR, 32, MOD_CTRL)),
    ];
    // lower case letters: alt+letter `ESC c`, ctrl+letter as the C0 control `c - 96`
    for c in b'a'..=b'z' {
        t.push((vec![27, c], (K_CHAR, c as u64, MOD_ALT)));
        t.push((vec![c - 96], (K_CHAR, c as u64, MOD_CTRL)));
    }
    // upper case letters: alt+shift+letter
    for c in b'A'..=b'Z' {
        t.push((vec![27, c], (K_CHAR, c as u64 + 32, MOD_ALT + MOD_SHIFT)));
    }
    // ASCII punctuation, then digits: alt+character
    let punct = (33u8..48).chain(58..65).chain(91..97).chain(123..127);
    for c in punct {
        t.push((vec![27, c], (K_CHAR, c as u64, MOD_ALT)));
    }
    for c in b'0'..=b'9' {
        t.push((vec![27, c], (K_CHAR, c as u64, MOD_ALT)));
    }
    // `CSI number ~` (VT220 / xterm / rxvt numbering), `CSI number ; 1+mask ~`
    let tilde: [((u64, u64), u64); 20] = [
        ((K_HOME, 0), 1),
        ((K_INSERT, 0), 2),
        ((K_DELETE, 0), 3),
        ((K_END, 0), 4),
        ((K_PAGE_UP, 0), 5),
        ((K_PAGE_DOWN, 0), 6),
        ((K_INSERT, 0), 7),
        ((K_END, 0), 8),
        ((K_F, 1), 11),
        ((K_F, 2), 12),
        ((K_F, 3), 13),
        ((K_F, 4), 14),
        ((K_F, 5), 15),
        ((K_F, 6), 17),
        ((K_F, 7), 18),
        ((K_F, 8), 19),
        ((K_F, 9), 20),
        ((K_F, 10), 21),
        ((K_F, 11), 23),
        ((K_F, 12), 24),
    ];
    for ((v, p), n) in tilde {
        t.push((cat(&[CSI, &num(n), b"~"]), (v, p, 0)));
        for m in 1..=7u64 {
            t.push((cat(&[CSI, &num(n), b";", &num(m + 1), b"~"]), (v, p, m)));
        }
    }
    // `CSI X` / `SS3 X`, `CSI 1 ; 1+mask X`
    let letter: [((u64, u64), u8, u8); 14] = [
        ((K_UP, 0), b'[', b'A'),
        ((K_DOWN, 0), b'[', b'B'),
        ((K_RIGHT, 0), b'[', b'C'),
        ((K_LEFT, 0), b'[', b'D'),
        ((K_END, 0), b'[', b'F'),
        ((K_HOME, 0), b'[', b'H'),
        ((K_F, 1), b'O', b'P'),
        ((K_F, 1), b'[', b'P'),
        ((K_F, 2), b'O', b'Q'),
        ((K_F, 2), b'[', b'Q'),
        ((K_F, 3), b'O', b'R'),
        ((K_F, 3), b'[', b'R'),
        ((K_F, 4), b'O', b'S'),
        ((K_F, 4), b'[', b'S'),
    ];
    for ((v, p), intro, fin) in letter {
        t.push((vec![27, intro, fin], (v, p, 0)));
        for m in 1..=7u64 {
            t.push((cat(&[CSI, b"1;", &num(m + 1), &[fin]]), (v, p, m)));
        }
    }
    t
}

/// every spelling of every key of the naming table, in the order of Lean `protoKeys`
pub fn proto_keys() -> Vec<KeyRow> {
    keys().clone()
}

fn keys() -> &'static Vec<KeyRow> {
    static KEYS: OnceLock<Vec<KeyRow>> = OnceLock::new();
    KEYS.get_or_init(build_proto_keys)
}

/// name of an SGR mouse button code: bits 0–1 button, bit 6 wheel (bits 2–4 modifiers, bit 5 motion)
pub fn button_name(code: u64) -> u64 {
    match (code / 64 % 2, code % 4) {
        (0, 0) => K_MOUSE_LEFT,
        (0, 1) => K_MOUSE_MIDDLE,
        (0, 2) => K_MOUSE_RIGHT,
        (0, _) => K_MOUSE_MOVE,
        (_, 0) => K_WHEEL_DOWN,
        (_, 1) => K_WHEEL_UP,
        (_, _) => K_MOUSE_MOVE,
    }
}

/// name of a kitty `CSI u` key code: C0 names, F13–F35, otherwise the character itself
pub fn csi_u_name(code: u64) -> (u64, u64) {
    match code {
        27 => (K_ESC, 0),
        13 => (K_ENTER, 0),
        9 => (K_TAB, 0),
        127 => (K_BACKSPACE, 0),
        57376..=57398 => (K_F, code - 57376 + 13),
        _ => (K_CHAR, code),
    }
}

/* ================================================================ print */

fn utf8(cp: u32) -> Vec<u8> {
    let cp = cp as u64;
    let v: Vec<u64> = if cp < 0x80 {
        vec![cp]
    } else if cp < 0x800 {
        vec![0xC0 + cp / 64, 0x80 + cp % 64]
    } else if cp < 0x10000 {
        vec![0xE0 + cp / 4096, 0x80 + cp / 64 % 64, 0x80 + cp % 64]
    } else {
        vec![0xF0 + cp / 262144, 0x80 + cp / 4096 % 64, 0x80 + cp / 64 % 64, 0x80 + cp % 64]
    };
    v.into_iter().map(|b| b as u8).collect()
}

/// lower case hexadecimal with exactly `n` digits
fn hex_fixed(n: u32, v: u64) -> Vec<u8> {
    let mut out = vec![];
    for i in (0..n).rev() {
        let d = (v >> (4 * i)) & 15;
        out.push(b"0123456789abcdef"[d as usize]);
    }
    out
}

fn hex_string(upper: bool, s: &[u8]) -> Vec<u8> {
    let digits: &[u8; 16] = if upper { b"0123456789ABCDEF" } else { b"0123456789abcdef" };
    let mut out = vec![];
    for b in s {
        out.push(digits[(b / 16) as usize]);
        out.push(digits[(b % 16) as usize]);
    }
    out
}

fn join_with(sep: u8, parts: &[Vec<u8>]) -> Vec<u8> {
    let mut out = vec![];
    for (i, p) in parts.iter().enumerate() {
        if i > 0 {
            out.push(sep);
        }
        out.extend_from_slice(p);
    }
    out
}

fn color_spec_print(spec: &ColorSpec) -> Vec<u8> {
    match spec {
        ColorSpec::Hash(r, g, b) => cat(&[b"#", &hex_fixed(2, *r), &hex_fixed(2, *g), &hex_fixed(2, *b)]),
        ColorSpec::Rgb(r, g, b) => cat(&[
            b"rgb:",
            &hex_fixed(r.digits, r.value),
            b"/",
            &hex_fixed(g.digits, g.value),
            b"/",
            &hex_fixed(b.digits, b.value),
        ]),
    }
}

fn role_code(role: u64) -> u64 {
    match role {
        0 => 38,
        1 => 48,
        _ => 58,
    }
}

fn sgr_item_print(it: &SgrItem) -> Vec<u8> {
    match it {
        SgrItem::Reset => b"0".to_vec(),
        SgrItem::Bold(true) => b"1".to_vec(),
        SgrItem::Bold(false) => b"22".to_vec(),
        SgrItem::Italic(true) => b"3".to_vec(),
        SgrItem::Italic(false) => b"23".to_vec(),
        SgrItem::Blink(true) => b"5".to_vec(),
        SgrItem::Blink(false) => b"25".to_vec(),
        SgrItem::Strike(true) => b"9".to_vec(),
        SgrItem::Strike(false) => b"29".to_vec(),
        SgrItem::Underline(0) => b"24".to_vec(),
        SgrItem::Underline(1) => b"4".to_vec(),
        SgrItem::Underline(s) => cat(&[b"4:", &num(*s)]),
        SgrItem::Rgb { role, r, g, b, form } => {
            let (sep, intro): (&[u8], &[u8]) = match form {
                ColorForm::Semi => (b";", b";2;"),
                ColorForm::Colon => (b":", b":2:"),
                ColorForm::ColonSpace => (b":", b":2::"),
            };
            cat(&[&num(role_code(*role)), intro, &num(*r), sep, &num(*g), sep, &num(*b)])
        }
    }
}

fn sgr_params(items: &[SgrItem]) -> Vec<u8> {
    join_with(b';', &items.iter().map(sgr_item_print).collect::<Vec<_>>())
}

fn osc_number(name: &ColorName) -> Vec<u8> {
    match name {
        ColorName::Foreground => b"10".to_vec(),
        ColorName::Background => b"11".to_vec(),
        ColorName::Palette(i) => cat(&[b"4;", &num(*i)]),
    }
}

/// the bytes of a message, according to the protocol documents
pub fn print(m: &Msg) -> Vec<u8> {
    match m {
        Msg::Key(i) => keys().get(*i).map(|r| r.0.clone()).unwrap_or_default(),
        Msg::Text(c) => utf8(*c),
        Msg::Mouse { code, x, y, press } => {
            cat(&[CSI, b"<", &num(*code), b";", &num(*x), b";", &num(*y), if *press { b"M" } else { b"m" }])
        }
        Msg::Cursor { row, col } => cat(&[CSI, &num(*row), b";", &num(*col), b"R"]),
        Msg::Size { ch, cw, ph, pw } => cat(&[
            CSI, b"8;", &num(*ch), b";", &num(*cw), b"t", CSI, b"4;", &num(*ph), b";", &num(*pw), b"t",
        ]),
        Msg::DecMode { mode_number, status_number } => {
            cat(&[CSI, b"?", &num(*mode_number), b";", &num(*status_number), b"$y"])
        }
        Msg::DeviceAttrs { attrs, trailing } => cat(&[
            CSI,
            b"?",
            &join_with(b';', &attrs.iter().map(|a| num(*a)).collect::<Vec<_>>()),
            if *trailing { b";" } else { b"" },
            b"c",
        ]),
        Msg::Color { name, spec, fin } => cat(&[
            b"\x1b]",
            &osc_number(name),
            b";",
            &color_spec_print(spec),
            match fin {
                OscEnd::St => ST,
                OscEnd::Bel => b"\x07",
            },
        ]),
        Msg::FaceReport(items) => cat(&[b"\x1bP1$r", &sgr_params(items), b"m", ST]),
        Msg::TermcapOk { entries, upper } => cat(&[
            b"\x1bP1+r",
            &join_with(
                b';',
                &entries
                    .iter()
                    .map(|(k, v)| cat(&[&hex_string(*upper, k), b"=", &hex_string(*upper, v)]))
                    .collect::<Vec<_>>(),
            ),
            ST,
        ]),
        Msg::TermcapFail { names, upper } => cat(&[
            b"\x1bP0+r",
            &join_with(b';', &names.iter().map(|n| hex_string(*upper, n)).collect::<Vec<_>>()),
            ST,
        ]),
        Msg::KeyboardLevel(flags) => cat(&[CSI, b"?", &num(*flags), b"u"]),
        Msg::CsiU { code, alts, mods } => {
            let mut codes = vec![num(*code)];
            codes.extend(alts.iter().map(|a| num(*a)));
            let mods = match mods {
                Some(m) => cat(&[b";", &num(m + 1)]),
                None => vec![],
            };
            cat(&[CSI, &join_with(b':', &codes), &mods, b"u"])
        }
        Msg::KittyImage { id, placement, error } => cat(&[
            b"\x1b_Gi=",
            &num(*id),
            &match placement {
                Some(p) => cat(&[b",p=", &num(*p)]),
                None => vec![],
            },
            b";",
            match error {
                Some(msg) => msg,
                None => b"OK",
            },
            ST,
        ]),
        Msg::Paste(text) => cat(&[CSI, b"200~", text, CSI, b"201~"]),
        Msg::Sgr(items) => cat(&[CSI, &sgr_params(items), b"m"]),
    }
}

/* ================================================================ meaning */

#[derive(Clone, Debug, Default, PartialEq, Eq)]
struct FMod {
    reset: bool,
    fg: Option<(u64, u64, u64)>,
    bg: Option<(u64, u64, u64)>,
    underline: Option<u64>,
    underline_color: Option<(u64, u64, u64)>,
    bold: Option<bool>,
    italic: Option<bool>,
    blink: Option<bool>,
    strike: Option<bool>,
}

/// the record of requested changes after the items, left to right (`0` forgets everything before it)
fn sgr_meaning(items: &[SgrItem]) -> FMod {
    let mut m = FMod::default();
    for it in items {
        match it {
            SgrItem::Reset => m = FMod { reset: true, ..FMod::default() },
            SgrItem::Bold(on) => m.bold = Some(*on),
            SgrItem::Italic(on) => m.italic = Some(*on),
            SgrItem::Blink(on) => m.blink = Some(*on),
            SgrItem::Strike(on) => m.strike = Some(*on),
            SgrItem::Underline(s) => m.underline = Some(*s),
            SgrItem::Rgb { role: 0, r, g, b, .. } => m.fg = Some((*r, *g, *b)),
            SgrItem::Rgb { role: 1, r, g, b, .. } => m.bg = Some((*r, *g, *b)),
            SgrItem::Rgb { r, g, b, .. } => m.underline_color = Some((*r, *g, *b)),
        }
    }
    m
}

fn rgb_tok(c: Option<(u64, u64, u64)>) -> String {
    match c {
        None => "-".into(),
        Some((r, g, b)) => format!("{r},{g},{b},255"),
    }
}
fn tri(v: Option<bool>) -> &'static str {
    match v {
        None => "-",
        Some(true) => "1",
        Some(false) => "0",
    }
}
fn bit(v: bool) -> &'static str {
    if v { "1" } else { "0" }
}

fn sgr_text(m: &FMod) -> String {
    format!(
        "sgr:{}/{}/{}/{}/{}/{}{}{}{}",
        bit(m.reset),
        rgb_tok(m.fg),
        rgb_tok(m.bg),
        m.underline.map(|u| u.to_string()).unwrap_or("-".into()),
        rgb_tok(m.underline_color),
        tri(m.bold),
        tri(m.italic),
        tri(m.blink),
        tri(m.strike)
    )
}

/// SGR semantics of a record of changes on the default rendition
fn face_text(m: &FMod) -> String {
    format!(
        "face:{}/{}/{}/{}{}{}{}{}",
        rgb_tok(m.fg),
        rgb_tok(m.bg),
        m.underline.unwrap_or(0),
        bit(m.bold.unwrap_or(false)),
        bit(m.italic.unwrap_or(false)),
        bit(m.blink.unwrap_or(false)),
        bit(false),
        bit(m.strike.unwrap_or(false))
    )
}

fn hex_or_dash(b: &[u8]) -> String {
    hex(b)
}

/// sorted map, later entry wins
fn termcap_text(entries: &[(Vec<u8>, Option<Vec<u8>>)]) -> String {
    let mut map: BTreeMap<Vec<u8>, Option<Vec<u8>>> = BTreeMap::new();
    for (k, v) in entries {
        map.insert(k.clone(), v.clone());
    }
    if map.is_empty() {
        return "termcap:-".into();
    }
    let items: Vec<String> = map
        .iter()
        .map(|(k, v)| {
            format!("{}={}", hex_or_dash(k), match v {
                None => "!".to_string(),
                Some(v) => hex_or_dash(v),
            })
        })
        .collect();
    format!("termcap:{}", items.join(";"))
}

/// canonical text of the event a message denotes
pub fn meaning(m: &Msg) -> String {
    match m {
        Msg::Key(i) => {
            let (v, p, md) = keys().get(*i).map(|r| r.1).unwrap_or((K_ESC, 0, 0));
            format!("key:{v}.{p}.{md}")
        }
        Msg::Text(c) => format!("key:{K_CHAR}.{c}.0"),
        Msg::Mouse { code, x, y, press } => format!(
            "mouse:{}.0.{}@{},{}",
            button_name(*code),
            code / 4 % 8 + if *press { MOD_PRESS } else { 0 },
            y.saturating_sub(1),
            x.saturating_sub(1)
        ),
        Msg::Cursor { row, col } => format!("cpr:{},{}", row.saturating_sub(1), col.saturating_sub(1)),
        Msg::Size { ch, cw, ph, pw } => format!("size:{ch},{cw},{ph},{pw}"),
        Msg::DecMode { mode_number, status_number } => format!("decmode:{mode_number},{status_number}"),
        Msg::DeviceAttrs { attrs, .. } => {
            let set: BTreeSet<u64> = attrs.iter().copied().collect();
            if set.is_empty() {
                "da:-".into()
            } else {
                format!("da:{}", set.iter().map(|a| a.to_string()).collect::<Vec<_>>().join(","))
            }
        }
        Msg::Color { name, spec, .. } => {
            let name = match name {
                ColorName::Foreground => "fg".to_string(),
                ColorName::Background => "bg".to_string(),
                ColorName::Palette(i) => format!("p{i}"),
            };
            let (r, g, b) = match spec {
                ColorSpec::Hash(r, g, b) => (*r, *g, *b),
                ColorSpec::Rgb(r, g, b) => (r.byte(), g.byte(), b.byte()),
            };
            format!("color:{name}={r},{g},{b},255")
        }
        Msg::FaceReport(items) => face_text(&sgr_meaning(items)),
        Msg::TermcapOk { entries, .. } => {
            termcap_text(&entries.iter().map(|(k, v)| (k.clone(), Some(v.clone()))).collect::<Vec<_>>())
        }
        Msg::TermcapFail { names, .. } => {
            termcap_text(&names.iter().map(|k| (k.clone(), None)).collect::<Vec<_>>())
        }
        Msg::KeyboardLevel(flags) => format!("kbd:{flags}"),
        Msg::CsiU { code, mods, .. } => {
            let (v, p) = csi_u_name(*code);
            format!("key:{v}.{p}.{}", mods.unwrap_or(0))
        }
        Msg::KittyImage { id, placement, error } => format!(
            "kitty:{id},{},{}",
            placement.map(|p| p.to_string()).unwrap_or("-".into()),
            match error {
                None => "ok".to_string(),
                Some(msg) => format!("e{}", hex(msg)),
            }
        ),
        Msg::Paste(text) => format!("paste:{}", hex(text)),
        Msg::Sgr(items) => sgr_text(&sgr_meaning(items)),
    }
}

/// what the stream oracle expects for one message: its meaning, except for the documented ambiguity
/// `CSI 1 ; n R` (n = 2..8) = F3 with modifiers n-1
pub fn expected_event(m: &Msg) -> String {
    match m {
        Msg::Cursor { row: 1, col } if (2..=8).contains(col) => format!("key:{K_F}.3.{}", col - 1),
        _ => meaning(m),
    }
}

/* ================================================================ wire (request of `proto msg`) */

fn wire_items(items: &[SgrItem]) -> String {
    if items.is_empty() {
        return "-".into();
    }
    let b = |on: &bool| if *on { "1" } else { "0" };
    items
        .iter()
        .map(|it| match it {
            SgrItem::Reset => "reset".to_string(),
            SgrItem::Bold(on) => format!("bold{}", b(on)),
            SgrItem::Italic(on) => format!("italic{}", b(on)),
            SgrItem::Blink(on) => format!("blink{}", b(on)),
            SgrItem::Strike(on) => format!("strike{}", b(on)),
            SgrItem::Underline(s) => format!("ul{s}"),
            SgrItem::Rgb { role, r, g, b, form } => format!(
                "rgb{role}.{r}.{g}.{b}.{}",
                match form {
                    ColorForm::Semi => "s",
                    ColorForm::Colon => "c",
                    ColorForm::ColonSpace => "cs",
                }
            ),
        })
        .collect::<Vec<_>>()
        .join(",")
}

fn wire_list(xs: &[u64]) -> String {
    if xs.is_empty() { "-".into() } else { xs.iter().map(|x| x.to_string()).collect::<Vec<_>>().join(",") }
}

pub fn wire(m: &Msg) -> String {
    let b = |v: bool| if v { 1 } else { 0 };
    match m {
        Msg::Key(i) => format!("key {i}"),
        Msg::Text(c) => format!("text {c}"),
        Msg::Mouse { code, x, y, press } => format!("mouse {code} {x} {y} {}", b(*press)),
        Msg::Cursor { row, col } => format!("cursor {row} {col}"),
        Msg::Size { ch, cw, ph, pw } => format!("size {ch} {cw} {ph} {pw}"),
        Msg::DecMode { mode_number, status_number } => format!("decmode {mode_number} {status_number}"),
        Msg::DeviceAttrs { attrs, trailing } => format!("da {} {}", b(*trailing), wire_list(attrs)),
        Msg::Color { name, spec, fin } => {
            let name = match name {
                ColorName::Foreground => "fg".to_string(),
                ColorName::Background => "bg".to_string(),
                ColorName::Palette(i) => format!("p{i}"),
            };
            let fin = match fin {
                OscEnd::St => "st",
                OscEnd::Bel => "bel",
            };
            match spec {
                ColorSpec::Hash(r, g, b) => format!("color {name} {fin} hash {r} {g} {b}"),
                ColorSpec::Rgb(r, g, b) => format!(
                    "color {name} {fin} rgb {}.{} {}.{} {}.{}",
                    r.digits, r.value, g.digits, g.value, b.digits, b.value
                ),
            }
        }
        Msg::FaceReport(items) => format!("facereport {}", wire_items(items)),
        Msg::Sgr(items) => format!("sgr {}", wire_items(items)),
        Msg::TermcapOk { entries, upper } => format!(
            "tcok {} {}",
            b(*upper),
            if entries.is_empty() {
                "-".to_string()
            } else {
                entries.iter().map(|(k, v)| format!("{}={}", hex(k), hex(v))).collect::<Vec<_>>().join(";")
            }
        ),
        Msg::TermcapFail { names, upper } => format!(
            "tcfail {} {}",
            b(*upper),
            if names.is_empty() { "-".to_string() } else { names.iter().map(|k| hex(k)).collect::<Vec<_>>().join(";") }
        ),
        Msg::KeyboardLevel(flags) => format!("kbd {flags}"),
        Msg::CsiU { code, alts, mods } => {
            format!("csiu {code} {} {}", wire_list(alts), mods.map(|m| m.to_string()).unwrap_or("-".into()))
        }
        Msg::KittyImage { id, placement, error } => format!(
            "kitty {id} {} {}",
            placement.map(|p| p.to_string()).unwrap_or("-".into()),
            match error {
                None => "ok".to_string(),
                Some(msg) => format!("e{}", hex(msg)),
            }
        ),
        Msg::Paste(text) => format!("paste {}", hex(text)),
    }
}

/* ================================================================ generators */

const COORDS: [u64; 14] = [1, 2, 9, 10, 99, 100, 255, 256, 999, 1000, 9999, 10000, 65534, 65535];

fn coord(rng: &mut Rng) -> u64 {
    if rng.chance(1, 2) { *rng.pick(&COORDS) } else { rng.range(1, 65535) as u64 }
}

fn size_val(rng: &mut Rng) -> u64 {
    if rng.chance(1, 10) { 0 } else { coord(rng) }
}

fn byte_val(rng: &mut Rng) -> u64 {
    if rng.chance(1, 2) { *rng.pick(&[0u64, 1, 2, 9, 10, 99, 100, 127, 128, 254, 255]) } else { rng.below(256) }
}

fn gen_channel(rng: &mut Rng, digits: u32) -> Channel {
    let max = (1u64 << (4 * digits)) - 1;
    let top = 8u64 << (4 * (digits - 1));
    let value = match rng.below(8) {
        0 => 0,
        1 => 1.min(max),
        2 => max,
        3 => top,
        4 => top - 1,
        5 => max - 1,
        _ => rng.below(max + 1),
    };
    Channel { digits, value }
}

fn gen_color_name(rng: &mut Rng) -> ColorName {
    match rng.below(3) {
        0 => ColorName::Foreground,
        1 => ColorName::Background,
        _ => ColorName::Palette(if rng.chance(1, 3) { *rng.pick(&[0u64, 1, 9, 10, 15, 16, 99, 100, 231, 232, 255]) } else { rng.below(256) }),
    }
}

fn gen_color(rng: &mut Rng) -> Msg {
    let name = gen_color_name(rng);
    let spec = if rng.chance(1, 5) {
        ColorSpec::Hash(byte_val(rng), byte_val(rng), byte_val(rng))
    } else {
        let d = 1 + rng.below(4) as u32;
        let same = rng.chance(1, 2);
        let ch = |rng: &mut Rng| {
            let digits = if same { d } else { 1 + rng.below(4) as u32 };
            gen_channel(rng, digits)
        };
        ColorSpec::Rgb(ch(rng), ch(rng), ch(rng))
    };
    let fin = if rng.chance(1, 2) { OscEnd::St } else { OscEnd::Bel };
    Msg::Color { name, spec, fin }
}

fn gen_sgr_item(rng: &mut Rng) -> SgrItem {
    match rng.below(7) {
        0 => SgrItem::Reset,
        1 => SgrItem::Bold(rng.chance(1, 2)),
        2 => SgrItem::Italic(rng.chance(1, 2)),
        3 => SgrItem::Blink(rng.chance(1, 2)),
        4 => SgrItem::Strike(rng.chance(1, 2)),
        5 => SgrItem::Underline(rng.below(6)),
        _ => SgrItem::Rgb {
            role: rng.below(3),
            r: byte_val(rng),
            g: byte_val(rng),
            b: byte_val(rng),
            form: *rng.pick(&[ColorForm::Semi, ColorForm::Colon, ColorForm::ColonSpace]),
        },
    }
}

fn gen_sgr_items(rng: &mut Rng, min: u64, max: u64) -> Vec<SgrItem> {
    let n = min + rng.below(max - min + 1);
    (0..n).map(|_| gen_sgr_item(rng)).collect()
}

fn is_scalar(c: u64) -> bool {
    c < 0xD800 || (0xE000..0x110000).contains(&c)
}

/// printable scalar: >= 0x20, != 0x7f, not a surrogate
fn gen_text_char(rng: &mut Rng) -> u32 {
    match rng.below(10) {
        0..=4 => 0x20 + rng.below(0x5f) as u32,
        5 | 6 => *rng.pick(&[
            0x20u32, 0x7e, 0x80, 0x9f, 0xa0, 0x7ff, 0x800, 0xffff, 0x10000, 0x10ffff, 0xd7ff, 0xe000, 0xfffd, 0x1f600,
            0x5b, 0x4f, 0x5d, 0x50, 0x5f, 0x30, 0x3b, 0x7e,
        ]),
        _ => loop {
            let c = rng.below(0x110000);
            if is_scalar(c) && c >= 0x20 && c != 0x7f {
                break c as u32;
            }
        },
    }
}

/// valid UTF-8 without ESC, at most `max` bytes: ASCII, newlines, tabs, BEL, NUL, multi-byte characters
fn gen_utf8_text(rng: &mut Rng, max: usize) -> Vec<u8> {
    let target = rng.below(max as u64 + 1) as usize;
    let mut out = vec![];
    loop {
        let c: u32 = match rng.below(12) {
            0..=5 => 0x20 + rng.below(0x5f) as u32,
            6 => *rng.pick(&[b'\n', b'\t', b'\r', 7, 0, 8, 0x7f, 0x1a, 0x1c]) as u32,
            7 => *rng.pick(&[b';', b'=', b',', b'[', b'~', b'\\', b'O', b'K', b':']) as u32,
            8 | 9 => *rng.pick(&[0x80u32, 0xe9, 0x7ff, 0x800, 0x20ac, 0xffff, 0xfffd, 0x10000, 0x1f600, 0x10ffff, 0xd7ff, 0xe000]),
            _ => loop {
                let c = rng.below(0x110000);
                if is_scalar(c) && c != 0x1b {
                    break c as u32;
                }
            },
        };
        let enc = utf8(c);
        if out.len() + enc.len() > target {
            break;
        }
        out.extend(enc);
    }
    out
}

fn gen_paste(rng: &mut Rng) -> Msg {
    let mut text = gen_utf8_text(rng, 40);
    if rng.chance(1, 5) {
        // the terminator without its ESC, and friends
        let choices: [&[u8]; 6] = [b"[201~", b"[200~", b"201~", b"[201", b"[A", b"\\"];
        let ins: &[u8] = *rng.pick(&choices);
        let mut at = rng.below(text.len() as u64 + 1) as usize;
        while at < text.len() && (text[at] & 0xC0) == 0x80 {
            at += 1;
        }
        let tail = text.split_off(at);
        text.extend_from_slice(ins);
        text.extend(tail);
    }
    Msg::Paste(text)
}

fn gen_kitty(rng: &mut Rng) -> Msg {
    let id = if rng.chance(2, 3) { *rng.pick(&[1u64, 2, 255, 65535, 4294967295]) } else { rng.below(1 << 32) };
    let placement = if rng.chance(1, 2) {
        None
    } else {
        Some(if rng.chance(1, 2) { *rng.pick(&[0u64, 1, 2, 255, 65535, 4294967295]) } else { rng.below(1 << 32) })
    };
    let error = match rng.below(6) {
        0 | 1 => None,
        2 => Some(
            rng.pick(&[
                &b"ENOENT:no such image"[..],
                b"EINVAL:bad; value",
                b"ENOENT:Put command refers to non-existent image with id: 1 and number: 0",
                b"EBADF:\xe2\x82\xac",
                b"OK ",
                b"ok",
                b"O",
                b"OKOK",
                b";OK",
            ])
            .to_vec(),
        ),
        3 => Some(if rng.chance(1, 3) { vec![] } else { gen_utf8_text(rng, 4) }),
        _ => Some(gen_utf8_text(rng, 24)),
    };
    let error = match error {
        Some(e) if e == b"OK" => Some(b"OK!".to_vec()),
        e => e,
    };
    Msg::KittyImage { id, placement, error }
}

const TC_NAMES: [&[u8]; 10] = [b"Co", b"TN", b"colors", b"RGB", b"Ms", b"Se", b"Ss", b"kD", b"name", b"Tc"];

fn gen_tc_name(rng: &mut Rng) -> Vec<u8> {
    if rng.chance(1, 2) {
        rng.pick(&TC_NAMES).to_vec()
    } else {
        let n = 1 + rng.below(6);
        (0..n).map(|_| if rng.chance(1, 4) { *rng.pick(&[0u8, 0x1b, 0x7f, 0x80, 0xff, b';', b'=']) } else { rng.below(256) as u8 }).collect()
    }
}

fn gen_tc_value(rng: &mut Rng) -> Vec<u8> {
    if rng.chance(1, 3) {
        rng.pick(&[&b"256"[..], b"xterm-kitty", b"8", b"\x1b[%p1%dm", b"\x1b]52;c;%p2%s\x07"]).to_vec()
    } else {
        let n = 1 + rng.below(10);
        (0..n).map(|_| rng.below(256) as u8).collect()
    }
}

fn gen_termcap(rng: &mut Rng) -> Msg {
    let upper = rng.chance(1, 3);
    let mut names: Vec<Vec<u8>> = vec![];
    let pick_name = |rng: &mut Rng, names: &mut Vec<Vec<u8>>| {
        let n = if !names.is_empty() && rng.chance(1, 4) { rng.pick(names).clone() } else { gen_tc_name(rng) };
        names.push(n.clone());
        n
    };
    if rng.chance(1, 2) {
        let n = rng.below(5);
        let entries = (0..n).map(|_| (pick_name(rng, &mut names), gen_tc_value(rng))).collect();
        Msg::TermcapOk { entries, upper }
    } else {
        let n = 1 + rng.below(4);
        let list = (0..n).map(|_| pick_name(rng, &mut names)).collect();
        Msg::TermcapFail { names: list, upper }
    }
}

fn gen_csi_u(rng: &mut Rng) -> Msg {
    let scalar = |rng: &mut Rng| loop {
        let c = rng.below(0x110000);
        if is_scalar(c) && !((57344..=63743).contains(&c) && !(57376..=57398).contains(&c)) {
            break c;
        }
    };
    let code = match rng.below(8) {
        0 => *rng.pick(&[27u64, 13, 9, 127]),
        1 => 57376 + rng.below(23),
        2 | 3 => b'a' as u64 + rng.below(26),
        4 => *rng.pick(&[0u64, 1, 32, 48, 65, 126, 128, 255, 256, 0xd7ff, 57344 + 32, 63744, 0xfffd, 0x10000, 0x10ffff]),
        _ => scalar(rng),
    };
    let alts = (0..rng.below(3)).map(|_| if rng.chance(1, 2) { b'A' as u64 + rng.below(26) } else { scalar(rng) }).collect();
    let mods = match rng.below(4) {
        0 => None,
        1 => Some(0),
        _ => Some(if rng.chance(1, 3) { *rng.pick(&[1u64, 2, 3, 4, 5, 7, 8, 16, 32, 64, 128, 255]) } else { rng.below(256) }),
    };
    Msg::CsiU { code, alts, mods }
}

fn gen_family(rng: &mut Rng, fam: usize) -> Msg {
    match fam {
        0 => Msg::Key(rng.below(keys().len() as u64) as usize),
        1 => {
            if rng.chance(1, 8) {
                // around the documented F3 overlap
                Msg::Cursor { row: 1, col: 1 + rng.below(9) }
            } else {
                Msg::Cursor { row: coord(rng), col: coord(rng) }
            }
        }
        2 => Msg::DecMode {
            mode_number: *rng.pick(&[25u64, 7, 80, 1000, 1003, 1006, 1049, 2026, 2004]),
            status_number: rng.below(5),
        },
        3 => {
            let n = 1 + rng.below(8);
            let attrs = (0..n)
                .map(|_| if rng.chance(1, 2) { *rng.pick(&[1u64, 4, 22, 62, 64, 999]) } else { 1 + rng.below(999) })
                .collect();
            Msg::DeviceAttrs { attrs, trailing: rng.chance(1, 4) }
        }
        4 => Msg::Sgr(gen_sgr_items(rng, 1, 6)),
        5 => gen_kitty(rng),
        6 => {
            if rng.chance(1, 2) {
                let flags = match rng.below(6) {
                    0 => *rng.pick(&[0u64, 1, 5, 15, 31, 255, 65535, 4294967295, 4294967296, u64::MAX]),
                    _ => rng.below(32),
                };
                Msg::KeyboardLevel(flags)
            } else {
                gen_csi_u(rng)
            }
        }
        7 => {
            let code = if rng.chance(7, 8) { rng.below(128) } else { 128 + rng.below(128) };
            Msg::Mouse { code, x: coord(rng), y: coord(rng), press: rng.chance(1, 2) }
        }
        8 => gen_color(rng),
        9 => Msg::FaceReport(gen_sgr_items(rng, 0, 6)),
        10 => gen_termcap(rng),
        11 => Msg::Size { ch: size_val(rng), cw: size_val(rng), ph: size_val(rng), pw: size_val(rng) },
        12 => Msg::Text(gen_text_char(rng)),
        _ => gen_paste(rng),
    }
}

/// the family uniformly among the 14, then the constructor, then parameters with boundaries over-weighted
pub fn gen_msg(rng: &mut Rng) -> Msg {
    let fam = rng.below(14) as usize;
    gen_family(rng, fam)
}

/* ================================================================ the dumped automaton */

type EvState = VerifDfaState<TerminalEvent>;

/// number of a tag in the model's numbering (key code, `MATCHER_BASE + i`; an item that is not a key has none)
fn tag_num(t: &VerifTag<TerminalEvent>) -> u64 {
    match t {
        VerifTag::Item(TerminalEvent::Key(k)) => events::key_code(k),
        VerifTag::Item(_) => u64::MAX,
        VerifTag::Matcher(i) => events::MATCHER_BASE + *i as u64,
    }
}

struct Dfa {
    states: Vec<EvState>,
    trans: Vec<[u32; 256]>,
}

const NO: u32 = u32::MAX;

impl Dfa {
    fn new(states: Vec<EvState>) -> Dfa {
        let trans = states
            .iter()
            .map(|s| {
                let mut row = [NO; 256];
                for (b, t) in &s.edges {
                    row[*b as usize] = *t as u32;
                }
                row
            })
            .collect();
        Dfa { states, trans }
    }
    fn run(&self, bytes: &[u8]) -> Option<usize> {
        let mut s = 0usize;
        if self.states.is_empty() {
            return None;
        }
        for b in bytes {
            let t = self.trans[s][*b as usize];
            if t == NO {
                return None;
            }
            s = t as usize;
        }
        Some(s)
    }
    /// a shortest word leading to every state
    fn words(&self) -> Vec<Vec<u8>> {
        let n = self.states.len();
        let mut word: Vec<Option<Vec<u8>>> = vec![None; n];
        if n == 0 {
            return vec![];
        }
        word[0] = Some(vec![]);
        let mut queue = std::collections::VecDeque::from([0usize]);
        while let Some(s) = queue.pop_front() {
            let w = word[s].clone().unwrap();
            for (b, t) in &self.states[s].edges {
                if word[*t].is_none() {
                    let mut w2 = w.clone();
                    w2.push(*b);
                    word[*t] = Some(w2);
                    queue.push_back(*t);
                }
            }
        }
        word.into_iter().map(|w| w.unwrap_or_default()).collect()
    }
}

/* ================================================================ decoding with the real decoder */

fn partition(rng: &mut Rng, data: &[u8], mode: u64) -> Vec<Vec<u8>> {
    match mode {
        0 => vec![data.to_vec()],
        1 if data.is_empty() => vec![vec![]],
        1 => data.iter().map(|b| vec![*b]).collect(),
        _ => {
            // arbitrary cuts, empty reads allowed
            let mut out = Vec::new();
            let mut pos = 0;
            while pos < data.len() {
                if rng.chance(1, 6) {
                    out.push(vec![]);
                }
                let span = 1 + rng.below(8);
                let n = 1 + rng.below(span) as usize;
                let end = (pos + n).min(data.len());
                out.push(data[pos..end].to_vec());
                pos = end;
            }
            if rng.chance(1, 4) {
                out.push(vec![]);
            }
            if out.is_empty() {
                out.push(vec![]);
            }
            out
        }
    }
}

/// canonical texts of the events of a fresh `TTYEventDecoder` fed the chunks one read at a time
fn decode_chunks(chunks: &[Vec<u8>]) -> Vec<String> {
    let mut dec = TTYEventDecoder::new();
    let mut out = Vec::new();
    for chunk in chunks {
        let mut items = Vec::new();
        let r = guarded(|| {
            let mut cur = Cursor::new(&chunk[..]);
            let r = dec.decode_into(&mut cur, &mut items);
            (r.is_ok(), cur.position() as usize)
        });
        out.extend(items.iter().map(show_event));
        match r {
            Ok((true, pos)) if pos == chunk.len() => {}
            Ok((true, _)) => out.push("UNCONSUMED".into()),
            Ok((false, _)) => out.push("ERROR".into()),
            Err(()) => {
                out.push("PANIC".into());
                return out;
            }
        }
    }
    out
}

fn unhex(s: &str) -> Vec<u8> {
    if s == "-" {
        return vec![];
    }
    let b = s.as_bytes();
    (0..b.len() / 2).filter_map(|i| u8::from_str_radix(std::str::from_utf8(&b[2 * i..2 * i + 2]).ok()?, 16).ok()).collect()
}

fn fnv(s: &str) -> u64 {
    let mut h = 0xcbf29ce484222325u64;
    for b in s.bytes() {
        h ^= b as u64;
        h = h.wrapping_mul(0x100000001b3);
    }
    h
}

/* ================================================================ context */

struct Ctx {
    dfa: Dfa,
    /// indices into `proto_keys()` of the keys whose accepting state is not terminal
    nonterminal: HashSet<usize>,
    seen: HashSet<u64>,
    /// remaining budget of `pay decode` / `proto msg` lines
    budget: u64,
    streams: u64,
    samples: u64,
    /// remaining budget of `sd stream` lines (composed model of the decoder on whole streams)
    stream_budget: u64,
}

impl Ctx {
    fn new(cfg: &Cfg) -> Ctx {
        let dfa = Dfa::new(verif_c04::event_dfa());
        let mut nonterminal = HashSet::new();
        for (i, (bytes, _)) in keys().iter().enumerate() {
            if let Some(s) = dfa.run(bytes) {
                if dfa.states[s].accepting && !dfa.states[s].terminal {
                    nonterminal.insert(i);
                }
            }
        }
        Ctx { dfa, nonterminal, seen: HashSet::new(), budget: if cfg.thorough { 600_000 } else { 150_000 }, streams: 0, samples: 0, stream_budget: if cfg.thorough { 150_000 } else { 15_000 } }
    }
    fn is_nonterminal(&self, m: &Msg) -> bool {
        matches!(m, Msg::Key(i) if self.nonterminal.contains(i))
    }
    /// a capped, de-duplicated correspondence line
    fn corr(&mut self, out: &mut Out, request: String, answer: impl FnOnce() -> String) {
        if self.budget == 0 || !self.seen.insert(fnv(&request)) {
            return;
        }
        self.budget -= 1;
        let a = answer();
        out.corr(&request, &a);
    }
}

/// Is the colour text outside the part of the colour parser the model covers (the model answers `ext`)?
/// `events::color_external`, restricted like `SurfModel.Payload.rasterParse` to names that start with a
/// lower case letter (`#…/alpha` forms start with `#`): texts such as `7` or `-b` are not names, the model
/// and the implementation both reject them.
fn color_ext(text: &[u8]) -> bool {
    let body = match text.iter().rposition(|b| *b == b'/') {
        None => text,
        Some(i) => &text[..i],
    };
    events::color_external(text) && body.first().map(|b| *b == b'#' || b.is_ascii_lowercase()).unwrap_or(false)
}

/// answer of the real payload decoder of family `k` on a token
fn real_decode(k: usize, bytes: &[u8]) -> String {
    if k == 8 && guarded(|| events::osc_color_field(bytes).map(color_ext).unwrap_or(false)).unwrap_or(false) {
        return "ext".into();
    }
    show_result(guarded(|| verif_c04::matcher_decode(k, bytes)).map(|o| o.map(|e| show_event(&e))))
}

/// one mutation of a token (the result need not match the grammar)
fn mutate(rng: &mut Rng, tok: &[u8]) -> Vec<u8> {
    for _ in 0..6 {
        let mut t = tok.to_vec();
        match rng.below(8) {
            kind @ 0..=2 => {
                // a numeric parameter becomes 0 / 20+ digits / nothing
                let mut runs = vec![];
                let mut i = 2;
                while i < t.len() {
                    if t[i].is_ascii_digit() {
                        let s = i;
                        while i < t.len() && t[i].is_ascii_digit() {
                            i += 1;
                        }
                        runs.push((s, i));
                    } else {
                        i += 1;
                    }
                }
                if runs.is_empty() {
                    continue;
                }
                let (s, e) = *rng.pick(&runs);
                let rep: Vec<u8> = match kind {
                    0 => b"0".to_vec(),
                    1 => {
                        let n = 20 + rng.below(6);
                        (0..n).map(|i| if i == 0 { b'1' + rng.below(9) as u8 } else { b'0' + rng.below(10) as u8 }).collect()
                    }
                    _ => vec![],
                };
                t.splice(s..e, rep);
            }
            3 => {
                if t.len() >= 3 {
                    t.remove(t.len() - 2);
                }
            }
            4 => {
                let pos: Vec<usize> = (0..t.len()).filter(|i| t[*i] == b';').collect();
                if pos.is_empty() {
                    continue;
                }
                let p = *rng.pick(&pos);
                t.insert(p, b';');
            }
            5 => {
                if t.len() < 4 {
                    continue;
                }
                let p = 2 + rng.below(t.len() as u64 - 3) as usize;
                let mut b = rng.below(128) as u8;
                if b == 0x1b {
                    b = b'?';
                }
                t[p] = b;
            }
            6 => {
                if t.len() < 4 {
                    continue;
                }
                let n = 2 + rng.below(t.len() as u64 - 2) as usize;
                t.truncate(n);
            }
            _ => {
                let pos: Vec<usize> = (0..t.len()).filter(|i| t[*i] == b'=').collect();
                if pos.is_empty() {
                    continue;
                }
                let p = *rng.pick(&pos);
                t.remove(p);
            }
        }
        if t != tok {
            return t;
        }
    }
    tok[..tok.len().min(2)].to_vec()
}

/// correspondence lines of one generated message
fn msg_lines(ctx: &mut Ctx, out: &mut Out, rng: &mut Rng, m: &Msg) {
    if ctx.budget == 0 {
        return;
    }
    let k = family(m);
    let bytes = print(m);
    ctx.corr(out, format!("proto msg {}", wire(m)), || format!("{} {}", hex(&bytes), meaning(m)));
    if k == 0 {
        return;
    }
    ctx.corr(out, format!("pay decode {k} {}", hex(&bytes)), || real_decode(k, &bytes));
    if k != 12 && rng.chance(1, 4) {
        let t = mutate(rng, &bytes);
        ctx.corr(out, format!("pay decode {k} {}", hex(&t)), || real_decode(k, &t));
        out.hist("tie:mutated-token");
    }
}

/* ================================================================ one stream */

const WHAT_STREAM: &str = "decoded events differ from the events the stream encodes";
const WHAT_CUT: &str = "decoded events depend on how the stream is cut into reads";

fn chunks_json(chunks: &[Vec<u8>]) -> Value {
    json!(chunks.iter().map(|c| hex(c)).collect::<Vec<_>>())
}

/// decode `stream` under the partitions and compare with `expected`; returns `true` when all agree
fn check_stream(out: &mut Out, stream: &[u8], wires: &[String], expected: &[String], parts: &[Vec<Vec<u8>>]) -> bool {
    let mut ok = true;
    let mut first: Option<Vec<String>> = None;
    let mut cut_reported = false;
    for chunks in parts {
        let got = decode_chunks(chunks);
        if got != expected {
            ok = false;
            out.fail(
                WHAT_STREAM,
                json!({"stream": hex(stream), "msgs": wires, "partition": chunks_json(chunks), "expected": expected}),
                json!(expected),
                json!(got),
            );
        }
        match &first {
            None => first = Some(got),
            Some(f) => {
                if *f != got && !cut_reported {
                    cut_reported = true;
                    ok = false;
                    out.fail(
                        WHAT_CUT,
                        json!({"stream": hex(stream), "msgs": wires, "partition": chunks_json(chunks), "expected": expected}),
                        json!(f),
                        json!(got),
                    );
                }
            }
        }
    }
    ok
}

fn events_text(evs: &[String]) -> String {
    if evs.is_empty() { "-".to_string() } else { evs.join(" ") }
}

/// could the stream contain an OSC token whose colour text the model does not cover (`ext`)? Every OSC token
/// starts at some `ESC ]` and ends at the first BEL or `ESC \` after it.
fn may_be_external(stream: &[u8]) -> bool {
    for i in 0..stream.len().saturating_sub(1) {
        if stream[i] == 0x1b && stream[i + 1] == b']' {
            let mut j = i + 2;
            while j < stream.len() && stream[j] != 7 && stream[j] != 0x1b {
                j += 1;
            }
            if j < stream.len() {
                let end = if stream[j] == 7 { j + 1 } else { (j + 2).min(stream.len()) };
                if guarded(|| events::osc_color_field(&stream[i..end]).map(color_ext).unwrap_or(false)).unwrap_or(true) {
                    return true;
                }
            }
        }
    }
    false
}

/// correspondence of the COMPOSED model (tokenizer over the installed dumped table, tag selection, payload
/// decoders: `SurfModel.Stream.decodeEvents`) with the real decoder on the whole stream and, one time in
/// four, on a damaged copy (the model must follow the implementation on any bytes)
fn stream_lines(ctx: &mut Ctx, out: &mut Out, rng: &mut Rng, stream: &[u8]) {
    if ctx.stream_budget == 0 || stream.is_empty() {
        return;
    }
    ctx.stream_budget -= 1;
    out.corr(&format!("sd stream {}", hex(stream)), &events_text(&decode_chunks(&[stream.to_vec()])));
    out.hist("tie:composed-stream");
    if rng.chance(1, 4) {
        let mut g = stream.to_vec();
        let i = rng.below(g.len() as u64) as usize;
        match rng.below(4) {
            0 => g[i] = rng.below(0x80) as u8,
            1 => {
                g.remove(i);
            }
            2 => g.insert(i, rng.below(0x80) as u8),
            _ => g.truncate(i + 1),
        }
        if !g.is_empty() && !may_be_external(&g) {
            out.corr(&format!("sd stream {}", hex(&g)), &events_text(&decode_chunks(&[g.clone()])));
            out.hist("tie:composed-stream-damaged");
        }
    }
}

/// a stream of messages: oracle under three partitions, statistics, correspondence lines
fn run_case(ctx: &mut Ctx, out: &mut Out, rng: &mut Rng, msgs: &[Msg], expected_override: Option<Vec<String>>) {
    let mut stream = vec![];
    for m in msgs {
        stream.extend(print(m));
    }
    let expected: Vec<String> = expected_override.unwrap_or_else(|| msgs.iter().map(expected_event).collect());
    let wires: Vec<String> = msgs.iter().map(wire).collect();
    let parts = vec![partition(rng, &stream, 0), partition(rng, &stream, 1), partition(rng, &stream, 2)];
    check_stream(out, &stream, &wires, &expected, &parts);
    stream_lines(ctx, out, rng, &stream);
    let nontrivial = msgs.iter().any(|m| !matches!(family(m), 0 | 12));
    out.case(&hex(&stream), nontrivial);
    out.hist(&format!("len:{}", msgs.len()));
    for m in msgs {
        out.hist(&format!("family:{}", FAMILY_NAMES[family(m)]));
        msg_lines(ctx, out, rng, m);
    }
    ctx.streams += 1;
    if ctx.samples < 12 && msgs.len() >= 2 && nontrivial && ctx.streams % 97 == 5 {
        ctx.samples += 1;
        out.sample(json!({"stream": hex(&stream), "msgs": wires, "events": expected}));
    }
}

/// may this message follow a key whose bytes are a proper prefix of other sequences?
fn starts_safe(m: &Msg) -> bool {
    match print(m).first() {
        Some(b) => *b == 0x1b || *b >= 0x80 || *b < 0x20,
        None => false,
    }
}

fn gen_stream(ctx: &Ctx, rng: &mut Rng) -> Vec<Msg> {
    let n = 1 + rng.below(12) as usize;
    // one stream in ten is mostly text, so that reports sit between runs of plain characters
    let texty = rng.chance(1, 10);
    let mut msgs: Vec<Msg> = vec![];
    loop {
        let after_prefix_key = msgs.last().map(|m| ctx.is_nonterminal(m)).unwrap_or(false);
        if msgs.len() >= n && !after_prefix_key {
            break;
        }
        let m = loop {
            let m = if texty && rng.chance(1, 2) { gen_family(rng, 12) } else { gen_msg(rng) };
            if !after_prefix_key || starts_safe(&m) {
                break m;
            }
        };
        msgs.push(m);
    }
    msgs
}

/* ================================================================ key table tie */

const WHAT_TABLE_DFA: &str = "literal key paths of the event automaton differ from the literal key table";
const WHAT_TABLE_NAMES: &str = "literal key table differs from the naming table";
const WHAT_TABLE_TAGS: &str = "a literal key state of the event automaton carries other tags";

fn key_text(code: (u64, u64, u64)) -> String {
    format!("key:{}.{}.{}", code.0, code.1, code.2)
}

fn table_rows() -> Vec<(Vec<u8>, Option<(u64, u64, u64)>, u64)> {
    verif_c04::key_table()
        .into_iter()
        .map(|(bytes, ev)| match ev {
            TerminalEvent::Key(k) => {
                let (v, p) = events::key_name_variant(k.name);
                (bytes, Some((v, p, events::mod_bits(k.mode))), events::key_code(&k))
            }
            _ => (bytes, None, u64::MAX),
        })
        .collect()
}

fn key_tie(ctx: &Ctx, out: &mut Out) {
    let dfa = &ctx.dfa;
    let n = dfa.states.len();
    let is_item = |s: usize| dfa.states[s].accepting && matches!(dfa.states[s].tags.first(), Some(VerifTag::Item(_)));
    // (i) all words accepted in a state whose least tag is an item
    let mut rev: Vec<Vec<usize>> = vec![vec![]; n];
    for (s, st) in dfa.states.iter().enumerate() {
        for (_, t) in &st.edges {
            rev[*t].push(s);
        }
    }
    let mut live = vec![false; n];
    let mut stack: Vec<usize> = (0..n).filter(|s| is_item(*s)).collect();
    for s in &stack {
        live[*s] = true;
    }
    while let Some(s) = stack.pop() {
        for p in &rev[s] {
            if !live[*p] {
                live[*p] = true;
                stack.push(*p);
            }
        }
    }
    // cycle check of the restricted graph (colours: 0 new, 1 open, 2 done), then enumeration
    fn cyclic(dfa: &Dfa, live: &[bool], colour: &mut [u8], s: usize) -> bool {
        colour[s] = 1;
        for (_, t) in &dfa.states[s].edges {
            if live[*t] && (colour[*t] == 1 || (colour[*t] == 0 && cyclic(dfa, live, colour, *t))) {
                return true;
            }
        }
        colour[s] = 2;
        false
    }
    let rows = table_rows();
    let table: BTreeSet<(Vec<u8>, u64)> = rows.iter().map(|(b, _, c)| (b.clone(), *c)).collect();
    let mut colour = vec![0u8; n];
    if n == 0 || !live[0] {
        out.fail(WHAT_TABLE_DFA, json!({"kind": "keytable", "stream": "-"}), json!(format!("{} literal keys", table.len())), json!("no literal key state is reachable"));
    } else if cyclic(dfa, &live, &mut colour, 0) {
        out.fail(WHAT_TABLE_DFA, json!({"kind": "keytable", "stream": "-"}), json!("finitely many literal key sequences"), json!("a cycle leads to a literal key state"));
    } else {
        fn walk(dfa: &Dfa, live: &[bool], s: usize, word: &mut Vec<u8>, acc: &mut BTreeSet<(Vec<u8>, u64)>, budget: &mut u64) {
            if *budget == 0 {
                return;
            }
            let st = &dfa.states[s];
            if st.accepting {
                if let Some(t @ VerifTag::Item(_)) = st.tags.first() {
                    acc.insert((word.clone(), tag_num(t)));
                    *budget -= 1;
                }
            }
            for (b, t) in &st.edges {
                if live[*t] {
                    word.push(*b);
                    walk(dfa, live, *t, word, acc, budget);
                    word.pop();
                }
            }
        }
        let mut words = BTreeSet::new();
        let mut budget = 100_000u64;
        walk(dfa, &live, 0, &mut vec![], &mut words, &mut budget);
        for (bytes, code) in table.difference(&words) {
            out.fail(
                WHAT_TABLE_DFA,
                json!({"kind": "keytable", "stream": hex(bytes)}),
                json!(format!("accepted as literal key with code {code}")),
                json!(match words.iter().find(|(b, _)| b == bytes) {
                    Some((_, c)) => format!("accepted as literal key with code {c}"),
                    None => "not a literal key path".to_string(),
                }),
            );
        }
        for (bytes, code) in words.difference(&table) {
            if table.iter().any(|(b, _)| b == bytes) {
                continue; // reported above
            }
            out.fail(
                WHAT_TABLE_DFA,
                json!({"kind": "keytable", "stream": hex(bytes)}),
                json!("not in the literal key table"),
                json!(format!("accepted as literal key with code {code}")),
            );
        }
        out.extra("literal_key_paths", json!(words.len()));
        out.case("keytable-dfa", true);
        out.hist("tie:key-table");
    }
    // (ii) the naming table and the literal key table, as sets of (bytes, key)
    let names: BTreeSet<(Vec<u8>, (u64, u64, u64))> = keys().iter().cloned().collect();
    let mut by_bytes: BTreeMap<Vec<u8>, Vec<String>> = BTreeMap::new();
    let mut impl_rows: BTreeSet<(Vec<u8>, (u64, u64, u64))> = BTreeSet::new();
    for (bytes, key, _) in &rows {
        by_bytes.entry(bytes.clone()).or_default().push(key.map(key_text).unwrap_or("not-a-key".into()));
        if let Some(k) = key {
            impl_rows.insert((bytes.clone(), *k));
        } else {
            out.fail(WHAT_TABLE_NAMES, json!({"kind": "keytable", "stream": hex(bytes)}), json!("a key"), json!("not-a-key"));
        }
    }
    for (bytes, key) in names.difference(&impl_rows) {
        out.fail(
            WHAT_TABLE_NAMES,
            json!({"kind": "keytable", "stream": hex(bytes)}),
            json!(key_text(*key)),
            json!(by_bytes.get(bytes).map(|v| v.join(" ")).unwrap_or("absent".into())),
        );
    }
    for (bytes, key) in impl_rows.difference(&names) {
        if names.iter().any(|(b, _)| b == bytes) {
            continue; // reported above
        }
        out.fail(WHAT_TABLE_NAMES, json!({"kind": "keytable", "stream": hex(bytes)}), json!("absent from the naming table"), json!(key_text(*key)));
    }
    out.extra("naming_table", json!({"spellings": keys().len(), "distinct": names.len(), "literal_table": rows.len()}));
    out.case("keytable-names", true);
    out.hist("tie:key-table");
    // (iii) literal key states carry one tag, except the documented F3 / CPR overlap
    let words = dfa.words();
    for (s, st) in dfa.states.iter().enumerate() {
        if !st.tags.iter().any(|t| matches!(t, VerifTag::Item(_))) {
            continue;
        }
        let overlap = st.tags.len() == 2
            && matches!(&st.tags[0], VerifTag::Item(TerminalEvent::Key(k))
                if events::key_name_variant(k.name) == (K_F, 3) && (1..=7).contains(&events::mod_bits(k.mode)))
            && st.tags[1] == VerifTag::Matcher(1);
        if !(st.accepting && (st.tags.len() == 1 || overlap)) {
            out.fail(
                WHAT_TABLE_TAGS,
                json!({"kind": "keytable", "stream": hex(&words[s])}),
                json!("one literal key (or F3 with modifiers + cursor position report)"),
                json!(st.tags.iter().map(|t| tag_num(t).to_string()).collect::<Vec<_>>().join(",")),
            );
        }
    }
}

/// oracle line of the self-delimiting condition and the set of prefix keys
fn sd_line(ctx: &Ctx, out: &mut Out) {
    let dfa = &ctx.dfa;
    let mut codes: Vec<u64> = dfa
        .states
        .iter()
        .filter(|s| s.accepting && !s.terminal)
        .map(|s| s.tags.first().map(tag_num).unwrap_or(u64::MAX))
        .collect();
    let count = codes.len();
    codes.sort();
    let list = if codes.is_empty() { "-".to_string() } else { codes.iter().map(|c| c.to_string()).collect::<Vec<_>>().join(",") };
    out.oracle(&format!("sd event | {}", dumps::show_table(&dfa.states, dumps::event_item_tag)), &format!("ok {count} {list}"));
    out.hist("tie:self-delimiting");
    let mut nt: Vec<usize> = ctx.nonterminal.iter().copied().collect();
    nt.sort();
    out.extra(
        "nonterminal_keys",
        json!(nt.iter().map(|i| json!({"bytes": hex(&keys()[*i].0), "key": key_text(keys()[*i].1)})).collect::<Vec<_>>()),
    );
}

/* ================================================================ fixed correspondence lines */

fn fixed_lines(out: &mut Out, rng: &mut Rng) {
    for n in 0..=2100usize {
        out.corr(&format!("pay decmode {n}"), &DecMode::from_usize(n).map(|m| events::dec_mode_number(m).to_string()).unwrap_or("none".into()));
    }
    for n in 0..=12usize {
        out.corr(&format!("pay decstatus {n}"), &DecModeStatus::from_usize(n).map(|m| events::dec_status_number(m).to_string()).unwrap_or("none".into()));
    }
    let ranges: [(u64, u64); 7] =
        [(0, 200), (55290, 57350), (57370, 57400), (63740, 63750), (0x10fff0, 0x110010), (4294967290, 4294967300), (1 << 40, 1 << 40)];
    for (lo, hi) in ranges {
        for n in lo..=hi {
            let a = match guarded(|| verif_c04::keyboard_decode_key(n as usize)) {
                Err(()) => "panic".to_string(),
                Ok(None) => "none".to_string(),
                Ok(Some(k)) => {
                    let (v, p) = events::key_name_variant(k);
                    format!("{v}.{p}")
                }
            };
            out.corr(&format!("pay kbdkey {n}"), &a);
        }
    }
    out.hist("tie:payload-helpers");
    // colour texts
    let mut texts: Vec<Vec<u8>> = [
        "", "#", "#fff", "#ffff", "#fffff", "#ffffff", "#FFFFFF", "#FfAa00", "#000000", "#gggggg", "#12345g", "#1234567",
        "#12345678", "#123456789", "#ff000080", "#FF0000FF", "#ff0000/0.5", "#ff000080/0.5", "red", "blue", "red/0.5", "Red",
        "dark-red", "rgb:", "rgb:/", "rgb://", "rgb:1/2", "rgb:1/2/3", "rgb:1/2/3/4", "rgb:1/2/3/", "rgb:/1/2", "rgb:1//2",
        "rgb:1/2/", "RGB:1/2/3", "Rgb:1/2/3", "rgb:g/1/2", "rgb: 1/2/3", "rgb:-1/2/3", "rgb:1/-2/3", "rgb:+1/2/3", "rgb:+f/+f/+f",
        "rgb:+/1/2", "rgb:+ff/0/0", "rgb:+fff/0/0", "rgb:+ffff/0/0", "rgb:12345/1/2", "rgb:1/12345/2", "rgb:1/2/12345",
        "rgb:FFFF/AAAA/0000", "rgb:ffff/8080/0000", "rgb:FF/aa/0", "rgb:f/f/f", "rgb:ff/ff/ff", "rgb:fff/fff/fff", "rgb:ffff/ffff/ffff",
        "rgb:0/0/0", "rgb:00/00/00", "rgb:000/000/000", "rgb:0000/0000/0000", "rgb:8/80/800", "rgb:8000/800/80", "rgb:7fff/7ff/7f",
        "rgb:0ff/00f/f00", "rgb:100/0ff/010", "rgbi:1.0/0/0", "rgb:\u{e9}/1/2", "rgb:1/\u{20ac}/2", "rgb:1 /2/3", "rgb:1/2/3 ", " rgb:1/2/3",
        "rgb:0x1/2/3", "rgb:1_0/2/3", "rgba:1/2/3/4", "hsl:1/2/3", "?", "rgb:ff/ff", "rgb:ff", "#rgb:1/2/3", "rgb:#/1/2", "a", "z9", "a-b",
    ]
    .iter()
    .map(|s| s.as_bytes().to_vec())
    .collect();
    for _ in 0..30 {
        texts.push(color_spec_print(&ColorSpec::Hash(byte_val(rng), byte_val(rng), byte_val(rng))));
        let mut t = color_spec_print(&ColorSpec::Hash(byte_val(rng), byte_val(rng), byte_val(rng)));
        t.extend(hex_fixed(2, byte_val(rng)));
        if rng.chance(1, 3) {
            t.make_ascii_uppercase();
            t[0] = b'#';
        }
        texts.push(t);
    }
    for _ in 0..120 {
        let d = [1 + rng.below(4) as u32, 1 + rng.below(4) as u32, 1 + rng.below(4) as u32];
        let mut t = color_spec_print(&ColorSpec::Rgb(gen_channel(rng, d[0]), gen_channel(rng, d[1]), gen_channel(rng, d[2])));
        if rng.chance(1, 4) {
            t[4..].make_ascii_uppercase();
        }
        texts.push(t);
    }
    for _ in 0..70 {
        let n = rng.below(13);
        let t: Vec<u8> = (0..n)
            .map(|_| if rng.chance(1, 3) { *rng.pick(b"#rgb:/+-0f") } else { 0x20 + rng.below(0x5f) as u8 })
            .collect();
        texts.push(t);
    }
    let mut seen = HashSet::new();
    for t in texts {
        if !seen.insert(t.clone()) {
            continue;
        }
        let Ok(s) = std::str::from_utf8(&t) else { continue };
        let a = if color_ext(&t) {
            "ext".to_string()
        } else {
            match guarded(|| verif_c04::parse_color(s)) {
                Err(()) => "panic".to_string(),
                Ok(None) => "none".to_string(),
                Ok(Some(c)) => events::rgba_tok(Some(c)),
            }
        };
        out.corr(&format!("pay color {}", hex(&t)), &a);
    }
    out.hist("tie:payload-helpers");
}

/* ================================================================ white-box corpus */

fn key_index(bytes: &[u8]) -> usize {
    keys().iter().position(|r| r.0 == bytes).expect("spelling of the naming table")
}

fn ch(digits: u32, value: u64) -> Channel {
    Channel { digits, value }
}

/// streams with the expectation computed from `expected_event`
fn corpus(ctx: &Ctx) -> Vec<(Vec<Msg>, Option<Vec<String>>)> {
    let mut c: Vec<(Vec<Msg>, Option<Vec<String>>)> = vec![];
    let mut one = |m: Msg| c.push((vec![m], None));
    // the documented overlap and its neighbourhood; coordinates at both ends
    for col in 1..=9 {
        one(Msg::Cursor { row: 1, col });
    }
    for (row, col) in [(2, 5), (1, 65535), (65535, 1), (65535, 65535), (10, 10), (2, 1), (11, 5), (1, 10), (1, 15)] {
        one(Msg::Cursor { row, col });
    }
    for code in 0..=255u64 {
        one(Msg::Mouse { code, x: 1 + code % 3, y: 1 + code % 5, press: code % 2 == 0 });
        one(Msg::Mouse { code, x: 65535 - code, y: 1, press: code % 2 == 1 });
    }
    for (x, y) in [(1, 1), (65535, 65535), (1, 65535), (65535, 1), (10, 100)] {
        one(Msg::Mouse { code: 0, x, y, press: true });
        one(Msg::Mouse { code: 35, x, y, press: false });
    }
    for mode_number in [25u64, 7, 80, 1000, 1003, 1006, 1049, 2026, 2004] {
        for status_number in 0..=4 {
            one(Msg::DecMode { mode_number, status_number });
        }
    }
    for (attrs, trailing) in [
        (vec![1u64], false),
        (vec![1], true),
        (vec![62, 4, 22], false),
        (vec![64, 1, 2, 4, 6, 9, 15, 22], true),
        (vec![999, 1, 999, 4, 1], false),
        (vec![62], false),
    ] {
        one(Msg::DeviceAttrs { attrs, trailing });
    }
    // colours: the example of the task, every digit count at both ends, palette ends, hash form
    for fin in [OscEnd::Bel, OscEnd::St] {
        one(Msg::Color { name: ColorName::Background, spec: ColorSpec::Rgb(ch(4, 0xffff), ch(4, 0x8080), ch(4, 0)), fin });
        for d in 1..=4u32 {
            let max = (1u64 << (4 * d)) - 1;
            for v in [0, 1, max / 2, max / 2 + 1, max - 1, max] {
                one(Msg::Color { name: ColorName::Foreground, spec: ColorSpec::Rgb(ch(d, v), ch(d, max - v), ch(d, v)), fin });
            }
        }
        one(Msg::Color { name: ColorName::Palette(0), spec: ColorSpec::Hash(0, 0, 0), fin });
        one(Msg::Color { name: ColorName::Palette(255), spec: ColorSpec::Hash(255, 128, 1), fin });
        one(Msg::Color { name: ColorName::Palette(7), spec: ColorSpec::Rgb(ch(1, 0xf), ch(2, 0x80), ch(3, 0xabc)), fin });
        one(Msg::Color { name: ColorName::Foreground, spec: ColorSpec::Rgb(ch(4, 0x1234), ch(3, 0x123), ch(1, 1)), fin });
    }
    // SGR: every item alone, the three colour forms for every role, combinations
    let mut items = vec![SgrItem::Reset];
    for on in [true, false] {
        items.extend([SgrItem::Bold(on), SgrItem::Italic(on), SgrItem::Blink(on), SgrItem::Strike(on)]);
    }
    for s in 0..=5 {
        items.push(SgrItem::Underline(s));
    }
    for role in 0..=2 {
        for form in [ColorForm::Semi, ColorForm::Colon, ColorForm::ColonSpace] {
            items.push(SgrItem::Rgb { role, r: 0, g: 128, b: 255, form });
            items.push(SgrItem::Rgb { role, r: 255, g: 1, b: 0, form });
        }
    }
    for it in &items {
        one(Msg::Sgr(vec![it.clone()]));
        one(Msg::FaceReport(vec![it.clone()]));
        one(Msg::Sgr(vec![SgrItem::Bold(true), it.clone(), SgrItem::Underline(3)]));
        one(Msg::FaceReport(vec![SgrItem::Rgb { role: 0, r: 1, g: 2, b: 3, form: ColorForm::Semi }, it.clone(), SgrItem::Italic(true)]));
    }
    one(Msg::FaceReport(vec![]));
    one(Msg::Sgr(items.clone()));
    one(Msg::FaceReport(items));
    // termcap
    one(Msg::TermcapOk { entries: vec![], upper: false });
    one(Msg::TermcapOk { entries: vec![(b"Co".to_vec(), b"256".to_vec())], upper: false });
    one(Msg::TermcapOk { entries: vec![(b"Co".to_vec(), b"256".to_vec())], upper: true });
    one(Msg::TermcapOk {
        entries: vec![(b"TN".to_vec(), b"xterm-kitty".to_vec()), (b"Co".to_vec(), b"8".to_vec()), (b"TN".to_vec(), b"x".to_vec()), (vec![0xff, 0, 0x1b], vec![0x1b, 0x5c, 0xfe])],
        upper: true,
    });
    one(Msg::TermcapFail { names: vec![b"TN".to_vec()], upper: false });
    one(Msg::TermcapFail { names: vec![b"colors".to_vec(), b"RGB".to_vec(), b"colors".to_vec(), vec![0xff]], upper: true });
    // kitty keyboard
    for flags in [0u64, 1, 5, 31, 65535, u64::MAX] {
        one(Msg::KeyboardLevel(flags));
    }
    for code in [97u64, 122, 27, 13, 9, 127, 57376, 57398, 0, 32, 65, 0xd7ff, 0xe9, 63744, 0xfffd, 0x10ffff] {
        for mods in [None, Some(0), Some(1), Some(4), Some(5), Some(255)] {
            one(Msg::CsiU { code, alts: vec![], mods });
        }
        one(Msg::CsiU { code, alts: vec![65], mods: Some(2) });
        one(Msg::CsiU { code, alts: vec![65, 0x10ffff], mods: None });
    }
    for mods in 0..=255u64 {
        one(Msg::CsiU { code: 97 + mods % 26, alts: vec![], mods: Some(mods) });
    }
    // kitty graphics
    one(Msg::KittyImage { id: 1, placement: None, error: None });
    one(Msg::KittyImage { id: 4294967295, placement: Some(1), error: Some(b"ENOENT:no such image".to_vec()) });
    one(Msg::KittyImage { id: 255, placement: Some(4294967295), error: None });
    one(Msg::KittyImage { id: 65535, placement: None, error: Some(vec![]) });
    one(Msg::KittyImage { id: 2, placement: None, error: Some(b"EINVAL:a;b=c,d \xe2\x82\xac\x07\n".to_vec()) });
    // sizes
    for v in [0u64, 1, 9, 10, 255, 256, 65535] {
        one(Msg::Size { ch: v, cw: 65535 - v, ph: v, pw: v });
    }
    one(Msg::Size { ch: 24, cw: 80, ph: 480, pw: 640 });
    // paste
    for text in [&b""[..], b"[201~", b"a", b"line one\nline two\ttab\x07bell", "\u{e9}\u{20ac}\u{1f600}\u{10ffff}".as_bytes(), b"[200~[201~[201", b"\x00\x7f"] {
        one(Msg::Paste(text.to_vec()));
    }
    // text at the ends of every encoded length
    for cp in [0x20u32, 0x7e, 0x80, 0x7ff, 0x800, 0xd7ff, 0xe000, 0xffff, 0x10000, 0x10ffff, 0x41, 0x5b, 0x31] {
        one(Msg::Text(cp));
    }
    // every spelling of the naming table on its own: a key whose bytes are a proper prefix of other
    // sequences stays pending at the end of the stream, and is delivered when a sequence follows
    for i in 0..keys().len() {
        if ctx.nonterminal.contains(&i) {
            c.push((vec![Msg::Key(i)], Some(vec![])));
            c.push((vec![Msg::Key(i), Msg::Cursor { row: 5, col: 7 }], None));
            c.push((vec![Msg::Key(i), Msg::Key(key_index(&[1])), Msg::Text(0xe9)], None));
            c.push((vec![Msg::Key(i), Msg::Text(0x20ac), Msg::Key(i), Msg::Key(key_index(b"\x1b[A"))], None));
        } else {
            c.push((vec![Msg::Key(i)], None));
        }
    }
    // documented merges of a prefix key with following printable input
    let esc = key_index(&[27]);
    c.push((vec![Msg::Key(esc), Msg::Text(b'a' as u32)], Some(vec!["key:1.97.2".into()])));
    c.push((vec![Msg::Key(esc), Msg::Text(b'[' as u32), Msg::Text(b'A' as u32)], Some(vec![format!("key:{K_UP}.0.0")])));
    c.push((vec![Msg::Key(key_index(b"\x1b[")), Msg::Text(b'A' as u32)], Some(vec![format!("key:{K_UP}.0.0")])));
    c.push((vec![Msg::Key(key_index(b"\x1bO")), Msg::Text(b'P' as u32)], Some(vec![format!("key:{K_F}.1.0")])));
    c.push((vec![Msg::Key(esc), Msg::Text(b'[' as u32)], Some(vec![])));
    c.push((vec![Msg::Key(esc), Msg::Key(esc), Msg::Text(b'x' as u32)], Some(vec![format!("key:{K_ESC}.0.0"), "key:1.120.2".into()])));
    // neighbours
    let cpr = Msg::Cursor { row: 12, col: 40 };
    let mouse = Msg::Mouse { code: 0, x: 10, y: 20, press: true };
    c.push((vec![cpr.clone(), cpr.clone()], None));
    c.push((vec![cpr.clone(), mouse.clone()], None));
    c.push((vec![cpr.clone(), Msg::Text(b'a' as u32), cpr.clone()], None));
    c.push((vec![mouse.clone(), Msg::Text(b'1' as u32), Msg::Text(b';' as u32), Msg::Text(b'R' as u32), cpr.clone()], None));
    c.push((vec![Msg::Text(b'1' as u32), Msg::Cursor { row: 1, col: 5 }, Msg::Text(b'R' as u32)], None));
    c.push((vec![Msg::Size { ch: 24, cw: 80, ph: 480, pw: 640 }, Msg::Size { ch: 24, cw: 80, ph: 480, pw: 640 }], None));
    c.push((
        vec![
            Msg::Paste(b"[201~".to_vec()),
            Msg::Paste(vec![]),
            Msg::Text(b'~' as u32),
            Msg::Color { name: ColorName::Background, spec: ColorSpec::Rgb(ch(4, 0xffff), ch(4, 0x8080), ch(4, 0)), fin: OscEnd::Bel },
            Msg::Text(7 + 0x20),
            Msg::TermcapOk { entries: vec![(b"Co".to_vec(), b"256".to_vec())], upper: false },
            Msg::FaceReport(vec![SgrItem::Bold(true)]),
            Msg::KittyImage { id: 1, placement: None, error: None },
            Msg::CsiU { code: 97, alts: vec![], mods: Some(5) },
            Msg::KeyboardLevel(1),
            Msg::DeviceAttrs { attrs: vec![62, 4], trailing: false },
            Msg::DecMode { mode_number: 2004, status_number: 1 },
            Msg::Sgr(vec![SgrItem::Rgb { role: 0, r: 1, g: 2, b: 3, form: ColorForm::Semi }, SgrItem::Underline(1)]),
        ],
        None,
    ));
    c
}

/* ================================================================ replay */

fn replay(out: &mut Out, rng: &mut Rng, v: &Value) {
    let failure = &v["failure"];
    let input = &failure["input"];
    if input["kind"].as_str() == Some("keytable") {
        return; // the tie is re-run by `run`
    }
    let Some(stream_hex) = input["stream"].as_str() else { return };
    let stream = unhex(stream_hex);
    let strings = |v: &Value| -> Option<Vec<String>> {
        v.as_array().map(|a| a.iter().filter_map(|s| s.as_str().map(String::from)).collect())
    };
    let Some(expected) = strings(&input["expected"]).or_else(|| strings(&failure["expected"])) else { return };
    let wires = strings(&input["msgs"]).unwrap_or_default();
    let mut parts = vec![partition(rng, &stream, 0), partition(rng, &stream, 1)];
    match strings(&input["partition"]) {
        Some(p) => parts.push(p.iter().map(|c| unhex(c)).collect()),
        None => parts.push(partition(rng, &stream, 2)),
    }
    let ok = check_stream(out, &stream, &wires, &expected, &parts);
    out.case(&hex(&stream), true);
    out.extra("replay", json!({"stream": hex(&stream), "agrees": ok}));
}

/* ================================================================ entry */

pub fn run(cfg: &Cfg, out: &mut Out, rng: &mut Rng) {
    let mut ctx = Ctx::new(cfg);
    key_tie(&ctx, out);
    sd_line(&ctx, out);
    if let Some(v) = &cfg.replay {
        replay(out, rng, v);
        return;
    }
    fixed_lines(out, rng);
    for (msgs, expected) in corpus(&ctx) {
        run_case(&mut ctx, out, rng, &msgs, expected);
    }
    let corpus_streams = ctx.streams;
    let n = if cfg.thorough { 1_000_000 } else { 10_000 };
    for _ in 0..n {
        let msgs = gen_stream(&ctx, rng);
        run_case(&mut ctx, out, rng, &msgs, None);
    }
    out.extra("streams", json!({"corpus": corpus_streams, "generated": n, "partitions_each": 3}));
    out.extra("correspondence_budget_left", json!(ctx.budget));
}
