// C04: what a terminal sends, written from the protocol documents (twin of `SurfModel/Protocol.lean`),
// the generator of message streams, the stream oracle against the real `TTYEventDecoder`, the key table
// tie and the correspondence lines of the payload models.
//
// `Msg` mirrors Lean `Msg` constructor by constructor; `print` gives the same bytes and `meaning` the same
// canonical event text (format: top of `events.rs`) as the Lean side (`proto msg <wire>` cross-checks the two
// transcriptions on every generated message).  Nothing in `print` / `meaning` calls the decoder.
#![allow(dead_code)]
use super::dumps;
use super::events::{self, show_event, show_result};
use serde_json::{Value, json};
use std::collections::{BTreeMap, BTreeSet, HashSet};
use std::io::Cursor;
use std::sync::OnceLock;
use surf_n_term::{
    decoder::{
        Decoder, TTYEventDecoder,
        verif_c04::{self, VerifDfaState, VerifTag},
    },
    terminal::{DecMode, DecModeStatus, TerminalEvent},
};
use verif_harness::{
    Cfg, guarded,
    out::Out,
    r#gen::Rng,
};

/// `verif_harness::out::hex` (lower case, `-` for the empty string), without a `format!` per byte: pastes of
/// 64 KiB are printed several times
fn hex(bytes: &[u8]) -> String {
    if bytes.is_empty() {
        return "-".to_string();
    }
    let mut s = String::with_capacity(bytes.len() * 2);
    for b in bytes {
        s.push(b"0123456789abcdef"[(b >> 4) as usize] as char);
        s.push(b"0123456789abcdef"[(b & 15) as usize] as char);
    }
    s
}

/* ================================================================ messages */

#[derive(Clone, Debug, PartialEq, Eq)]
pub enum ColorName {
    Foreground,
    Background,
    Palette(u64),
}

/// one channel of `rgb:…`: number of hex digits (1–4) and the transmitted value
#[derive(Clone, Copy, Debug, PartialEq, Eq)]
pub struct Channel {
    pub digits: u32,
    pub value: u64,
}

impl Channel {
    /// X11 scaling of an n-digit channel to 16 bits (digit replication); a byte colour keeps the top 8 bits
    pub fn byte(&self) -> u64 {
        let v16 = match self.digits {
            1 => self.value * 0x1111,
            2 => self.value * 0x101,
            3 => self.value * 16 + self.value / 256,
            _ => self.value,
        };
        v16 / 256
    }
}

#[derive(Clone, Debug, PartialEq, Eq)]
pub enum ColorSpec {
    /// `#rrggbb`, hex digits in lower or upper case
    Hash(u64, u64, u64, bool),
    /// `rgb:r/g/b`, hex digits in lower or upper case
    Rgb(Channel, Channel, Channel, bool),
}

#[derive(Clone, Copy, Debug, PartialEq, Eq)]
pub enum ColorForm {
    /// `38 ; 2 ; r ; g ; b`
    Semi,
    /// `38 : 2 : r : g : b`
    Colon,
    /// `38 : 2 : : r : g : b`
    ColonSpace,
}

#[derive(Clone, Debug, PartialEq, Eq)]
pub enum SgrItem {
    Reset,
    Bold(bool),
    Italic(bool),
    Blink(bool),
    Strike(bool),
    /// 0 off (`24`), 1 straight (`4`), 2 double (`4:2`), 3 curly, 4 dotted, 5 dashed
    Underline(u64),
    /// role 0 foreground, 1 background, 2 underline colour
    Rgb { role: u64, r: u64, g: u64, b: u64, form: ColorForm },
    /// palette colour `38 ; 5 ; n` or `38 : 5 : n` (also 48, 58)
    Palette { role: u64, index: u64, colon: bool },
    /// named colour 0–15: foreground `30+i` / `90+(i-8)`, background `40+i` / `100+(i-8)`
    Named { background: bool, index: u64 },
    /// `21`: doubly underlined (ECMA-48)
    DoubleUnderline,
    /// `4 : s` with s in 0..=5 (`4:0` no underline, `4:1` straight)
    UnderlineColon(u64),
    /// an empty parameter: default, i.e. reset (`CSI m` is `[Empty]`)
    Empty,
}

#[derive(Clone, Copy, Debug, PartialEq, Eq)]
pub enum OscEnd {
    St,
    Bel,
}

#[derive(Clone, Debug, PartialEq, Eq)]
pub enum Msg {
    /// a key in one of its spellings: index into `proto_keys()`
    Key(usize),
    /// printable text: one Unicode scalar value in UTF-8
    Text(u32),
    /// SGR mouse report `CSI < code ; x ; y M|m`
    Mouse { code: u64, x: u64, y: u64, press: bool },
    /// CPR `CSI row ; col R` (1-based)
    Cursor { row: u64, col: u64 },
    /// XTWINOPS 18 and 14 replies `CSI 8 ; h ; w t CSI 4 ; h ; w t`
    Size { ch: u64, cw: u64, ph: u64, pw: u64 },
    /// DECRPM `CSI ? mode ; status $ y`
    DecMode { mode_number: u64, status_number: u64 },
    /// DA1 `CSI ? a ; b ; … c`, optionally with a trailing `;`
    DeviceAttrs { attrs: Vec<u64>, trailing: bool },
    /// OSC 10 / 11 / 4 colour reply
    Color { name: ColorName, spec: ColorSpec, fin: OscEnd },
    /// DECRPSS reply to `DECRQSS m`: `DCS 1 $ r params m ST`
    FaceReport(Vec<SgrItem>),
    /// XTGETTCAP success `DCS 1 + r name=value ; … ST` (hex encoded)
    TermcapOk { entries: Vec<(Vec<u8>, Vec<u8>)>, upper: bool },
    /// XTGETTCAP failure `DCS 0 + r name ; … ST`
    TermcapFail { names: Vec<Vec<u8>>, upper: bool },
    /// kitty keyboard `CSI ? flags u`
    KeyboardLevel(u64),
    /// kitty keyboard `CSI code[:alt…] [; 1+mods] u`
    CsiU { code: u64, alts: Vec<u64>, mods: Option<u64> },
    /// kitty graphics response `APC G i=id[,I=number][,p=placement] ; OK|message ST`
    KittyImage { id: u64, number: Option<u64>, placement: Option<u64>, error: Option<Vec<u8>> },
    /// bracketed paste
    Paste(Vec<u8>),
    /// SGR sequence `CSI params m`
    Sgr(Vec<SgrItem>),
}

pub const FAMILY_NAMES: [&str; 14] = [
    "keys", "cursorPosition", "decMode", "deviceAttrs", "sgr", "kittyImage", "kittyKeyboard", "mouse", "osc",
    "reportSetting", "termcap", "termSize", "utf8", "paste",
];

/// = Lean `Msg.family` then `Family.index` (index of the matcher in `TTY_EVENT_AUTOMATA`)
pub fn family(m: &Msg) -> usize {
    match m {
        Msg::Key(_) => 0,
        Msg::Cursor { .. } => 1,
        Msg::DecMode { .. } => 2,
        Msg::DeviceAttrs { .. } => 3,
        Msg::Sgr(_) => 4,
        Msg::KittyImage { .. } => 5,
        Msg::KeyboardLevel(_) | Msg::CsiU { .. } => 6,
        Msg::Mouse { .. } => 7,
        Msg::Color { .. } => 8,
        Msg::FaceReport(_) => 9,
        Msg::TermcapOk { .. } | Msg::TermcapFail { .. } => 10,
        Msg::Size { .. } => 11,
        Msg::Text(_) => 12,
        Msg::Paste(_) => 13,
    }
}

/* ================================================================ the naming table */

const MOD_SHIFT: u64 = 1;
const MOD_ALT: u64 = 2;
const MOD_CTRL: u64 = 4;
const MOD_PRESS: u64 = 256;

// variants of `KeyName` as numbered by `events::key_name_variant`
const K_BACKSPACE: u64 = 0;
const K_CHAR: u64 = 1;
const K_DELETE: u64 = 2;
const K_INSERT: u64 = 3;
const K_DOWN: u64 = 4;
const K_END: u64 = 5;
const K_ENTER: u64 = 6;
const K_ESC: u64 = 7;
const K_F: u64 = 8;
const K_HOME: u64 = 9;
const K_LEFT: u64 = 10;
const K_MOUSE_LEFT: u64 = 11;
const K_MOUSE_MIDDLE: u64 = 12;
const K_MOUSE_MOVE: u64 = 13;
const K_MOUSE_RIGHT: u64 = 14;
const K_WHEEL_DOWN: u64 = 15;
const K_WHEEL_UP: u64 = 16;
const K_PAGE_DOWN: u64 = 17;
const K_PAGE_UP: u64 = 18;
const K_RIGHT: u64 = 19;
const K_TAB: u64 = 20;
const K_UP: u64 = 21;

type KeyRow = (Vec<u8>, (u64, u64, u64));

fn num(v: u64) -> Vec<u8> {
    v.to_string().into_bytes()
}

fn cat(parts: &[&[u8]]) -> Vec<u8> {
    let mut v = Vec::new();
    for p in parts {
        v.extend_from_slice(p);
    }
    v
}

const CSI: &[u8] = b"\x1b[";
const ST: &[u8] = b"\x1b\\";

fn build_proto_keys() -> Vec<KeyRow> {
    let mut t: Vec<KeyRow> = vec![
        (vec![27], (K_ESC, 0, 0)),
        (vec![127], (K_BACKSPACE, 0, 0)),
        (vec![0], (K_CHAR, 32, MOD_CTRL)),
    ];
    // lower case letters: alt+letter `ESC c`, ctrl+letter as the C0 control `c - 96`
    for c in b'a'..=b'z' {
        t.push((vec![27, c], (K_CHAR, c as u64, MOD_ALT)));
        t.push((vec![c - 96], (K_CHAR, c as u64, MOD_CTRL)));
    }
    // upper case letters: alt+shift+letter
    for c in b'A'..=b'Z' {
        t.push((vec![27, c], (K_CHAR, c as u64 + 32, MOD_ALT + MOD_SHIFT)));
    }
    // ASCII punctuation, then digits: alt+character
    let punct = (33u8..48).chain(58..65).chain(91..97).chain(123..127);
    for c in punct {
        t.push((vec![27, c], (K_CHAR, c as u64, MOD_ALT)));
    }
    for c in b'0'..=b'9' {
        t.push((vec![27, c], (K_CHAR, c as u64, MOD_ALT)));
    }
    // `CSI number ~` (VT220 / xterm / rxvt numbering), `CSI number ; 1+mask ~`
    let tilde: [((u64, u64), u64); 20] = [
        ((K_HOME, 0), 1),
        ((K_INSERT, 0), 2),
        ((K_DELETE, 0), 3),
        ((K_END, 0), 4),
        ((K_PAGE_UP, 0), 5),
        ((K_PAGE_DOWN, 0), 6),
        ((K_INSERT, 0), 7),
        ((K_END, 0), 8),
        ((K_F, 1), 11),
        ((K_F, 2), 12),
        ((K_F, 3), 13),
        ((K_F, 4), 14),
        ((K_F, 5), 15),
        ((K_F, 6), 17),
        ((K_F, 7), 18),
        ((K_F, 8), 19),
        ((K_F, 9), 20),
        ((K_F, 10), 21),
        ((K_F, 11), 23),
        ((K_F, 12), 24),
    ];
    for ((v, p), n) in tilde {
        t.push((cat(&[CSI, &num(n), b"~"]), (v, p, 0)));
        for m in 1..=7u64 {
            t.push((cat(&[CSI, &num(n), b";", &num(m + 1), b"~"]), (v, p, m)));
        }
    }
    // `CSI X` / `SS3 X`, `CSI 1 ; 1+mask X`
    let letter: [((u64, u64), u8, u8); 14] = [
        ((K_UP, 0), b'[', b'A'),
        ((K_DOWN, 0), b'[', b'B'),
        ((K_RIGHT, 0), b'[', b'C'),
        ((K_LEFT, 0), b'[', b'D'),
        ((K_END, 0), b'[', b'F'),
        ((K_HOME, 0), b'[', b'H'),
        ((K_F, 1), b'O', b'P'),
        ((K_F, 1), b'[', b'P'),
        ((K_F, 2), b'O', b'Q'),
        ((K_F, 2), b'[', b'Q'),
        ((K_F, 3), b'O', b'R'),
        ((K_F, 3), b'[', b'R'),
        ((K_F, 4), b'O', b'S'),
        ((K_F, 4), b'[', b'S'),
    ];
    for ((v, p), intro, fin) in letter {
        t.push((vec![27, intro, fin], (v, p, 0)));
        for m in 1..=7u64 {
            t.push((cat(&[CSI, b"1;", &num(m + 1), &[fin]]), (v, p, m)));
        }
    }
    t
}

/// every spelling of every key of the naming table, in the order of Lean `protoKeys`
pub fn proto_keys() -> Vec<KeyRow> {
    keys().clone()
}

fn keys() -> &'static Vec<KeyRow> {
    static KEYS: OnceLock<Vec<KeyRow>> = OnceLock::new();
    KEYS.get_or_init(build_proto_keys)
}

/// name of an SGR mouse button code: bits 0–1 button, bit 6 wheel (bits 2–4 modifiers, bit 5 motion)
pub fn button_name(code: u64) -> u64 {
    match (code / 64 % 2, code % 4) {
        (0, 0) => K_MOUSE_LEFT,
        (0, 1) => K_MOUSE_MIDDLE,
        (0, 2) => K_MOUSE_RIGHT,
        (0, _) => K_MOUSE_MOVE,
        (_, 0) => K_WHEEL_DOWN,
        (_, 1) => K_WHEEL_UP,
        (_, _) => K_MOUSE_MOVE,
    }
}

/// name of a kitty `CSI u` key code: C0 names, F13–F35, otherwise the character itself
pub fn csi_u_name(code: u64) -> (u64, u64) {
    match code {
        27 => (K_ESC, 0),
        13 => (K_ENTER, 0),
        9 => (K_TAB, 0),
        127 => (K_BACKSPACE, 0),
        57376..=57398 => (K_F, code - 57376 + 13),
        _ => (K_CHAR, code),
    }
}

/* ================================================================ print */

fn utf8(cp: u32) -> Vec<u8> {
    let cp = cp as u64;
    let v: Vec<u64> = if cp < 0x80 {
        vec![cp]
    } else if cp < 0x800 {
        vec![0xC0 + cp / 64, 0x80 + cp % 64]
    } else if cp < 0x10000 {
        vec![0xE0 + cp / 4096, 0x80 + cp / 64 % 64, 0x80 + cp % 64]
    } else {
        vec![0xF0 + cp / 262144, 0x80 + cp / 4096 % 64, 0x80 + cp / 64 % 64, 0x80 + cp % 64]
    };
    v.into_iter().map(|b| b as u8).collect()
}

/// hexadecimal with exactly `n` digits, lower or upper case
fn hex_fixed_c(upper: bool, n: u32, v: u64) -> Vec<u8> {
    let digits: &[u8; 16] = if upper { b"0123456789ABCDEF" } else { b"0123456789abcdef" };
    let mut out = vec![];
    for i in (0..n).rev() {
        let d = (v >> (4 * i)) & 15;
        out.push(digits[d as usize]);
    }
    out
}

fn hex_fixed(n: u32, v: u64) -> Vec<u8> {
    hex_fixed_c(false, n, v)
}

fn hex_string(upper: bool, s: &[u8]) -> Vec<u8> {
    let digits: &[u8; 16] = if upper { b"0123456789ABCDEF" } else { b"0123456789abcdef" };
    let mut out = vec![];
    for b in s {
        out.push(digits[(b / 16) as usize]);
        out.push(digits[(b % 16) as usize]);
    }
    out
}

fn join_with(sep: u8, parts: &[Vec<u8>]) -> Vec<u8> {
    let mut out = vec![];
    for (i, p) in parts.iter().enumerate() {
        if i > 0 {
            out.push(sep);
        }
        out.extend_from_slice(p);
    }
    out
}

fn color_spec_print(spec: &ColorSpec) -> Vec<u8> {
    match spec {
        ColorSpec::Hash(r, g, b, u) => cat(&[b"#", &hex_fixed_c(*u, 2, *r), &hex_fixed_c(*u, 2, *g), &hex_fixed_c(*u, 2, *b)]),
        ColorSpec::Rgb(r, g, b, u) => cat(&[
            b"rgb:",
            &hex_fixed_c(*u, r.digits, r.value),
            b"/",
            &hex_fixed_c(*u, g.digits, g.value),
            b"/",
            &hex_fixed_c(*u, b.digits, b.value),
        ]),
    }
}

fn role_code(role: u64) -> u64 {
    match role {
        0 => 38,
        1 => 48,
        _ => 58,
    }
}

fn sgr_item_print(it: &SgrItem) -> Vec<u8> {
    match it {
        SgrItem::Reset => b"0".to_vec(),
        SgrItem::Bold(true) => b"1".to_vec(),
        SgrItem::Bold(false) => b"22".to_vec(),
        SgrItem::Italic(true) => b"3".to_vec(),
        SgrItem::Italic(false) => b"23".to_vec(),
        SgrItem::Blink(true) => b"5".to_vec(),
        SgrItem::Blink(false) => b"25".to_vec(),
        SgrItem::Strike(true) => b"9".to_vec(),
        SgrItem::Strike(false) => b"29".to_vec(),
        SgrItem::Underline(0) => b"24".to_vec(),
        SgrItem::Underline(1) => b"4".to_vec(),
        SgrItem::Underline(s) => cat(&[b"4:", &num(*s)]),
        SgrItem::Rgb { role, r, g, b, form } => {
            let (sep, intro): (&[u8], &[u8]) = match form {
                ColorForm::Semi => (b";", b";2;"),
                ColorForm::Colon => (b":", b":2:"),
                ColorForm::ColonSpace => (b":", b":2::"),
            };
            cat(&[&num(role_code(*role)), intro, &num(*r), sep, &num(*g), sep, &num(*b)])
        }
        SgrItem::Palette { role, index, colon: false } => cat(&[&num(role_code(*role)), b";5;", &num(*index)]),
        SgrItem::Palette { role, index, colon: true } => cat(&[&num(role_code(*role)), b":5:", &num(*index)]),
        SgrItem::Named { background: false, index } => num(if *index < 8 { 30 + index } else { 82 + index }),
        SgrItem::Named { background: true, index } => num(if *index < 8 { 40 + index } else { 92 + index }),
        SgrItem::DoubleUnderline => b"21".to_vec(),
        SgrItem::UnderlineColon(s) => cat(&[b"4:", &num(*s)]),
        SgrItem::Empty => vec![],
    }
}

/// the library's 16 named colours (fixed table of the naming side of the property)
const NAMED_COLORS: [(u64, u64, u64); 16] = [
    (0, 0, 0),
    (128, 0, 0),
    (0, 128, 0),
    (128, 128, 0),
    (0, 0, 128),
    (128, 0, 128),
    (0, 128, 128),
    (192, 192, 192),
    (128, 128, 128),
    (255, 0, 0),
    (0, 255, 0),
    (255, 255, 0),
    (0, 0, 255),
    (255, 0, 255),
    (0, 255, 255),
    (255, 255, 255),
];

/// level of one channel of the 6 x 6 x 6 colour cube
const CUBE_LEVELS: [u64; 6] = [0, 95, 135, 175, 215, 255];

/// xterm: 0–15 named colours, 16–231 the colour cube `16 + 36 r + 6 g + b`, 232–255 the grey ramp `8 + 10 i`
pub fn xterm_palette(i: u64) -> (u64, u64, u64) {
    if i < 16 {
        NAMED_COLORS[i as usize]
    } else if i < 232 {
        let k = i - 16;
        (CUBE_LEVELS[(k / 36) as usize], CUBE_LEVELS[(k / 6 % 6) as usize], CUBE_LEVELS[(k % 6) as usize])
    } else {
        let v = 8 + 10 * (i.min(255) - 232);
        (v, v, v)
    }
}

fn sgr_params(items: &[SgrItem]) -> Vec<u8> {
    join_with(b';', &items.iter().map(sgr_item_print).collect::<Vec<_>>())
}

fn osc_number(name: &ColorName) -> Vec<u8> {
    match name {
        ColorName::Foreground => b"10".to_vec(),
        ColorName::Background => b"11".to_vec(),
        ColorName::Palette(i) => cat(&[b"4;", &num(*i)]),
    }
}

/// the bytes of a message, according to the protocol documents
pub fn print(m: &Msg) -> Vec<u8> {
    match m {
        Msg::Key(i) => keys().get(*i).map(|r| r.0.clone()).unwrap_or_default(),
        Msg::Text(c) => utf8(*c),
        Msg::Mouse { code, x, y, press } => {
            cat(&[CSI, b"<", &num(*code), b";", &num(*x), b";", &num(*y), if *press { b"M" } else { b"m" }])
        }
        Msg::Cursor { row, col } => cat(&[CSI, &num(*row), b";", &num(*col), b"R"]),
        Msg::Size { ch, cw, ph, pw } => cat(&[
            CSI, b"8;", &num(*ch), b";", &num(*cw), b"t", CSI, b"4;", &num(*ph), b";", &num(*pw), b"t",
        ]),
        Msg::DecMode { mode_number, status_number } => {
            cat(&[CSI, b"?", &num(*mode_number), b";", &num(*status_number), b"$y"])
        }
        Msg::DeviceAttrs { attrs, trailing } => cat(&[
            CSI,
            b"?",
            &join_with(b';', &attrs.iter().map(|a| num(*a)).collect::<Vec<_>>()),
            if *trailing { b";" } else { b"" },
            b"c",
        ]),
        Msg::Color { name, spec, fin } => cat(&[
            b"\x1b]",
            &osc_number(name),
            b";",
            &color_spec_print(spec),
            match fin {
                OscEnd::St => ST,
                OscEnd::Bel => b"\x07",
            },
        ]),
        Msg::FaceReport(items) => cat(&[b"\x1bP1$r", &sgr_params(items), b"m", ST]),
        Msg::TermcapOk { entries, upper } => cat(&[
            b"\x1bP1+r",
            &join_with(
                b';',
                &entries
                    .iter()
                    .map(|(k, v)| cat(&[&hex_string(*upper, k), b"=", &hex_string(*upper, v)]))
                    .collect::<Vec<_>>(),
            ),
            ST,
        ]),
        Msg::TermcapFail { names, upper } => cat(&[
            b"\x1bP0+r",
            &join_with(b';', &names.iter().map(|n| hex_string(*upper, n)).collect::<Vec<_>>()),
            ST,
        ]),
        Msg::KeyboardLevel(flags) => cat(&[CSI, b"?", &num(*flags), b"u"]),
        Msg::CsiU { code, alts, mods } => {
            let mut codes = vec![num(*code)];
            codes.extend(alts.iter().map(|a| num(*a)));
            let mods = match mods {
                Some(m) => cat(&[b";", &num(m + 1)]),
                None => vec![],
            };
            cat(&[CSI, &join_with(b':', &codes), &mods, b"u"])
        }
        Msg::KittyImage { id, number, placement, error } => cat(&[
            b"\x1b_Gi=",
            &num(*id),
            &match number {
                Some(n) => cat(&[b",I=", &num(*n)]),
                None => vec![],
            },
            &match placement {
                Some(p) => cat(&[b",p=", &num(*p)]),
                None => vec![],
            },
            b";",
            match error {
                Some(msg) => msg,
                None => b"OK",
            },
            ST,
        ]),
        Msg::Paste(text) => cat(&[CSI, b"200~", text, CSI, b"201~"]),
        Msg::Sgr(items) => cat(&[CSI, &sgr_params(items), b"m"]),
    }
}

/* ================================================================ meaning */

#[derive(Clone, Debug, Default, PartialEq, Eq)]
struct FMod {
    reset: bool,
    fg: Option<(u64, u64, u64)>,
    bg: Option<(u64, u64, u64)>,
    underline: Option<u64>,
    underline_color: Option<(u64, u64, u64)>,
    bold: Option<bool>,
    italic: Option<bool>,
    blink: Option<bool>,
    strike: Option<bool>,
}

/// the record of requested changes after the items, left to right (`0` forgets everything before it)
fn sgr_meaning(items: &[SgrItem]) -> FMod {
    let mut m = FMod::default();
    for it in items {
        match it {
            SgrItem::Reset => m = FMod { reset: true, ..FMod::default() },
            SgrItem::Bold(on) => m.bold = Some(*on),
            SgrItem::Italic(on) => m.italic = Some(*on),
            SgrItem::Blink(on) => m.blink = Some(*on),
            SgrItem::Strike(on) => m.strike = Some(*on),
            SgrItem::Underline(s) => m.underline = Some(*s),
            SgrItem::Rgb { role: 0, r, g, b, .. } => m.fg = Some((*r, *g, *b)),
            SgrItem::Rgb { role: 1, r, g, b, .. } => m.bg = Some((*r, *g, *b)),
            SgrItem::Rgb { r, g, b, .. } => m.underline_color = Some((*r, *g, *b)),
            SgrItem::Palette { role: 0, index, .. } => m.fg = Some(xterm_palette(*index)),
            SgrItem::Palette { role: 1, index, .. } => m.bg = Some(xterm_palette(*index)),
            SgrItem::Palette { index, .. } => m.underline_color = Some(xterm_palette(*index)),
            SgrItem::Named { background: false, index } => m.fg = Some(xterm_palette(*index)),
            SgrItem::Named { background: true, index } => m.bg = Some(xterm_palette(*index)),
            SgrItem::DoubleUnderline => m.underline = Some(2),
            SgrItem::UnderlineColon(s) => m.underline = Some(*s),
            SgrItem::Empty => m = FMod { reset: true, ..FMod::default() },
        }
    }
    m
}

fn rgb_tok(c: Option<(u64, u64, u64)>) -> String {
    match c {
        None => "-".into(),
        Some((r, g, b)) => format!("{r},{g},{b},255"),
    }
}
fn tri(v: Option<bool>) -> &'static str {
    match v {
        None => "-",
        Some(true) => "1",
        Some(false) => "0",
    }
}
fn bit(v: bool) -> &'static str {
    if v { "1" } else { "0" }
}

fn sgr_text(m: &FMod) -> String {
    format!(
        "sgr:{}/{}/{}/{}/{}/{}{}{}{}",
        bit(m.reset),
        rgb_tok(m.fg),
        rgb_tok(m.bg),
        m.underline.map(|u| u.to_string()).unwrap_or("-".into()),
        rgb_tok(m.underline_color),
        tri(m.bold),
        tri(m.italic),
        tri(m.blink),
        tri(m.strike)
    )
}

/// SGR semantics of a record of changes on the default rendition
fn face_text(m: &FMod) -> String {
    format!(
        "face:{}/{}/{}/{}{}{}{}{}",
        rgb_tok(m.fg),
        rgb_tok(m.bg),
        m.underline.unwrap_or(0),
        bit(m.bold.unwrap_or(false)),
        bit(m.italic.unwrap_or(false)),
        bit(m.blink.unwrap_or(false)),
        bit(false),
        bit(m.strike.unwrap_or(false))
    )
}

fn hex_or_dash(b: &[u8]) -> String {
    hex(b)
}

/// sorted map, later entry wins
fn termcap_text(entries: &[(Vec<u8>, Option<Vec<u8>>)]) -> String {
    let mut map: BTreeMap<Vec<u8>, Option<Vec<u8>>> = BTreeMap::new();
    for (k, v) in entries {
        map.insert(k.clone(), v.clone());
    }
    if map.is_empty() {
        return "termcap:-".into();
    }
    let items: Vec<String> = map
        .iter()
        .map(|(k, v)| {
            format!("{}={}", hex_or_dash(k), match v {
                None => "!".to_string(),
                Some(v) => hex_or_dash(v),
            })
        })
        .collect();
    format!("termcap:{}", items.join(";"))
}

/// canonical text of the event a message denotes
pub fn meaning(m: &Msg) -> String {
    match m {
        Msg::Key(i) => {
            let (v, p, md) = keys().get(*i).map(|r| r.1).unwrap_or((K_ESC, 0, 0));
            format!("key:{v}.{p}.{md}")
        }
        Msg::Text(c) => format!("key:{K_CHAR}.{c}.0"),
        Msg::Mouse { code, x, y, press } => format!(
            "mouse:{}.0.{}@{},{}",
            button_name(*code),
            code / 4 % 8 + if *press { MOD_PRESS } else { 0 },
            y.saturating_sub(1),
            x.saturating_sub(1)
        ),
        Msg::Cursor { row, col } => format!("cpr:{},{}", row.saturating_sub(1), col.saturating_sub(1)),
        Msg::Size { ch, cw, ph, pw } => format!("size:{ch},{cw},{ph},{pw}"),
        Msg::DecMode { mode_number, status_number } => format!("decmode:{mode_number},{status_number}"),
        Msg::DeviceAttrs { attrs, .. } => {
            let set: BTreeSet<u64> = attrs.iter().copied().collect();
            if set.is_empty() {
                "da:-".into()
            } else {
                format!("da:{}", set.iter().map(|a| a.to_string()).collect::<Vec<_>>().join(","))
            }
        }
        Msg::Color { name, spec, .. } => {
            let name = match name {
                ColorName::Foreground => "fg".to_string(),
                ColorName::Background => "bg".to_string(),
                ColorName::Palette(i) => format!("p{i}"),
            };
            let (r, g, b) = match spec {
                ColorSpec::Hash(r, g, b, _) => (*r, *g, *b),
                ColorSpec::Rgb(r, g, b, _) => (r.byte(), g.byte(), b.byte()),
            };
            format!("color:{name}={r},{g},{b},255")
        }
        Msg::FaceReport(items) => face_text(&sgr_meaning(items)),
        Msg::TermcapOk { entries, .. } => {
            termcap_text(&entries.iter().map(|(k, v)| (k.clone(), Some(v.clone()))).collect::<Vec<_>>())
        }
        Msg::TermcapFail { names, .. } => {
            termcap_text(&names.iter().map(|k| (k.clone(), None)).collect::<Vec<_>>())
        }
        Msg::KeyboardLevel(flags) => format!("kbd:{flags}"),
        Msg::CsiU { code, mods, .. } => {
            let (v, p) = csi_u_name(*code);
            format!("key:{v}.{p}.{}", mods.unwrap_or(0))
        }
        Msg::KittyImage { id, placement, error, .. } => format!(
            "kitty:{id},{},{}",
            placement.map(|p| p.to_string()).unwrap_or("-".into()),
            match error {
                None => "ok".to_string(),
                Some(msg) => format!("e{}", hex(msg)),
            }
        ),
        Msg::Paste(text) => format!("paste:{}", hex(text)),
        Msg::Sgr(items) => sgr_text(&sgr_meaning(items)),
    }
}

/// what the stream oracle expects for one message: its meaning, except for the documented ambiguity
/// `CSI 1 ; n R` (n = 2..8) = F3 with modifiers n-1
pub fn expected_event(m: &Msg) -> String {
    match m {
        Msg::Cursor { row: 1, col } if (2..=8).contains(col) => format!("key:{K_F}.3.{}", col - 1),
        _ => meaning(m),
    }
}

/* ================================================================ wire (request of `proto msg`) */

fn wire_items(items: &[SgrItem]) -> String {
    if items.is_empty() {
        return "-".into();
    }
    let b = |on: &bool| if *on { "1" } else { "0" };
    items
        .iter()
        .map(|it| match it {
            SgrItem::Reset => "reset".to_string(),
            SgrItem::Bold(on) => format!("bold{}", b(on)),
            SgrItem::Italic(on) => format!("italic{}", b(on)),
            SgrItem::Blink(on) => format!("blink{}", b(on)),
            SgrItem::Strike(on) => format!("strike{}", b(on)),
            SgrItem::Underline(s) => format!("ul{s}"),
            SgrItem::Rgb { role, r, g, b, form } => format!(
                "rgb{role}.{r}.{g}.{b}.{}",
                match form {
                    ColorForm::Semi => "s",
                    ColorForm::Colon => "c",
                    ColorForm::ColonSpace => "cs",
                }
            ),
            SgrItem::Palette { role, index, colon } => format!("pal{role}.{index}.{}", if *colon { "c" } else { "s" }),
            SgrItem::Named { background, index } => format!("named{}.{index}", b(background)),
            SgrItem::DoubleUnderline => "ul21".to_string(),
            SgrItem::UnderlineColon(s) => format!("ulc{s}"),
            SgrItem::Empty => "empty".to_string(),
        })
        .collect::<Vec<_>>()
        .join(",")
}

fn wire_list(xs: &[u64]) -> String {
    if xs.is_empty() { "-".into() } else { xs.iter().map(|x| x.to_string()).collect::<Vec<_>>().join(",") }
}

pub fn wire(m: &Msg) -> String {
    let b = |v: bool| if v { 1 } else { 0 };
    let b_ = b;
    match m {
        Msg::Key(i) => format!("key {i}"),
        Msg::Text(c) => format!("text {c}"),
        Msg::Mouse { code, x, y, press } => format!("mouse {code} {x} {y} {}", b(*press)),
        Msg::Cursor { row, col } => format!("cursor {row} {col}"),
        Msg::Size { ch, cw, ph, pw } => format!("size {ch} {cw} {ph} {pw}"),
        Msg::DecMode { mode_number, status_number } => format!("decmode {mode_number} {status_number}"),
        Msg::DeviceAttrs { attrs, trailing } => format!("da {} {}", b(*trailing), wire_list(attrs)),
        Msg::Color { name, spec, fin } => {
            let name = match name {
                ColorName::Foreground => "fg".to_string(),
                ColorName::Background => "bg".to_string(),
                ColorName::Palette(i) => format!("p{i}"),
            };
            let fin = match fin {
                OscEnd::St => "st",
                OscEnd::Bel => "bel",
            };
            match spec {
                ColorSpec::Hash(r, g, b, u) => format!("color {name} {fin} hash {r} {g} {b} {}", b_(*u)),
                ColorSpec::Rgb(r, g, b, u) => format!(
                    "color {name} {fin} rgb {}.{} {}.{} {}.{} {}",
                    r.digits, r.value, g.digits, g.value, b.digits, b.value, b_(*u)
                ),
            }
        }
        Msg::FaceReport(items) => format!("facereport {}", wire_items(items)),
        Msg::Sgr(items) => format!("sgr {}", wire_items(items)),
        Msg::TermcapOk { entries, upper } => format!(
            "tcok {} {}",
            b(*upper),
            if entries.is_empty() {
                "-".to_string()
            } else {
                entries.iter().map(|(k, v)| format!("{}={}", hex(k), hex(v))).collect::<Vec<_>>().join(";")
            }
        ),
        Msg::TermcapFail { names, upper } => format!(
            "tcfail {} {}",
            b(*upper),
            if names.is_empty() { "-".to_string() } else { names.iter().map(|k| hex(k)).collect::<Vec<_>>().join(";") }
        ),
        Msg::KeyboardLevel(flags) => format!("kbd {flags}"),
        Msg::CsiU { code, alts, mods } => {
            format!("csiu {code} {} {}", wire_list(alts), mods.map(|m| m.to_string()).unwrap_or("-".into()))
        }
        Msg::KittyImage { id, number, placement, error } => format!(
            "kitty {id} {} {} {}",
            number.map(|p| p.to_string()).unwrap_or("-".into()),
            placement.map(|p| p.to_string()).unwrap_or("-".into()),
            match error {
                None => "ok".to_string(),
                Some(msg) => format!("e{}", hex(msg)),
            }
        ),
        Msg::Paste(text) => format!("paste {}", hex(text)),
    }
}

/* ================================================================ generators */

const COORDS: [u64; 14] = [1, 2, 9, 10, 99, 100, 255, 256, 999, 1000, 9999, 10000, 65534, 65535];

fn coord(rng: &mut Rng) -> u64 {
    if rng.chance(1, 2) { *rng.pick(&COORDS) } else { rng.range(1, 65535) as u64 }
}

fn size_val(rng: &mut Rng) -> u64 {
    if rng.chance(1, 10) { 0 } else { coord(rng) }
}

fn byte_val(rng: &mut Rng) -> u64 {
    if rng.chance(1, 2) { *rng.pick(&[0u64, 1, 2, 9, 10, 99, 100, 127, 128, 254, 255]) } else { rng.below(256) }
}

fn gen_channel(rng: &mut Rng, digits: u32) -> Channel {
    let max = (1u64 << (4 * digits)) - 1;
    let top = 8u64 << (4 * (digits - 1));
    let value = match rng.below(8) {
        0 => 0,
        1 => 1.min(max),
        2 => max,
        3 => top,
        4 => top - 1,
        5 => max - 1,
        _ => rng.below(max + 1),
    };
    Channel { digits, value }
}

fn gen_color_name(rng: &mut Rng) -> ColorName {
    match rng.below(3) {
        0 => ColorName::Foreground,
        1 => ColorName::Background,
        _ => ColorName::Palette(if rng.chance(1, 3) { *rng.pick(&[0u64, 1, 9, 10, 15, 16, 99, 100, 231, 232, 255]) } else { rng.below(256) }),
    }
}

fn gen_color(rng: &mut Rng) -> Msg {
    let name = gen_color_name(rng);
    let upper = rng.chance(1, 3);
    let spec = if rng.chance(1, 5) {
        ColorSpec::Hash(byte_val(rng), byte_val(rng), byte_val(rng), upper)
    } else {
        let d = 1 + rng.below(4) as u32;
        let same = rng.chance(1, 2);
        let ch = |rng: &mut Rng| {
            let digits = if same { d } else { 1 + rng.below(4) as u32 };
            gen_channel(rng, digits)
        };
        ColorSpec::Rgb(ch(rng), ch(rng), ch(rng), upper)
    };
    let fin = if rng.chance(1, 2) { OscEnd::St } else { OscEnd::Bel };
    Msg::Color { name, spec, fin }
}

fn palette_index(rng: &mut Rng) -> u64 {
    if rng.chance(1, 2) { *rng.pick(&[0u64, 7, 8, 15, 16, 17, 51, 52, 231, 232, 233, 254, 255]) } else { rng.below(256) }
}

fn gen_sgr_item(rng: &mut Rng) -> SgrItem {
    match rng.below(12) {
        0 => SgrItem::Reset,
        1 => SgrItem::Bold(rng.chance(1, 2)),
        2 => SgrItem::Italic(rng.chance(1, 2)),
        3 => SgrItem::Blink(rng.chance(1, 2)),
        4 => SgrItem::Strike(rng.chance(1, 2)),
        5 => SgrItem::Underline(rng.below(6)),
        6 => SgrItem::Palette { role: rng.below(3), index: palette_index(rng), colon: rng.chance(1, 2) },
        7 => SgrItem::Named { background: rng.chance(1, 2), index: rng.below(16) },
        8 => SgrItem::DoubleUnderline,
        9 => SgrItem::UnderlineColon(rng.below(6)),
        10 => SgrItem::Empty,
        _ => SgrItem::Rgb {
            role: rng.below(3),
            r: byte_val(rng),
            g: byte_val(rng),
            b: byte_val(rng),
            form: *rng.pick(&[ColorForm::Semi, ColorForm::Colon, ColorForm::ColonSpace]),
        },
    }
}

fn gen_sgr_items(rng: &mut Rng, min: u64, max: u64) -> Vec<SgrItem> {
    // one sequence in 25 is long: the decoder's buffers spill to the heap above 32 bytes
    let n = if rng.chance(1, 25) { 100 + rng.below(301) } else { min + rng.below(max - min + 1) };
    (0..n).map(|_| gen_sgr_item(rng)).collect()
}

fn is_scalar(c: u64) -> bool {
    c < 0xD800 || (0xE000..0x110000).contains(&c)
}

/// printable scalar: >= 0x20, != 0x7f, not a surrogate
fn gen_text_char(rng: &mut Rng) -> u32 {
    match rng.below(10) {
        0..=4 => 0x20 + rng.below(0x5f) as u32,
        5 | 6 => *rng.pick(&[
            0x20u32, 0x7e, 0x80, 0x9f, 0xa0, 0x7ff, 0x800, 0xffff, 0x10000, 0x10ffff, 0xd7ff, 0xe000, 0xfffd, 0x1f600,
            0x5b, 0x4f, 0x5d, 0x50, 0x5f, 0x30, 0x3b, 0x7e,
        ]),
        _ => loop {
            let c = rng.below(0x110000);
            if is_scalar(c) && c >= 0x20 && c != 0x7f {
                break c as u32;
            }
        },
    }
}

/// valid UTF-8 without ESC, at most `max` bytes: ASCII, newlines, tabs, BEL, NUL, multi-byte characters
fn gen_utf8_text(rng: &mut Rng, max: usize) -> Vec<u8> {
    let target = rng.below(max as u64 + 1) as usize;
    let mut out = vec![];
    loop {
        let c: u32 = match rng.below(12) {
            0..=5 => 0x20 + rng.below(0x5f) as u32,
            6 => *rng.pick(&[b'\n', b'\t', b'\r', 7, 0, 8, 0x7f, 0x1a, 0x1c]) as u32,
            7 => *rng.pick(&[b';', b'=', b',', b'[', b'~', b'\\', b'O', b'K', b':']) as u32,
            8 | 9 => *rng.pick(&[0x80u32, 0xe9, 0x7ff, 0x800, 0x20ac, 0xffff, 0xfffd, 0x10000, 0x1f600, 0x10ffff, 0xd7ff, 0xe000]),
            _ => loop {
                let c = rng.below(0x110000);
                if is_scalar(c) && c != 0x1b {
                    break c as u32;
                }
            },
        };
        let enc = utf8(c);
        if out.len() + enc.len() > target {
            break;
        }
        out.extend(enc);
    }
    out
}

/// long valid UTF-8 without ESC, between `lo` and `hi` bytes: ASCII runs mixed with multi-byte characters
fn gen_long_text(rng: &mut Rng, lo: usize, hi: usize) -> Vec<u8> {
    let target = lo + rng.below((hi - lo + 1) as u64) as usize;
    let mut out = Vec::with_capacity(target + 8);
    while out.len() < target {
        match rng.below(6) {
            0..=2 => {
                // a run of printable ASCII
                let n = 1 + rng.below(200) as usize;
                for _ in 0..n.min(target - out.len()) {
                    out.push(0x20 + rng.below(0x5f) as u8);
                }
            }
            3 => out.extend_from_slice(*rng.pick(&[&b"\n"[..], b"\t", b"\r\n", b"\x07", b"\x00", b"[201~", b";", b"\\"])),
            4 => {
                // a run of one multi-byte character
                let c = *rng.pick(&[0xe9u32, 0x7ff, 0x800, 0x20ac, 0xffff, 0x10000, 0x1f600, 0x10ffff]);
                let enc = utf8(c);
                for _ in 0..1 + rng.below(40) {
                    out.extend_from_slice(&enc);
                }
            }
            _ => {
                let c = loop {
                    let c = rng.below(0x110000);
                    if is_scalar(c) && c != 0x1b {
                        break c as u32;
                    }
                };
                out.extend(utf8(c));
            }
        }
    }
    out
}

fn gen_paste(rng: &mut Rng) -> Msg {
    if rng.chance(1, 25) {
        // 4 KiB – 64 KiB, each octave half as often as the one below (the decoder costs ~50 ns per byte and
        // every stream is decoded three times)
        let lo = (4usize << 10) << [0, 0, 0, 0, 0, 0, 0, 0, 1, 1, 1, 1, 2, 2, 3][rng.below(15) as usize];
        return Msg::Paste(gen_long_text(rng, lo, 2 * lo));
    }
    let mut text = gen_utf8_text(rng, 40);
    if rng.chance(1, 5) {
        // the terminator without its ESC, and friends
        let choices: [&[u8]; 6] = [b"[201~", b"[200~", b"201~", b"[201", b"[A", b"\\"];
        let ins: &[u8] = *rng.pick(&choices);
        let mut at = rng.below(text.len() as u64 + 1) as usize;
        while at < text.len() && (text[at] & 0xC0) == 0x80 {
            at += 1;
        }
        let tail = text.split_off(at);
        text.extend_from_slice(ins);
        text.extend(tail);
    }
    Msg::Paste(text)
}

fn gen_kitty(rng: &mut Rng) -> Msg {
    let id = if rng.chance(2, 3) { *rng.pick(&[1u64, 2, 255, 65535, 4294967295]) } else { rng.below(1 << 32) };
    let placement = if rng.chance(1, 2) {
        None
    } else {
        Some(if rng.chance(1, 2) { *rng.pick(&[0u64, 1, 2, 255, 65535, 4294967295]) } else { rng.below(1 << 32) })
    };
    let number = if rng.chance(1, 3) {
        Some(if rng.chance(1, 2) { *rng.pick(&[0u64, 1, 2, 255, 65535, 4294967295]) } else { rng.below(1 << 32) })
    } else {
        None
    };
    let error = match rng.below(6) {
        _ if rng.chance(1, 25) => Some(gen_long_text(rng, 1 << 10, 4 << 10)),
        0 | 1 => None,
        2 => Some(
            rng.pick(&[
                &b"ENOENT:no such image"[..],
                b"EINVAL:bad; value",
                b"ENOENT:Put command refers to non-existent image with id: 1 and number: 0",
                b"EBADF:\xe2\x82\xac",
                b"OK ",
                b"ok",
                b"O",
                b"OKOK",
                b";OK",
            ])
            .to_vec(),
        ),
        3 => Some(if rng.chance(1, 3) { vec![] } else { gen_utf8_text(rng, 4) }),
        _ => Some(gen_utf8_text(rng, 24)),
    };
    let error = match error {
        Some(e) if e == b"OK" => Some(b"OK!".to_vec()),
        e => e,
    };
    Msg::KittyImage { id, number, placement, error }
}

const TC_NAMES: [&[u8]; 10] = [b"Co", b"TN", b"colors", b"RGB", b"Ms", b"Se", b"Ss", b"kD", b"name", b"Tc"];

fn gen_tc_name(rng: &mut Rng) -> Vec<u8> {
    if rng.chance(1, 2) {
        rng.pick(&TC_NAMES).to_vec()
    } else {
        let n = 1 + rng.below(6);
        (0..n).map(|_| if rng.chance(1, 4) { *rng.pick(&[0u8, 0x1b, 0x7f, 0x80, 0xff, b';', b'=']) } else { rng.below(256) as u8 }).collect()
    }
}

fn gen_tc_value(rng: &mut Rng) -> Vec<u8> {
    if rng.chance(1, 25) {
        let n = 512 + rng.below(1537);
        return (0..n).map(|_| rng.below(256) as u8).collect();
    }
    if rng.chance(1, 3) {
        rng.pick(&[&b"256"[..], b"xterm-kitty", b"8", b"\x1b[%p1%dm", b"\x1b]52;c;%p2%s\x07"]).to_vec()
    } else {
        let n = 1 + rng.below(10);
        (0..n).map(|_| rng.below(256) as u8).collect()
    }
}

fn gen_termcap(rng: &mut Rng) -> Msg {
    let upper = rng.chance(1, 3);
    let mut names: Vec<Vec<u8>> = vec![];
    let pick_name = |rng: &mut Rng, names: &mut Vec<Vec<u8>>| {
        let n = if !names.is_empty() && rng.chance(1, 4) { rng.pick(names).clone() } else { gen_tc_name(rng) };
        names.push(n.clone());
        n
    };
    if rng.chance(1, 2) {
        let n = rng.below(5);
        let entries = (0..n).map(|_| (pick_name(rng, &mut names), gen_tc_value(rng))).collect();
        Msg::TermcapOk { entries, upper }
    } else {
        let n = 1 + rng.below(4);
        let list = (0..n).map(|_| pick_name(rng, &mut names)).collect();
        Msg::TermcapFail { names: list, upper }
    }
}

fn gen_csi_u(rng: &mut Rng) -> Msg {
    let scalar = |rng: &mut Rng| loop {
        let c = rng.below(0x110000);
        if is_scalar(c) && !((57344..=63743).contains(&c) && !(57376..=57398).contains(&c)) {
            break c;
        }
    };
    let code = match rng.below(8) {
        0 => *rng.pick(&[27u64, 13, 9, 127]),
        1 => 57376 + rng.below(23),
        2 | 3 => b'a' as u64 + rng.below(26),
        4 => *rng.pick(&[0u64, 1, 32, 48, 65, 126, 128, 255, 256, 0xd7ff, 57344 + 32, 63744, 0xfffd, 0x10000, 0x10ffff]),
        _ => scalar(rng),
    };
    let alts = (0..rng.below(3)).map(|_| if rng.chance(1, 2) { b'A' as u64 + rng.below(26) } else { scalar(rng) }).collect();
    let mods = match rng.below(4) {
        0 => None,
        1 => Some(0),
        _ => Some(if rng.chance(1, 3) { *rng.pick(&[1u64, 2, 3, 4, 5, 7, 8, 16, 32, 64, 128, 255]) } else { rng.below(256) }),
    };
    Msg::CsiU { code, alts, mods }
}

fn gen_family(rng: &mut Rng, fam: usize) -> Msg {
    match fam {
        0 => Msg::Key(rng.below(keys().len() as u64) as usize),
        1 => {
            if rng.chance(1, 8) {
                // around the documented F3 overlap
                Msg::Cursor { row: 1, col: 1 + rng.below(9) }
            } else {
                Msg::Cursor { row: coord(rng), col: coord(rng) }
            }
        }
        2 => Msg::DecMode {
            mode_number: *rng.pick(&[25u64, 7, 80, 1000, 1003, 1006, 1049, 2026, 2004]),
            status_number: rng.below(5),
        },
        3 => {
            let n = 1 + rng.below(8);
            let attrs = (0..n)
                .map(|_| if rng.chance(1, 2) { *rng.pick(&[1u64, 4, 22, 62, 64, 999]) } else { 1 + rng.below(999) })
                .collect();
            Msg::DeviceAttrs { attrs, trailing: rng.chance(1, 4) }
        }
        4 => Msg::Sgr(gen_sgr_items(rng, 1, 6)),
        5 => gen_kitty(rng),
        6 => {
            if rng.chance(1, 2) {
                let flags = match rng.below(6) {
                    0 => *rng.pick(&[0u64, 1, 5, 15, 31, 255, 65535, 4294967295, 4294967296, u64::MAX]),
                    _ => rng.below(32),
                };
                Msg::KeyboardLevel(flags)
            } else {
                gen_csi_u(rng)
            }
        }
        7 => {
            let code = if rng.chance(7, 8) { rng.below(128) } else { 128 + rng.below(128) };
            Msg::Mouse { code, x: coord(rng), y: coord(rng), press: rng.chance(1, 2) }
        }
        8 => gen_color(rng),
        9 => Msg::FaceReport(gen_sgr_items(rng, 0, 6)),
        10 => gen_termcap(rng),
        11 => Msg::Size { ch: size_val(rng), cw: size_val(rng), ph: size_val(rng), pw: size_val(rng) },
        12 => Msg::Text(gen_text_char(rng)),
        _ => gen_paste(rng),
    }
}

/// the family uniformly among the 14, then the constructor, then parameters with boundaries over-weighted
pub fn gen_msg(rng: &mut Rng) -> Msg {
    let fam = rng.below(14) as usize;
    gen_family(rng, fam)
}

/* ================================================================ the dumped automaton */

type EvState = VerifDfaState<TerminalEvent>;

/// number of a tag in the model's numbering (key code, `MATCHER_BASE + i`; an item that is not a key has none)
fn tag_num(t: &VerifTag<TerminalEvent>) -> u64 {
    match t {
        VerifTag::Item(TerminalEvent::Key(k)) => events::key_code(k),
        VerifTag::Item(_) => u64::MAX,
        VerifTag::Matcher(i) => events::MATCHER_BASE + *i as u64,
    }
}

struct Dfa {
    states: Vec<EvState>,
    trans: Vec<[u32; 256]>,
}

const NO: u32 = u32::MAX;

impl Dfa {
    fn new(states: Vec<EvState>) -> Dfa {
        let trans = states
            .iter()
            .map(|s| {
                let mut row = [NO; 256];
                for (b, t) in &s.edges {
                    row[*b as usize] = *t as u32;
                }
                row
            })
            .collect();
        Dfa { states, trans }
    }
    fn run(&self, bytes: &[u8]) -> Option<usize> {
        let mut s = 0usize;
        if self.states.is_empty() {
            return None;
        }
        for b in bytes {
            let t = self.trans[s][*b as usize];
            if t == NO {
                return None;
            }
            s = t as usize;
        }
        Some(s)
    }
    /// a shortest word leading to every state
    fn words(&self) -> Vec<Vec<u8>> {
        let n = self.states.len();
        let mut word: Vec<Option<Vec<u8>>> = vec![None; n];
        if n == 0 {
            return vec![];
        }
        word[0] = Some(vec![]);
        let mut queue = std::collections::VecDeque::from([0usize]);
        while let Some(s) = queue.pop_front() {
            let w = word[s].clone().unwrap();
            for (b, t) in &self.states[s].edges {
                if word[*t].is_none() {
                    let mut w2 = w.clone();
                    w2.push(*b);
                    word[*t] = Some(w2);
                    queue.push_back(*t);
                }
            }
        }
        word.into_iter().map(|w| w.unwrap_or_default()).collect()
    }
}

/* ================================================================ decoding with the real decoder */

/// a partition of `len` bytes into consecutive reads, as the list of their lengths
fn partition(rng: &mut Rng, len: usize, mode: u64) -> Vec<usize> {
    match mode {
        0 => vec![len],
        1 if len == 0 => vec![0],
        1 => vec![1; len],
        _ => {
            // arbitrary cuts, empty reads allowed
            let mut out = Vec::new();
            let mut pos = 0;
            while pos < len {
                if rng.chance(1, 6) {
                    out.push(0);
                }
                let span = 1 + rng.below(8);
                let n = 1 + rng.below(span) as usize;
                let end = (pos + n).min(len);
                out.push(end - pos);
                pos = end;
            }
            if rng.chance(1, 4) {
                out.push(0);
            }
            if out.is_empty() {
                out.push(0);
            }
            out
        }
    }
}

fn chunks_of<'a>(stream: &'a [u8], lens: &[usize]) -> Vec<&'a [u8]> {
    let mut pos = 0;
    let mut out = Vec::with_capacity(lens.len());
    for n in lens {
        let end = (pos + n).min(stream.len());
        out.push(&stream[pos..end]);
        pos = end;
    }
    out
}

/// canonical texts of the events of a fresh `TTYEventDecoder` fed the chunks one read at a time
fn decode_chunks(chunks: &[Vec<u8>]) -> Vec<String> {
    decode_reads(&chunks.iter().map(|c| &c[..]).collect::<Vec<_>>())
}

/// canonical texts of the events of a fresh `TTYEventDecoder` fed one slice per read
fn decode_reads(chunks: &[&[u8]]) -> Vec<String> {
    let mut dec = TTYEventDecoder::new();
    decode_reads_on(&mut dec, chunks, 0)
}

/// The ways the bytes of a read reach the decoder:
/// 0 `Decoder::decode_into` over a `Cursor` (one call per read);
/// 1 repeated `Decoder::decode` over a `Cursor` until it reports `None` — what `UnixTerminal::poll` does;
/// 2 the reads written into the crate's own `IOQueue` (one chunk per read) used as the `BufRead`, `decode`
///   repeated until the queue is drained — `fill_buf` then only ever offers the front chunk.
const PATHS: [&str; 3] = ["decode_into/Cursor", "decode/Cursor", "decode/IOQueue"];

fn decode_reads_on(dec: &mut TTYEventDecoder, chunks: &[&[u8]], path: usize) -> Vec<String> {
    let mut out = Vec::new();
    if path == 2 {
        use std::io::Write;
        let r = guarded(|| {
            let mut queue = surf_n_term::common::IOQueue::new();
            let mut total = 0usize;
            for chunk in chunks {
                if !chunk.is_empty() {
                    queue.write_all(chunk).unwrap();
                    queue.flush().unwrap();
                    total += chunk.len();
                }
            }
            let mut evs = Vec::new();
            // every call consumes at least one byte or drops an empty chunk: bounded
            for _ in 0..(2 * total + 2 * chunks.len() + 4) {
                let before = (queue.len(), queue.chunks_count());
                match dec.decode(&mut queue) {
                    Ok(Some(e)) => evs.push(show_event(&e)),
                    Ok(None) => {
                        if queue.len() == 0 {
                            return (evs, "");
                        }
                        if (queue.len(), queue.chunks_count()) == before {
                            return (evs, "STUCK");
                        }
                    }
                    Err(_) => return (evs, "ERROR"),
                }
            }
            (evs, "UNCONSUMED")
        });
        match r {
            Ok((evs, note)) => {
                out.extend(evs);
                if !note.is_empty() {
                    out.push(note.into());
                }
            }
            Err(()) => out.push("PANIC".into()),
        }
        return out;
    }
    let mut items = Vec::new();
    for chunk in chunks {
        let r = guarded(|| {
            let mut cur = Cursor::new(*chunk);
            let ok = if path == 0 {
                dec.decode_into(&mut cur, &mut items).is_ok()
            } else {
                loop {
                    match dec.decode(&mut cur) {
                        Ok(Some(e)) => items.push(e),
                        Ok(None) => break true,
                        Err(_) => break false,
                    }
                }
            };
            (ok, cur.position() as usize)
        });
        out.extend(items.drain(..).map(|e| show_event(&e)));
        match r {
            Ok((true, pos)) if pos == chunk.len() => {}
            Ok((true, _)) => out.push("UNCONSUMED".into()),
            Ok((false, _)) => out.push("ERROR".into()),
            Err(()) => {
                out.push("PANIC".into());
                return out;
            }
        }
    }
    out
}

fn unhex(s: &str) -> Vec<u8> {
    if s == "-" {
        return vec![];
    }
    let b = s.as_bytes();
    (0..b.len() / 2).filter_map(|i| u8::from_str_radix(std::str::from_utf8(&b[2 * i..2 * i + 2]).ok()?, 16).ok()).collect()
}

fn fnv(s: &str) -> u64 {
    let mut h = 0xcbf29ce484222325u64;
    for b in s.bytes() {
        h ^= b as u64;
        h = h.wrapping_mul(0x100000001b3);
    }
    h
}

/* ================================================================ context */

/// The documented prefix keys: the only spellings of the naming table that are proper prefixes of other
/// sequences (`ESC` of everything, `ESC [` of CSI, `ESC ]` of OSC, `ESC _` of APC, `ESC O` of SS3, `ESC P` of
/// DCS). They merge with following printable input.
fn prefix_keys() -> Vec<KeyRow> {
    vec![
        (vec![27], (K_ESC, 0, 0)),
        (vec![27, b'['], (K_CHAR, b'[' as u64, MOD_ALT)),
        (vec![27, b']'], (K_CHAR, b']' as u64, MOD_ALT)),
        (vec![27, b'_'], (K_CHAR, b'_' as u64, MOD_ALT)),
        (vec![27, b'O'], (K_CHAR, b'o' as u64, MOD_ALT + MOD_SHIFT)),
        (vec![27, b'P'], (K_CHAR, b'p' as u64, MOD_ALT + MOD_SHIFT)),
    ]
}

/// `events::key_code` of a key given as (variant, payload, mode bits)
fn code_of(k: (u64, u64, u64)) -> u64 {
    // the arithmetic of `SurfModel.Grammar.keyCode3`, from the raw numbers (no `KeyMod::from_bits`, no `Key`)
    (k.0 * 4294967296 + k.1) * 512 + k.2
}

/// tokens above this size get no `pay decode` / `proto msg` / `gram match` lines
const MAX_LINE_TOKEN: usize = 70 << 10;
/// tokens above this size count against `Ctx::long_budget`; streams above it get no `sd stream` line
const LONG_TOKEN: usize = 8 << 10;
/// `gram match` lines: the verified matcher of the Lean side (`Re.matchB`, derivatives) costs about n^3 (0.15 s at
/// 500 bytes, 13 s at 2000 bytes), so only tokens up to `MATCH_TOKEN` bytes are sent, and tokens between
/// `MATCH_FREE` and `MATCH_TOKEN` only while `Ctx::match_budget` lasts. The Rust oracle applies
/// `matcher_matches` to EVERY printed message regardless.
const MATCH_FREE: usize = 256;
const MATCH_TOKEN: usize = 600;
const MID_STREAM: usize = 1 << 10;

struct Ctx {
    /// one decoder object used for stream after stream
    shared: TTYEventDecoder,
    /// the stream the shared decoder decoded last
    shared_history: Vec<u8>,
    dfa: Dfa,
    /// indices into `proto_keys()` of the documented prefix keys
    nonterminal: HashSet<usize>,
    /// remaining number of tokens above `LONG_TOKEN` that still get lines (each is 16–140 KB of hex)
    long_budget: u64,
    /// remaining number of streams above `MID_STREAM` that still get an `sd stream` line (the Lean tokenizer
    /// model is quadratic in the token length: ~20 ms per line at 4 KiB)
    long_stream_budget: u64,
    /// remaining number of `gram match` lines for tokens between `MATCH_FREE` and `MATCH_TOKEN` bytes
    match_budget: u64,
    seen: HashSet<u64>,
    /// remaining budget of `pay decode` / `proto msg` lines
    budget: u64,
    streams: u64,
    samples: u64,
    /// remaining budget of `sd stream` lines (composed model of the decoder on whole streams)
    stream_budget: u64,
}

impl Ctx {
    fn new(cfg: &Cfg) -> Ctx {
        let dfa = Dfa::new(verif_c04::event_dfa());
        let prefix: Vec<Vec<u8>> = prefix_keys().into_iter().map(|r| r.0).collect();
        let nonterminal = keys().iter().enumerate().filter(|(_, r)| prefix.contains(&r.0)).map(|(i, _)| i).collect();
        Ctx { shared: TTYEventDecoder::new(), shared_history: vec![], dfa, nonterminal, long_budget: if cfg.thorough { 200 } else { 40 }, long_stream_budget: if cfg.thorough { 500 } else { 80 }, match_budget: if cfg.thorough { 100 } else { 20 }, seen: HashSet::new(), budget: if cfg.thorough { 900_000 } else { 260_000 }, streams: 0, samples: 0, stream_budget: if cfg.thorough { 150_000 } else { 15_000 } }
    }
    fn is_nonterminal(&self, m: &Msg) -> bool {
        matches!(m, Msg::Key(i) if self.nonterminal.contains(i))
    }
    /// a capped, de-duplicated correspondence line
    fn corr(&mut self, out: &mut Out, request: String, answer: impl FnOnce() -> String) {
        if self.budget == 0 || !self.seen.insert(fnv(&request)) {
            return;
        }
        self.budget -= 1;
        let a = answer();
        out.corr(&request, &a);
    }
    /// may a `gram match` line be sent for a token of this size?
    fn match_line_ok(&mut self, len: usize) -> bool {
        if len <= MATCH_FREE {
            return true;
        }
        if len > MATCH_TOKEN || self.match_budget == 0 {
            return false;
        }
        self.match_budget -= 1;
        true
    }
    /// a capped, de-duplicated oracle line
    fn oracle(&mut self, out: &mut Out, request: String, answer: impl FnOnce() -> String) {
        if self.budget == 0 || !self.seen.insert(fnv(&request)) {
            return;
        }
        self.budget -= 1;
        let a = answer();
        out.oracle(&request, &a);
    }
}

/// Is the colour text outside the part of the colour parser the model covers (the model answers `ext`)?
/// `events::color_external`, restricted like `SurfModel.Payload.rasterParse` to names that start with a
/// lower case letter (`#…/alpha` forms start with `#`): texts such as `7` or `-b` are not names, the model
/// and the implementation both reject them.
fn color_ext(text: &[u8]) -> bool {
    let body = match text.iter().rposition(|b| *b == b'/') {
        None => text,
        Some(i) => &text[..i],
    };
    events::color_external(text) && body.first().map(|b| *b == b'#' || b.is_ascii_lowercase()).unwrap_or(false)
}

/// answer of the real payload decoder of family `k` on a token
fn real_decode(k: usize, bytes: &[u8]) -> String {
    if k == 8 && guarded(|| events::osc_color_field(bytes).map(color_ext).unwrap_or(false)).unwrap_or(false) {
        return "ext".into();
    }
    show_result(guarded(|| verif_c04::matcher_decode(k, bytes)).map(|o| o.map(|e| show_event(&e))))
}

/// one mutation of a token (the result need not match the grammar)
fn mutate(rng: &mut Rng, tok: &[u8]) -> Vec<u8> {
    for _ in 0..6 {
        let mut t = tok.to_vec();
        match rng.below(8) {
            kind @ 0..=2 => {
                // a numeric parameter becomes 0 / 20+ digits / nothing
                let mut runs = vec![];
                let mut i = 2;
                while i < t.len() {
                    if t[i].is_ascii_digit() {
                        let s = i;
                        while i < t.len() && t[i].is_ascii_digit() {
                            i += 1;
                        }
                        runs.push((s, i));
                    } else {
                        i += 1;
                    }
                }
                if runs.is_empty() {
                    continue;
                }
                let (s, e) = *rng.pick(&runs);
                let rep: Vec<u8> = match kind {
                    0 => b"0".to_vec(),
                    1 => {
                        let n = 20 + rng.below(6);
                        (0..n).map(|i| if i == 0 { b'1' + rng.below(9) as u8 } else { b'0' + rng.below(10) as u8 }).collect()
                    }
                    _ => vec![],
                };
                t.splice(s..e, rep);
            }
            3 => {
                if t.len() >= 3 {
                    t.remove(t.len() - 2);
                }
            }
            4 => {
                let pos: Vec<usize> = (0..t.len()).filter(|i| t[*i] == b';').collect();
                if pos.is_empty() {
                    continue;
                }
                let p = *rng.pick(&pos);
                t.insert(p, b';');
            }
            5 => {
                if t.len() < 4 {
                    continue;
                }
                let p = 2 + rng.below(t.len() as u64 - 3) as usize;
                let mut b = rng.below(128) as u8;
                if b == 0x1b {
                    b = b'?';
                }
                t[p] = b;
            }
            6 => {
                if t.len() < 4 {
                    continue;
                }
                let n = 2 + rng.below(t.len() as u64 - 2) as usize;
                t.truncate(n);
            }
            _ => {
                let pos: Vec<usize> = (0..t.len()).filter(|i| t[*i] == b'=').collect();
                if pos.is_empty() {
                    continue;
                }
                let p = *rng.pick(&pos);
                t.remove(p);
            }
        }
        if t != tok {
            return t;
        }
    }
    tok[..tok.len().min(2)].to_vec()
}

/// correspondence lines of one generated message
fn msg_lines(ctx: &mut Ctx, out: &mut Out, rng: &mut Rng, m: &Msg) {
    let k = family(m);
    let bytes = print(m);
    // the production grammar of the family, compiled on its own, must accept every printed message
    // (checked on every message, also beyond the budget of lines)
    let accepted = guarded(|| verif_c04::matcher_matches(k, &bytes)).unwrap_or(false);
    if !accepted {
        out.fail(
            WHAT_GRAMMAR,
            json!({"kind": "grammar", "family": k, "stream": hex(&bytes), "msgs": [wire(m)], "expected": [expected_event(m)]}),
            json!("accepted"),
            json!("rejected"),
        );
    }
    if ctx.budget == 0 || bytes.len() > MAX_LINE_TOKEN {
        return;
    }
    if bytes.len() > LONG_TOKEN {
        if ctx.long_budget == 0 {
            return;
        }
        ctx.long_budget -= 1;
        out.hist("tie:long-token");
    }
    ctx.corr(out, format!("proto msg {}", wire(m)), || format!("{} {}", hex(&bytes), meaning(m)));
    if ctx.match_line_ok(bytes.len()) {
        ctx.oracle(out, format!("gram match {k} {}", hex(&bytes)), || bit(accepted).to_string());
    }
    if k != 0 {
        ctx.corr(out, format!("pay decode {k} {}", hex(&bytes)), || real_decode(k, &bytes));
    }
    if k != 12 && rng.chance(1, 4) {
        let t = mutate(rng, &bytes);
        if k != 0 {
            ctx.corr(out, format!("pay decode {k} {}", hex(&t)), || real_decode(k, &t));
        }
        if ctx.match_line_ok(t.len()) {
            ctx.oracle(out, format!("gram match {k} {}", hex(&t)), || match guarded(|| verif_c04::matcher_matches(k, &t)) {
                Ok(v) => bit(v).to_string(),
                Err(()) => "panic".to_string(),
            });
        }
        out.hist("tie:mutated-token");
    }
}

/* ================================================================ one stream */

const WHAT_STREAM: &str = "decoded events differ from the events the stream encodes";
const WHAT_CUT: &str = "decoded events depend on how the stream is cut into reads";
const WHAT_GRAMMAR: &str = "the production grammar rejects a well-formed sequence";

fn chunks_json(stream: &[u8], lens: &[usize]) -> Value {
    json!(chunks_of(stream, lens).iter().map(|c| hex(c)).collect::<Vec<_>>())
}

/// What a stream must decode to: `events`, optionally followed by `tail` — the event of a prefix key that
/// ends the stream (the property does not say whether such a key is delivered before more input arrives).
#[derive(Clone, Debug)]
struct Expect {
    events: Vec<String>,
    tail: Option<String>,
}

impl Expect {
    fn exact(events: Vec<String>) -> Expect {
        Expect { events, tail: None }
    }
    fn admits(&self, got: &[String]) -> bool {
        got == &self.events[..]
            || match &self.tail {
                Some(t) => got.len() == self.events.len() + 1 && got[..self.events.len()] == self.events[..] && got[self.events.len()] == *t,
                None => false,
            }
    }
    fn json(&self) -> Value {
        match &self.tail {
            None => json!(self.events),
            Some(t) => json!({"events": self.events, "optionally_then": t}),
        }
    }
}

/// decode `stream` under the partitions and compare with `expected`; returns `true` when all agree
/// `all_paths`: every partition through every way of feeding the decoder (replay); otherwise partition `i`
/// goes through path `i % 3`
fn check_stream(out: &mut Out, stream: &[u8], wires: &[String], expected: &Expect, parts: &[Vec<usize>], all_paths: bool) -> bool {
    let mut ok = true;
    let mut first: Option<Vec<String>> = None;
    let mut cut_reported = false;
    let input = |lens: &[usize], path: usize| {
        json!({"stream": hex(stream), "msgs": wires, "partition": chunks_json(stream, lens), "expected": expected.events,
               "optional_tail": expected.tail, "path": PATHS[path]})
    };
    for (i, lens) in parts.iter().enumerate() {
        let paths: Vec<usize> = if all_paths { vec![0, 1, 2] } else { vec![i % 3] };
        for path in paths {
            let mut dec = TTYEventDecoder::new();
            let got = decode_reads_on(&mut dec, &chunks_of(stream, lens), path);
            if !expected.admits(&got) {
                ok = false;
                out.fail(WHAT_STREAM, input(lens, path), expected.json(), json!(got));
            }
            match &first {
                None => first = Some(got),
                Some(f) => {
                    if *f != got && !cut_reported {
                        cut_reported = true;
                        ok = false;
                        out.fail(WHAT_CUT, input(lens, path), json!(f), json!(got));
                    }
                }
            }
        }
    }
    ok
}

const WHAT_HISTORY: &str = "decoded events depend on what the same decoder decoded before";

/// One decoder object for the whole run (state carried between calls): a stream that leaves nothing pending
/// must decode on it exactly as on a fresh decoder. After a failure (or a stream that may leave bytes pending)
/// the object is replaced.
fn check_long_lived(ctx: &mut Ctx, out: &mut Out, stream: &[u8], wires: &[String], expected: &Expect) {
    if expected.tail.is_some() {
        ctx.shared = TTYEventDecoder::new();
        ctx.shared_history = vec![];
        return;
    }
    let lens = vec![stream.len()];
    let got = decode_reads_on(&mut ctx.shared, &chunks_of(stream, &lens), 1);
    if got != expected.events {
        out.fail(
            WHAT_HISTORY,
            json!({"stream": hex(stream), "msgs": wires, "expected": expected.events, "history": hex(&ctx.shared_history), "kind": "history"}),
            expected.json(),
            json!(got),
        );
        ctx.shared = TTYEventDecoder::new();
        ctx.shared_history = vec![];
    } else {
        ctx.shared_history = stream.to_vec();
    }
}

fn events_text(evs: &[String]) -> String {
    if evs.is_empty() { "-".to_string() } else { evs.join(" ") }
}

/// could the stream contain an OSC token whose colour text the model does not cover (`ext`)? Every OSC token
/// starts at some `ESC ]` and ends at the first BEL or `ESC \` after it.
fn may_be_external(stream: &[u8]) -> bool {
    for i in 0..stream.len().saturating_sub(1) {
        if stream[i] == 0x1b && stream[i + 1] == b']' {
            let mut j = i + 2;
            while j < stream.len() && stream[j] != 7 && stream[j] != 0x1b {
                j += 1;
            }
            if j < stream.len() {
                let end = if stream[j] == 7 { j + 1 } else { (j + 2).min(stream.len()) };
                if guarded(|| events::osc_color_field(&stream[i..end]).map(color_ext).unwrap_or(false)).unwrap_or(true) {
                    return true;
                }
            }
        }
    }
    false
}

/// correspondence of the COMPOSED model (tokenizer over the installed dumped table, tag selection, payload
/// decoders: `SurfModel.Stream.decodeEvents`) with the real decoder on the whole stream and, one time in
/// four, on a damaged copy (the model must follow the implementation on any bytes)
fn stream_lines(ctx: &mut Ctx, out: &mut Out, rng: &mut Rng, stream: &[u8]) {
    // the Lean tokenizer model is quadratic in the token length: short streams only
    if ctx.stream_budget == 0 || stream.is_empty() || stream.len() > LONG_TOKEN {
        return;
    }
    if stream.len() > MID_STREAM {
        if ctx.long_stream_budget == 0 {
            return;
        }
        ctx.long_stream_budget -= 1;
    }
    ctx.stream_budget -= 1;
    out.corr(&format!("sd stream {}", hex(stream)), &events_text(&decode_chunks(&[stream.to_vec()])));
    out.hist("tie:composed-stream");
    if rng.chance(1, 4) {
        let mut g = stream.to_vec();
        let i = rng.below(g.len() as u64) as usize;
        match rng.below(4) {
            0 => g[i] = rng.below(0x80) as u8,
            1 => {
                g.remove(i);
            }
            2 => g.insert(i, rng.below(0x80) as u8),
            _ => g.truncate(i + 1),
        }
        if !g.is_empty() && !may_be_external(&g) {
            out.corr(&format!("sd stream {}", hex(&g)), &events_text(&decode_chunks(&[g.clone()])));
            out.hist("tie:composed-stream-damaged");
        }
    }
}

/// a stream of messages: oracle under three partitions, statistics, correspondence lines
fn run_case(ctx: &mut Ctx, out: &mut Out, rng: &mut Rng, msgs: &[Msg], expected_override: Option<Expect>) {
    let mut stream = vec![];
    for m in msgs {
        stream.extend(print(m));
    }
    let expected_override_none = expected_override.is_none();
    let expected = expected_override.unwrap_or_else(|| match msgs.split_last() {
        // a prefix key at the end of the stream may or may not be delivered
        Some((last, init)) if ctx.is_nonterminal(last) => {
            Expect { events: init.iter().map(expected_event).collect(), tail: Some(expected_event(last)) }
        }
        _ => Expect::exact(msgs.iter().map(expected_event).collect()),
    });
    let wires: Vec<String> = msgs.iter().map(wire).collect();
    let parts = vec![partition(rng, stream.len(), 0), partition(rng, stream.len(), 1), partition(rng, stream.len(), 2)];
    let exact = expected_override_none;
    check_stream(out, &stream, &wires, &expected, &parts, false);
    if exact {
        check_long_lived(ctx, out, &stream, &wires, &expected);
    } else {
        ctx.shared = TTYEventDecoder::new();
        ctx.shared_history = vec![];
    }
    stream_lines(ctx, out, rng, &stream);
    let nontrivial = msgs.iter().any(|m| !matches!(family(m), 0 | 12));
    out.case(&hex(&stream), nontrivial);
    out.hist(&format!("len:{}", msgs.len().min(13)));
    out.hist(match stream.len() {
        0..=32 => "bytes:0-32",
        33..=128 => "bytes:33-128",
        129..=1024 => "bytes:129-1024",
        1025..=8192 => "bytes:1025-8192",
        _ => "bytes:8193-",
    });
    for m in msgs {
        out.hist(&format!("family:{}", FAMILY_NAMES[family(m)]));
        msg_lines(ctx, out, rng, m);
    }
    ctx.streams += 1;
    if ctx.samples < 12 && msgs.len() >= 2 && nontrivial && stream.len() < 300 && ctx.streams % 97 == 5 {
        ctx.samples += 1;
        out.sample(json!({"stream": hex(&stream), "msgs": wires, "events": expected.json()}));
    }
}

/// may this message follow a key whose bytes are a proper prefix of other sequences?
fn starts_safe(m: &Msg) -> bool {
    match print(m).first() {
        Some(b) => *b == 0x1b || *b >= 0x80 || *b < 0x20,
        None => false,
    }
}

/// A prefix key followed by text that keeps its sequence alive for a few more bytes and then cannot complete it
/// (`CSI` parameters followed by a byte that is no final byte of any sequence the library knows; `ESC P 1 x`;
/// `ESC _ G x !`): the documented resolution is the key, then the text in order. Exercises the re-parsing of
/// read-ahead bytes.
fn read_ahead_block(rng: &mut Rng) -> Vec<Msg> {
    let text = |s: &str| s.chars().map(|c| Msg::Text(c as u32)).collect::<Vec<_>>();
    let mut block;
    match rng.below(4) {
        0 | 1 => {
            block = vec![Msg::Key(key_index(b"\x1b["))];
            let n = 1 + rng.below(8);
            let mut params = String::new();
            for _ in 0..n {
                params.push(*rng.pick(&['0', '1', '2', '5', '9', ';', ';']));
            }
            // introducers of the parsed CSI families keep more grammars alive
            if rng.chance(1, 3) {
                params.insert(0, *rng.pick(&['?', '<']));
            }
            block.extend(text(&params));
            block.extend(text(&rng.pick(&['>', '!', 'a', 'z', ' ', '@', 'x', '"']).to_string()));
        }
        2 => {
            block = vec![Msg::Key(key_index(b"\x1bP"))];
            let t: &str = *rng.pick(&["1x", "0!", "1$x", "1+rzz", "0+r4g", "1+r4a=!"]);
            block.extend(text(t));
        }
        _ => {
            block = vec![Msg::Key(key_index(b"\x1b_"))];
            let t: &str = *rng.pick(&["Gx!", "Gi=1!", "Gi=12,p!", "G!"]);
            block.extend(text(t));
        }
    }
    block
}

fn gen_stream(ctx: &Ctx, rng: &mut Rng) -> Vec<Msg> {
    if rng.chance(1, 25) {
        let mut msgs = vec![];
        if rng.chance(1, 2) {
            msgs.push(gen_msg_not_prefix(ctx, rng));
        }
        msgs.extend(read_ahead_block(rng));
        // what follows must not be printable text that could still be merged: a report or key starting with ESC
        msgs.push(Msg::Cursor { row: 10 + rng.below(20), col: 20 + rng.below(50) });
        return msgs;
    }
    let n = 1 + rng.below(12) as usize;
    // one stream in ten is mostly text, so that reports sit between runs of plain characters
    let texty = rng.chance(1, 10);
    let mut msgs: Vec<Msg> = vec![];
    while msgs.len() < n {
        // a prefix key merges with following printable input: what follows it starts another way
        let after_prefix_key = msgs.last().map(|m| ctx.is_nonterminal(m)).unwrap_or(false);
        let m = loop {
            let m = if texty && rng.chance(1, 2) { gen_family(rng, 12) } else { gen_msg(rng) };
            if !after_prefix_key || starts_safe(&m) {
                break m;
            }
        };
        msgs.push(m);
    }
    msgs
}

fn gen_msg_not_prefix(ctx: &Ctx, rng: &mut Rng) -> Msg {
    loop {
        let m = gen_msg(rng);
        if !ctx.is_nonterminal(&m) {
            return m;
        }
    }
}

/* ================================================================ key table tie */

const WHAT_TABLE_DFA: &str = "literal key paths of the event automaton differ from the literal key table";
const WHAT_TABLE_NAMES: &str = "literal key table differs from the naming table";
const WHAT_TABLE_TAGS: &str = "a literal key state of the event automaton carries other tags";

fn key_text(code: (u64, u64, u64)) -> String {
    format!("key:{}.{}.{}", code.0, code.1, code.2)
}

fn table_rows() -> Vec<(Vec<u8>, Option<(u64, u64, u64)>, u64)> {
    verif_c04::key_table()
        .into_iter()
        .map(|(bytes, ev)| match ev {
            TerminalEvent::Key(k) => {
                let (v, p) = events::key_name_variant(k.name);
                (bytes, Some((v, p, events::mod_bits(k.mode))), events::key_code(&k))
            }
            _ => (bytes, None, u64::MAX),
        })
        .collect()
}

fn key_tie(ctx: &Ctx, out: &mut Out) {
    let dfa = &ctx.dfa;
    let n = dfa.states.len();
    let is_item = |s: usize| dfa.states[s].accepting && matches!(dfa.states[s].tags.first(), Some(VerifTag::Item(_)));
    // (i) all words accepted in a state whose least tag is an item
    let mut rev: Vec<Vec<usize>> = vec![vec![]; n];
    for (s, st) in dfa.states.iter().enumerate() {
        for (_, t) in &st.edges {
            rev[*t].push(s);
        }
    }
    let mut live = vec![false; n];
    let mut stack: Vec<usize> = (0..n).filter(|s| is_item(*s)).collect();
    for s in &stack {
        live[*s] = true;
    }
    while let Some(s) = stack.pop() {
        for p in &rev[s] {
            if !live[*p] {
                live[*p] = true;
                stack.push(*p);
            }
        }
    }
    // cycle check of the restricted graph (colours: 0 new, 1 open, 2 done), then enumeration
    fn cyclic(dfa: &Dfa, live: &[bool], colour: &mut [u8], s: usize) -> bool {
        colour[s] = 1;
        for (_, t) in &dfa.states[s].edges {
            if live[*t] && (colour[*t] == 1 || (colour[*t] == 0 && cyclic(dfa, live, colour, *t))) {
                return true;
            }
        }
        colour[s] = 2;
        false
    }
    let rows = table_rows();
    let table: BTreeSet<(Vec<u8>, u64)> = rows.iter().map(|(b, _, c)| (b.clone(), *c)).collect();
    let mut colour = vec![0u8; n];
    if n == 0 || !live[0] {
        out.fail(WHAT_TABLE_DFA, json!({"kind": "keytable", "stream": "-"}), json!(format!("{} literal keys", table.len())), json!("no literal key state is reachable"));
    } else if cyclic(dfa, &live, &mut colour, 0) {
        out.fail(WHAT_TABLE_DFA, json!({"kind": "keytable", "stream": "-"}), json!("finitely many literal key sequences"), json!("a cycle leads to a literal key state"));
    } else {
        fn walk(dfa: &Dfa, live: &[bool], s: usize, word: &mut Vec<u8>, acc: &mut BTreeSet<(Vec<u8>, u64)>, budget: &mut u64) {
            if *budget == 0 {
                return;
            }
            let st = &dfa.states[s];
            if st.accepting {
                if let Some(t @ VerifTag::Item(_)) = st.tags.first() {
                    acc.insert((word.clone(), tag_num(t)));
                    *budget -= 1;
                }
            }
            for (b, t) in &st.edges {
                if live[*t] {
                    word.push(*b);
                    walk(dfa, live, *t, word, acc, budget);
                    word.pop();
                }
            }
        }
        let mut words = BTreeSet::new();
        let mut budget = 100_000u64;
        walk(dfa, &live, 0, &mut vec![], &mut words, &mut budget);
        for (bytes, code) in table.difference(&words) {
            out.fail(
                WHAT_TABLE_DFA,
                json!({"kind": "keytable", "stream": hex(bytes)}),
                json!(format!("accepted as literal key with code {code}")),
                json!(match words.iter().find(|(b, _)| b == bytes) {
                    Some((_, c)) => format!("accepted as literal key with code {c}"),
                    None => "not a literal key path".to_string(),
                }),
            );
        }
        for (bytes, code) in words.difference(&table) {
            if table.iter().any(|(b, _)| b == bytes) {
                continue; // reported above
            }
            out.fail(
                WHAT_TABLE_DFA,
                json!({"kind": "keytable", "stream": hex(bytes)}),
                json!("not in the literal key table"),
                json!(format!("accepted as literal key with code {code}")),
            );
        }
        out.extra("literal_key_paths", json!(words.len()));
        out.case("keytable-dfa", true);
        out.hist("tie:key-table");
    }
    // (ii) the naming table and the literal key table, as sets of (bytes, key)
    let names: BTreeSet<(Vec<u8>, (u64, u64, u64))> = keys().iter().cloned().collect();
    let mut by_bytes: BTreeMap<Vec<u8>, Vec<String>> = BTreeMap::new();
    let mut impl_rows: BTreeSet<(Vec<u8>, (u64, u64, u64))> = BTreeSet::new();
    for (bytes, key, _) in &rows {
        by_bytes.entry(bytes.clone()).or_default().push(key.map(key_text).unwrap_or("not-a-key".into()));
        if let Some(k) = key {
            impl_rows.insert((bytes.clone(), *k));
        } else {
            out.fail(WHAT_TABLE_NAMES, json!({"kind": "keytable", "stream": hex(bytes)}), json!("a key"), json!("not-a-key"));
        }
    }
    for (bytes, key) in names.difference(&impl_rows) {
        out.fail(
            WHAT_TABLE_NAMES,
            json!({"kind": "keytable", "stream": hex(bytes)}),
            json!(key_text(*key)),
            json!(by_bytes.get(bytes).map(|v| v.join(" ")).unwrap_or("absent".into())),
        );
    }
    for (bytes, key) in impl_rows.difference(&names) {
        if names.iter().any(|(b, _)| b == bytes) {
            continue; // reported above
        }
        out.fail(WHAT_TABLE_NAMES, json!({"kind": "keytable", "stream": hex(bytes)}), json!("absent from the naming table"), json!(key_text(*key)));
    }
    out.extra("naming_table", json!({"spellings": keys().len(), "distinct": names.len(), "literal_table": rows.len()}));
    out.case("keytable-names", true);
    out.hist("tie:key-table");
    // (iii) literal key states carry one tag, except the documented F3 / CPR overlap
    let words = dfa.words();
    for (s, st) in dfa.states.iter().enumerate() {
        if !st.tags.iter().any(|t| matches!(t, VerifTag::Item(_))) {
            continue;
        }
        let overlap = st.tags.len() == 2
            && matches!(&st.tags[0], VerifTag::Item(TerminalEvent::Key(k))
                if events::key_name_variant(k.name) == (K_F, 3) && (1..=7).contains(&events::mod_bits(k.mode)))
            && st.tags[1] == VerifTag::Matcher(1);
        if !(st.accepting && (st.tags.len() == 1 || overlap)) {
            out.fail(
                WHAT_TABLE_TAGS,
                json!({"kind": "keytable", "stream": hex(&words[s])}),
                json!("one literal key (or F3 with modifiers + cursor position report)"),
                json!(st.tags.iter().map(|t| tag_num(t).to_string()).collect::<Vec<_>>().join(",")),
            );
        }
    }
}

/// oracle line of the self-delimiting condition and the set of prefix keys
fn sd_line(ctx: &Ctx, out: &mut Out) {
    let dfa = &ctx.dfa;
    // expected answer from the documented list, not from the dump
    let spec: BTreeSet<(Vec<u8>, u64)> = prefix_keys().into_iter().map(|(b, k)| (b, code_of(k))).collect();
    let mut codes: Vec<u64> = spec.iter().map(|(_, c)| *c).collect();
    codes.sort();
    let list = codes.iter().map(|c| c.to_string()).collect::<Vec<_>>().join(",");
    out.oracle(&format!("sd event | {}", dumps::show_table(&dfa.states, dumps::event_item_tag)), &format!("ok {} {list}", codes.len()));
    out.hist("tie:self-delimiting");
    // the same comparison in Rust, with the offending spelling
    let words = dfa.words();
    let dumped: BTreeSet<(Vec<u8>, u64)> = dfa
        .states
        .iter()
        .enumerate()
        .filter(|(_, s)| s.accepting && !s.terminal)
        .map(|(i, s)| (words[i].clone(), s.tags.first().map(tag_num).unwrap_or(u64::MAX)))
        .collect();
    for (bytes, code) in spec.difference(&dumped) {
        out.fail(
            WHAT_PREFIX,
            json!({"kind": "prefixkeys", "stream": hex(bytes)}),
            json!(format!("a complete key (code {code}) that is a proper prefix of other sequences")),
            json!(match dfa.run(bytes) {
                None => "not a sequence".to_string(),
                Some(s) => format!(
                    "accepting={} terminal={} least tag {}",
                    dfa.states[s].accepting,
                    dfa.states[s].terminal,
                    dfa.states[s].tags.first().map(|t| tag_num(t).to_string()).unwrap_or("-".into())
                ),
            }),
        );
    }
    for (bytes, code) in dumped.difference(&spec) {
        if spec.iter().any(|(b, _)| b == bytes) {
            continue; // reported above
        }
        out.fail(
            WHAT_PREFIX,
            json!({"kind": "prefixkeys", "stream": hex(bytes)}),
            json!("a self-delimiting sequence or no sequence"),
            json!(format!("complete (least tag {code}) and a proper prefix of other sequences")),
        );
    }
    out.case("prefix-keys", true);
    out.extra(
        "nonterminal_keys",
        json!(dumped.iter().map(|(b, c)| json!({"bytes": hex(b), "code": c})).collect::<Vec<_>>()),
    );
}

const WHAT_PREFIX: &str = "the set of prefix keys differs from the documented one";
const WHAT_PALETTE: &str = "decoder palette differs from the xterm palette / the library's named colours";

/// the decoder's colour tables (`COLORS`, `CUBE`, `GREYS`) against the spec-side xterm palette
fn palette_check(out: &mut Out) {
    let (colors, cube, greys) = surf_n_term::decoder::verif_c06::palette_tables();
    for i in 0..256u64 {
        let got = if i < 16 {
            events::rgba_tok(Some(colors[i as usize]))
        } else if i < 232 {
            let k = (i - 16) as usize;
            format!("{},{},{},255", cube[k / 36], cube[k / 6 % 6], cube[k % 6])
        } else {
            let v = greys[(i - 232) as usize];
            format!("{v},{v},{v},255")
        };
        let want = rgb_tok(Some(xterm_palette(i)));
        if got != want {
            let m = Msg::Sgr(vec![SgrItem::Palette { role: 0, index: i, colon: false }]);
            out.fail(
                WHAT_PALETTE,
                json!({"kind": "palette", "index": i, "stream": hex(&print(&m)), "msgs": [wire(&m)], "expected": [expected_event(&m)]}),
                json!(want),
                json!(got),
            );
        }
    }
    out.case("palette", true);
    out.hist("tie:palette");
}

/* ================================================================ fixed correspondence lines */

fn fixed_lines(out: &mut Out, rng: &mut Rng) {
    // `KeyMod::from_bits` (src/keys.rs) on both sides of its mask and of the u32 conversion: kitty modifier
    // fields 1 + mask with masks around 255 / 511 / 512 / 2^32; mouse codes around the modifier bits
    for n in [1u64, 2, 128, 129, 255, 256, 257, 258, 511, 512, 513, 514, 1024, 1025, 65536, 4294967296, 4294967297, 4294967298, 4294967808] {
        let tok = format!("\x1b[97;{n}u").into_bytes();
        out.corr(&format!("pay decode 6 {}", hex(&tok)), &real_decode(6, &tok));
    }
    for code in [0u64, 3, 4, 28, 31, 32, 35, 60, 63, 64, 67, 92, 95, 96, 127, 128, 131, 255, 256, 260, 4294967296 + 4] {
        for fin in ["M", "m"] {
            let tok = format!("\x1b[<{code};7;9{fin}").into_bytes();
            out.corr(&format!("pay decode 7 {}", hex(&tok)), &real_decode(7, &tok));
        }
    }
    for n in 0..=2100usize {
        out.corr(&format!("pay decmode {n}"), &DecMode::from_usize(n).map(|m| events::dec_mode_number(m).to_string()).unwrap_or("none".into()));
    }
    for n in 0..=12usize {
        out.corr(&format!("pay decstatus {n}"), &DecModeStatus::from_usize(n).map(|m| events::dec_status_number(m).to_string()).unwrap_or("none".into()));
    }
    let ranges: [(u64, u64); 7] =
        [(0, 200), (55290, 57350), (57370, 57400), (63740, 63750), (0x10fff0, 0x110010), (4294967290, 4294967300), (1 << 40, 1 << 40)];
    for (lo, hi) in ranges {
        for n in lo..=hi {
            let a = match guarded(|| verif_c04::keyboard_decode_key(n as usize)) {
                Err(()) => "panic".to_string(),
                Ok(None) => "none".to_string(),
                Ok(Some(k)) => {
                    let (v, p) = events::key_name_variant(k);
                    format!("{v}.{p}")
                }
            };
            out.corr(&format!("pay kbdkey {n}"), &a);
        }
    }
    out.hist("tie:payload-helpers");
    // colour texts
    let mut texts: Vec<Vec<u8>> = [
        "", "#", "#fff", "#ffff", "#fffff", "#ffffff", "#FFFFFF", "#FfAa00", "#000000", "#gggggg", "#12345g", "#1234567",
        "#12345678", "#123456789", "#ff000080", "#FF0000FF", "#ff0000/0.5", "#ff000080/0.5", "red", "blue", "red/0.5", "Red",
        "dark-red", "rgb:", "rgb:/", "rgb://", "rgb:1/2", "rgb:1/2/3", "rgb:1/2/3/4", "rgb:1/2/3/", "rgb:/1/2", "rgb:1//2",
        "rgb:1/2/", "RGB:1/2/3", "Rgb:1/2/3", "rgb:g/1/2", "rgb: 1/2/3", "rgb:-1/2/3", "rgb:1/-2/3", "rgb:+1/2/3", "rgb:+f/+f/+f",
        "rgb:+/1/2", "rgb:+ff/0/0", "rgb:+fff/0/0", "rgb:+ffff/0/0", "rgb:12345/1/2", "rgb:1/12345/2", "rgb:1/2/12345",
        "rgb:FFFF/AAAA/0000", "rgb:ffff/8080/0000", "rgb:FF/aa/0", "rgb:f/f/f", "rgb:ff/ff/ff", "rgb:fff/fff/fff", "rgb:ffff/ffff/ffff",
        "rgb:0/0/0", "rgb:00/00/00", "rgb:000/000/000", "rgb:0000/0000/0000", "rgb:8/80/800", "rgb:8000/800/80", "rgb:7fff/7ff/7f",
        "rgb:0ff/00f/f00", "rgb:100/0ff/010", "rgbi:1.0/0/0", "rgb:\u{e9}/1/2", "rgb:1/\u{20ac}/2", "rgb:1 /2/3", "rgb:1/2/3 ", " rgb:1/2/3",
        "rgb:0x1/2/3", "rgb:1_0/2/3", "rgba:1/2/3/4", "hsl:1/2/3", "?", "rgb:ff/ff", "rgb:ff", "#rgb:1/2/3", "rgb:#/1/2", "a", "z9", "a-b",
    ]
    .iter()
    .map(|s| s.as_bytes().to_vec())
    .collect();
    for _ in 0..30 {
        texts.push(color_spec_print(&ColorSpec::Hash(byte_val(rng), byte_val(rng), byte_val(rng), rng.chance(1, 3))));
        let mut t = color_spec_print(&ColorSpec::Hash(byte_val(rng), byte_val(rng), byte_val(rng), false));
        t.extend(hex_fixed(2, byte_val(rng)));
        if rng.chance(1, 3) {
            t.make_ascii_uppercase();
            t[0] = b'#';
        }
        texts.push(t);
    }
    for _ in 0..120 {
        let d = [1 + rng.below(4) as u32, 1 + rng.below(4) as u32, 1 + rng.below(4) as u32];
        let mut t = color_spec_print(&ColorSpec::Rgb(gen_channel(rng, d[0]), gen_channel(rng, d[1]), gen_channel(rng, d[2]), false));
        if rng.chance(1, 4) {
            t[4..].make_ascii_uppercase();
        }
        texts.push(t);
    }
    for _ in 0..70 {
        let n = rng.below(13);
        let t: Vec<u8> = (0..n)
            .map(|_| if rng.chance(1, 3) { *rng.pick(b"#rgb:/+-0f") } else { 0x20 + rng.below(0x5f) as u8 })
            .collect();
        texts.push(t);
    }
    let mut seen = HashSet::new();
    for t in texts {
        if !seen.insert(t.clone()) {
            continue;
        }
        let Ok(s) = std::str::from_utf8(&t) else { continue };
        let a = if color_ext(&t) {
            "ext".to_string()
        } else {
            match guarded(|| verif_c04::parse_color(s)) {
                Err(()) => "panic".to_string(),
                Ok(None) => "none".to_string(),
                Ok(Some(c)) => events::rgba_tok(Some(c)),
            }
        };
        out.corr(&format!("pay color {}", hex(&t)), &a);
    }
    out.hist("tie:payload-helpers");
}

/* ================================================================ white-box corpus */

fn key_index(bytes: &[u8]) -> usize {
    keys().iter().position(|r| r.0 == bytes).expect("spelling of the naming table")
}

fn ch(digits: u32, value: u64) -> Channel {
    Channel { digits, value }
}

/// streams with the expectation computed from `expected_event`
fn corpus(ctx: &Ctx, rng: &mut Rng) -> Vec<(Vec<Msg>, Option<Expect>)> {
    let mut c: Vec<(Vec<Msg>, Option<Expect>)> = vec![];
    // a prefix key followed by text that stays alive for several bytes and then dies: the key, then the text in
    // order, then the following report untouched
    for (prefix, tail) in [
        (&b"\x1b["[..], "12a"), (b"\x1b[", "1;5>"), (b"\x1b[", "1;2>"), (b"\x1b[", "<11;;2z"), (b"\x1b[", "?2004;1!"),
        (b"\x1b[", "65535;1>"), (b"\x1bP", "1x"), (b"\x1bP", "1+r4a=!"), (b"\x1b_", "Gi=1!"), (b"\x1b_", "Gx!"),
    ] {
        let mut msgs = vec![Msg::Key(key_index(prefix))];
        msgs.extend(tail.chars().map(|ch| Msg::Text(ch as u32)));
        c.push((msgs.clone(), None));
        msgs.push(Msg::Cursor { row: 10, col: 20 });
        c.push((msgs, None));
    }
    // many events out of one read (loops that collect items must not stop early): 450 messages in one stream
    {
        let mut msgs = vec![];
        for i in 0..150u64 {
            msgs.push(Msg::Text(b'a' as u32 + (i % 26) as u32));
            msgs.push(Msg::Cursor { row: i + 2, col: 2 * i + 9 });
            msgs.push(Msg::Mouse { code: i % 128, x: i + 1, y: 150 - i, press: i % 2 == 0 });
        }
        c.push((msgs, None));
    }
    let mut one = |m: Msg| c.push((vec![m], None));
    // the documented overlap and its neighbourhood; coordinates at both ends
    for col in 1..=9 {
        one(Msg::Cursor { row: 1, col });
    }
    for (row, col) in [(2, 5), (1, 65535), (65535, 1), (65535, 65535), (10, 10), (2, 1), (11, 5), (1, 10), (1, 15)] {
        one(Msg::Cursor { row, col });
    }
    for code in 0..=255u64 {
        one(Msg::Mouse { code, x: 1 + code % 3, y: 1 + code % 5, press: code % 2 == 0 });
        one(Msg::Mouse { code, x: 65535 - code, y: 1, press: code % 2 == 1 });
    }
    for (x, y) in [(1, 1), (65535, 65535), (1, 65535), (65535, 1), (10, 100)] {
        one(Msg::Mouse { code: 0, x, y, press: true });
        one(Msg::Mouse { code: 35, x, y, press: false });
    }
    for mode_number in [25u64, 7, 80, 1000, 1003, 1006, 1049, 2026, 2004] {
        for status_number in 0..=4 {
            one(Msg::DecMode { mode_number, status_number });
        }
    }
    for (attrs, trailing) in [
        (vec![1u64], false),
        (vec![1], true),
        (vec![62, 4, 22], false),
        (vec![64, 1, 2, 4, 6, 9, 15, 22], true),
        (vec![999, 1, 999, 4, 1], false),
        (vec![62], false),
    ] {
        one(Msg::DeviceAttrs { attrs, trailing });
    }
    // colours: the example of the task, every digit count at both ends, palette ends, hash form
    for fin in [OscEnd::Bel, OscEnd::St] {
        one(Msg::Color { name: ColorName::Background, spec: ColorSpec::Rgb(ch(4, 0xffff), ch(4, 0x8080), ch(4, 0), false), fin });
        one(Msg::Color { name: ColorName::Background, spec: ColorSpec::Rgb(ch(4, 0xffff), ch(4, 0xabcd), ch(4, 0xe0f), true), fin });
        one(Msg::Color { name: ColorName::Foreground, spec: ColorSpec::Hash(0xab, 0xcd, 0xef, true), fin });
        for d in 1..=4u32 {
            let max = (1u64 << (4 * d)) - 1;
            for v in [0, 1, max / 2, max / 2 + 1, max - 1, max] {
                one(Msg::Color { name: ColorName::Foreground, spec: ColorSpec::Rgb(ch(d, v), ch(d, max - v), ch(d, v), v % 2 == 1), fin });
            }
        }
        one(Msg::Color { name: ColorName::Palette(0), spec: ColorSpec::Hash(0, 0, 0, false), fin });
        one(Msg::Color { name: ColorName::Palette(255), spec: ColorSpec::Hash(255, 128, 1, true), fin });
        one(Msg::Color { name: ColorName::Palette(7), spec: ColorSpec::Rgb(ch(1, 0xf), ch(2, 0x80), ch(3, 0xabc), false), fin });
        one(Msg::Color { name: ColorName::Foreground, spec: ColorSpec::Rgb(ch(4, 0x1234), ch(3, 0x123), ch(1, 1), false), fin });
    }
    // SGR: every item alone, the three colour forms for every role, combinations
    let mut items = vec![SgrItem::Reset];
    for on in [true, false] {
        items.extend([SgrItem::Bold(on), SgrItem::Italic(on), SgrItem::Blink(on), SgrItem::Strike(on)]);
    }
    for s in 0..=5 {
        items.push(SgrItem::Underline(s));
    }
    for role in 0..=2 {
        for form in [ColorForm::Semi, ColorForm::Colon, ColorForm::ColonSpace] {
            items.push(SgrItem::Rgb { role, r: 0, g: 128, b: 255, form });
            items.push(SgrItem::Rgb { role, r: 255, g: 1, b: 0, form });
        }
    }
    for it in &items {
        one(Msg::Sgr(vec![it.clone()]));
        one(Msg::FaceReport(vec![it.clone()]));
        one(Msg::Sgr(vec![SgrItem::Bold(true), it.clone(), SgrItem::Underline(3)]));
        one(Msg::FaceReport(vec![SgrItem::Rgb { role: 0, r: 1, g: 2, b: 3, form: ColorForm::Semi }, it.clone(), SgrItem::Italic(true)]));
    }
    one(Msg::FaceReport(vec![]));
    one(Msg::Sgr(items.clone()));
    one(Msg::FaceReport(items));
    // the xterm palette: every index in both forms; every named colour; underline spellings; empty parameters
    for index in 0..=255u64 {
        for colon in [false, true] {
            one(Msg::Sgr(vec![SgrItem::Palette { role: 0, index, colon }]));
        }
        one(Msg::FaceReport(vec![SgrItem::Palette { role: 1, index, colon: index % 2 == 0 }, SgrItem::Palette { role: 2, index: 255 - index, colon: index % 2 == 1 }]));
    }
    for index in [0u64, 15, 16, 231, 232, 255] {
        for colon in [false, true] {
            one(Msg::Sgr(vec![SgrItem::Palette { role: 1, index, colon }, SgrItem::Bold(true)]));
            one(Msg::Sgr(vec![SgrItem::Palette { role: 2, index, colon }, SgrItem::Named { background: false, index: 1 }]));
        }
    }
    for index in 0..16u64 {
        for background in [false, true] {
            one(Msg::Sgr(vec![SgrItem::Named { background, index }]));
            one(Msg::FaceReport(vec![SgrItem::Named { background, index }, SgrItem::Named { background: !background, index: 15 - index }]));
        }
    }
    one(Msg::Sgr(vec![SgrItem::DoubleUnderline]));
    one(Msg::Sgr(vec![SgrItem::Bold(false)]));
    one(Msg::Sgr(vec![SgrItem::DoubleUnderline, SgrItem::Bold(false)]));
    one(Msg::FaceReport(vec![SgrItem::DoubleUnderline]));
    for s in 0..=5u64 {
        one(Msg::Sgr(vec![SgrItem::UnderlineColon(s)]));
        one(Msg::FaceReport(vec![SgrItem::Underline(3), SgrItem::UnderlineColon(s)]));
        one(Msg::Sgr(vec![SgrItem::UnderlineColon(s), SgrItem::Rgb { role: 2, r: 1, g: 2, b: 3, form: ColorForm::Semi }]));
    }
    one(Msg::Sgr(vec![SgrItem::Empty])); // CSI m
    one(Msg::Sgr(vec![SgrItem::Empty, SgrItem::Empty])); // CSI ;m
    one(Msg::Sgr(vec![SgrItem::Bold(true), SgrItem::Empty, SgrItem::Italic(true)])); // CSI 1;;3m
    one(Msg::Sgr(vec![SgrItem::Empty, SgrItem::Bold(true)])); // CSI ;1m
    one(Msg::Sgr(vec![SgrItem::Bold(true), SgrItem::Empty])); // CSI 1;m
    one(Msg::Sgr(vec![SgrItem::Rgb { role: 0, r: 1, g: 2, b: 3, form: ColorForm::Semi }, SgrItem::Empty, SgrItem::Palette { role: 1, index: 9, colon: false }, SgrItem::Empty]));
    one(Msg::FaceReport(vec![SgrItem::Empty]));
    one(Msg::FaceReport(vec![SgrItem::Strike(true), SgrItem::Empty, SgrItem::Named { background: true, index: 12 }]));
    // long tokens: the decoder's buffers spill to the heap above 32 bytes
    let long_items: Vec<SgrItem> = (0..300).map(|_| gen_sgr_item(rng)).collect();
    one(Msg::Sgr(long_items.clone()));
    one(Msg::FaceReport(long_items));
    one(Msg::Paste(gen_long_text(rng, 64 << 10, 64 << 10)));
    one(Msg::KittyImage { id: 7, number: None, placement: Some(1), error: Some(gen_long_text(rng, 4 << 10, 4 << 10)) });
    one(Msg::TermcapOk { entries: vec![(b"Co".to_vec(), (0..2048u32).map(|i| (i * 7 + i / 256) as u8).collect())], upper: false });
    // termcap
    one(Msg::TermcapOk { entries: vec![], upper: false });
    one(Msg::TermcapOk { entries: vec![(b"Co".to_vec(), b"256".to_vec())], upper: false });
    one(Msg::TermcapOk { entries: vec![(b"Co".to_vec(), b"256".to_vec())], upper: true });
    one(Msg::TermcapOk {
        entries: vec![(b"TN".to_vec(), b"xterm-kitty".to_vec()), (b"Co".to_vec(), b"8".to_vec()), (b"TN".to_vec(), b"x".to_vec()), (vec![0xff, 0, 0x1b], vec![0x1b, 0x5c, 0xfe])],
        upper: true,
    });
    one(Msg::TermcapFail { names: vec![b"TN".to_vec()], upper: false });
    one(Msg::TermcapFail { names: vec![b"colors".to_vec(), b"RGB".to_vec(), b"colors".to_vec(), vec![0xff]], upper: true });
    // kitty keyboard
    for flags in [0u64, 1, 5, 31, 65535, u64::MAX] {
        one(Msg::KeyboardLevel(flags));
    }
    for code in [97u64, 122, 27, 13, 9, 127, 57376, 57398, 0, 32, 65, 0xd7ff, 0xe9, 63744, 0xfffd, 0x10ffff] {
        for mods in [None, Some(0), Some(1), Some(4), Some(5), Some(255)] {
            one(Msg::CsiU { code, alts: vec![], mods });
        }
        one(Msg::CsiU { code, alts: vec![65], mods: Some(2) });
        one(Msg::CsiU { code, alts: vec![65, 0x10ffff], mods: None });
    }
    for mods in 0..=255u64 {
        one(Msg::CsiU { code: 97 + mods % 26, alts: vec![], mods: Some(mods) });
    }
    // kitty graphics
    one(Msg::KittyImage { id: 1, number: None, placement: None, error: None });
    one(Msg::KittyImage { id: 4294967295, number: None, placement: Some(1), error: Some(b"ENOENT:no such image".to_vec()) });
    one(Msg::KittyImage { id: 255, number: Some(7), placement: Some(4294967295), error: None });
    one(Msg::KittyImage { id: 3, number: Some(4294967295), placement: None, error: None });
    one(Msg::KittyImage { id: 65535, number: None, placement: None, error: Some(vec![]) });
    one(Msg::KittyImage { id: 2, number: Some(0), placement: None, error: Some(b"EINVAL:a;b=c,d \xe2\x82\xac\x07\n".to_vec()) });
    // sizes
    for v in [0u64, 1, 9, 10, 255, 256, 65535] {
        one(Msg::Size { ch: v, cw: 65535 - v, ph: v, pw: v });
    }
    one(Msg::Size { ch: 24, cw: 80, ph: 480, pw: 640 });
    // paste
    for text in [&b""[..], b"[201~", b"a", b"line one\nline two\ttab\x07bell", "\u{e9}\u{20ac}\u{1f600}\u{10ffff}".as_bytes(), b"[200~[201~[201", b"\x00\x7f"] {
        one(Msg::Paste(text.to_vec()));
    }
    // text at the ends of every encoded length
    for cp in [0x20u32, 0x7e, 0x80, 0x7ff, 0x800, 0xd7ff, 0xe000, 0xffff, 0x10000, 0x10ffff, 0x41, 0x5b, 0x31] {
        one(Msg::Text(cp));
    }
    // every spelling of the naming table on its own: a key whose bytes are a proper prefix of other
    // sequences may stay pending at the end of the stream, and is delivered when a sequence follows
    for i in 0..keys().len() {
        if ctx.nonterminal.contains(&i) {
            c.push((vec![Msg::Key(i)], None)); // delivered or pending: both admitted
            c.push((vec![Msg::Key(i), Msg::Cursor { row: 5, col: 7 }], None));
            c.push((vec![Msg::Key(i), Msg::Key(key_index(&[1])), Msg::Text(0xe9)], None));
            c.push((vec![Msg::Key(i), Msg::Text(0x20ac), Msg::Key(i), Msg::Key(key_index(b"\x1b[A"))], None));
        } else {
            c.push((vec![Msg::Key(i)], None));
        }
    }
    // documented merges of a prefix key with following printable input
    let esc = key_index(&[27]);
    c.push((vec![Msg::Key(esc), Msg::Text(b'a' as u32)], Some(Expect::exact(vec!["key:1.97.2".into()]))));
    c.push((vec![Msg::Key(esc), Msg::Text(b'[' as u32), Msg::Text(b'A' as u32)], Some(Expect::exact(vec![format!("key:{K_UP}.0.0")]))));
    c.push((vec![Msg::Key(key_index(b"\x1b[")), Msg::Text(b'A' as u32)], Some(Expect::exact(vec![format!("key:{K_UP}.0.0")]))));
    c.push((vec![Msg::Key(key_index(b"\x1bO")), Msg::Text(b'P' as u32)], Some(Expect::exact(vec![format!("key:{K_F}.1.0")]))));
    // ESC [ at the end: the merged key alt+[ is itself a prefix key
    c.push((vec![Msg::Key(esc), Msg::Text(b'[' as u32)], Some(Expect { events: vec![], tail: Some(format!("key:{K_CHAR}.91.{MOD_ALT}")) })));
    c.push((
        vec![Msg::Key(esc), Msg::Key(esc), Msg::Text(b'x' as u32)],
        Some(Expect::exact(vec![format!("key:{K_ESC}.0.0"), "key:1.120.2".into()])),
    ));
    // neighbours
    let cpr = Msg::Cursor { row: 12, col: 40 };
    let mouse = Msg::Mouse { code: 0, x: 10, y: 20, press: true };
    c.push((vec![cpr.clone(), cpr.clone()], None));
    c.push((vec![cpr.clone(), mouse.clone()], None));
    c.push((vec![cpr.clone(), Msg::Text(b'a' as u32), cpr.clone()], None));
    c.push((vec![mouse.clone(), Msg::Text(b'1' as u32), Msg::Text(b';' as u32), Msg::Text(b'R' as u32), cpr.clone()], None));
    c.push((vec![Msg::Text(b'1' as u32), Msg::Cursor { row: 1, col: 5 }, Msg::Text(b'R' as u32)], None));
    c.push((vec![Msg::Size { ch: 24, cw: 80, ph: 480, pw: 640 }, Msg::Size { ch: 24, cw: 80, ph: 480, pw: 640 }], None));
    c.push((
        vec![
            Msg::Paste(b"[201~".to_vec()),
            Msg::Paste(vec![]),
            Msg::Text(b'~' as u32),
            Msg::Color { name: ColorName::Background, spec: ColorSpec::Rgb(ch(4, 0xffff), ch(4, 0x8080), ch(4, 0), false), fin: OscEnd::Bel },
            Msg::Text(7 + 0x20),
            Msg::TermcapOk { entries: vec![(b"Co".to_vec(), b"256".to_vec())], upper: false },
            Msg::FaceReport(vec![SgrItem::Bold(true)]),
            Msg::KittyImage { id: 1, number: Some(2), placement: None, error: None },
            Msg::CsiU { code: 97, alts: vec![], mods: Some(5) },
            Msg::KeyboardLevel(1),
            Msg::DeviceAttrs { attrs: vec![62, 4], trailing: false },
            Msg::DecMode { mode_number: 2004, status_number: 1 },
            Msg::Sgr(vec![SgrItem::Rgb { role: 0, r: 1, g: 2, b: 3, form: ColorForm::Semi }, SgrItem::Underline(1)]),
        ],
        None,
    ));
    c
}

/* ================================================================ replay */

fn replay(out: &mut Out, rng: &mut Rng, v: &Value) {
    let failure = &v["failure"];
    let input = &failure["input"];
    let kind = input["kind"].as_str().unwrap_or("");
    if kind == "keytable" || kind == "prefixkeys" {
        return; // these ties are re-run by `run`
    }
    let Some(stream_hex) = input["stream"].as_str() else { return };
    let stream = unhex(stream_hex);
    if kind == "grammar" {
        let k = input["family"].as_u64().unwrap_or(0) as usize;
        if k < 14 && !guarded(|| verif_c04::matcher_matches(k, &stream)).unwrap_or(false) {
            out.fail(WHAT_GRAMMAR, input.clone(), json!("accepted"), json!("rejected"));
        }
    }
    let strings = |v: &Value| -> Option<Vec<String>> {
        v.as_array().map(|a| a.iter().filter_map(|s| s.as_str().map(String::from)).collect())
    };
    let Some(events) = strings(&input["expected"]).or_else(|| strings(&failure["expected"])) else { return };
    let expected = Expect { events, tail: input["optional_tail"].as_str().map(String::from) };
    let wires = strings(&input["msgs"]).unwrap_or_default();
    let mut parts = vec![partition(rng, stream.len(), 0), partition(rng, stream.len(), 1)];
    match strings(&input["partition"]) {
        // the recorded reads (they concatenate to the stream)
        Some(p) if p.iter().map(|c| unhex(c)).collect::<Vec<_>>().concat() == stream => parts.push(p.iter().map(|c| unhex(c).len()).collect()),
        _ => parts.push(partition(rng, stream.len(), 2)),
    }
    if kind == "history" {
        // the stream after its recorded predecessor on one decoder
        let history = unhex(input["history"].as_str().unwrap_or("-"));
        let mut dec = TTYEventDecoder::new();
        let _ = decode_reads_on(&mut dec, &[&history[..]], 1);
        let got = decode_reads_on(&mut dec, &[&stream[..]], 1);
        if got != expected.events {
            out.fail(WHAT_HISTORY, input.clone(), expected.json(), json!(got));
        }
    }
    let ok = check_stream(out, &stream, &wires, &expected, &parts, true);
    out.case(&hex(&stream), true);
    out.extra("replay", json!({"stream": hex(&stream), "agrees": ok}));
}

/* ================================================================ entry */

pub fn run(cfg: &Cfg, out: &mut Out, rng: &mut Rng) {
    let mut ctx = Ctx::new(cfg);
    key_tie(&ctx, out);
    sd_line(&ctx, out);
    palette_check(out);
    if let Some(v) = &cfg.replay {
        replay(out, rng, v);
        return;
    }
    fixed_lines(out, rng);
    for (msgs, expected) in corpus(&ctx, rng) {
        run_case(&mut ctx, out, rng, &msgs, expected);
    }
    let corpus_streams = ctx.streams;
    let n = if cfg.thorough { 1_000_000 } else { 10_000 };
    for _ in 0..n {
        let msgs = gen_stream(&ctx, rng);
        run_case(&mut ctx, out, rng, &msgs, None);
    }
    out.extra("streams", json!({"corpus": corpus_streams, "generated": n, "partitions_each": 3, "paths": PATHS, "long_lived_decoder": true}));
    out.extra("correspondence_budget_left", json!({"lines": ctx.budget, "long_tokens": ctx.long_budget, "composed_streams": ctx.stream_budget, "composed_long_streams": ctx.long_stream_budget, "match_mid_tokens": ctx.match_budget}));
}
