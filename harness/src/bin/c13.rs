//! C13: colour quantisation — bounded palette, valid indices, exact nearest-colour search.
//!
//! Three families of cases, all driven by one `Rng::new(seed)`:
//!  * `kd`    — `ColorPalette::new(pal).find(q)`: oracle = brute force over the palette (index valid,
//!              returned colour is that entry, distance minimal); correspondence with the Lean model of
//!              `KDTree::new`/`find_rec` on the DISTANCE of the returned entry, and on the index only when
//!              the nearest entry is unique (another equally near index is the same answer).
//!  * `oct`   — `OcTree::{insert, prune, prune_until, build_palette}` through the public API; shape read
//!              from `to_digraph` (stored, possibly stale, summaries included) and compared with the
//!              model; oracle = palette bounds after `prune_until`.
//!  * `quant` — `Image::quantize(k, dither, bg)` on images / cropped views with alpha: oracle = bounds,
//!              size, valid indices, nearest colour per pixel (no dithering), exact reproduction when the
//!              distinct colours fit and the image is not subsampled; correspondence with the model of
//!              `from_image` + `quantize` (palette exactly, indices canonicalised as above).
use serde_json::{Value, json};
use std::collections::{BTreeSet, HashMap};
use std::sync::Arc;
use surf_n_term::image::OcTree;
use surf_n_term::{Color, ColorPalette, Image, RGBA, Shape, Size, Surface};
use verif_harness::{Cfg, r#gen::Rng, guarded, out::Out, out::hex};

type Rgb = [u8; 3];

/// Watchdog: every call into the implementation runs in a worker thread.  When it does not come back
/// within `CASE_TIMEOUT` (which a loaded machine alone can cause) the same case is run once more with the
/// long limit; only if that expires too is the case reported as non-terminating.  A case that needed the
/// second run is counted in `extra.watchdog.slow_cases_rerun_ok`.  A stuck thread cannot be killed: it is
/// abandoned, the remaining cases are skipped (`MAX_HUNG`) and the process exits once the statistics are
/// written.
const CASE_TIMEOUT: std::time::Duration = std::time::Duration::from_secs(4);
const MAX_HUNG: usize = 1;
static HUNG: AtomicUsize = AtomicUsize::new(0);
static SLOW_RERUN_OK: AtomicUsize = AtomicUsize::new(0);
/// long limit in seconds: 40 (quick, keeps a hanging implementation within the quick budget), 120 (thorough)
static LONG_SECS: AtomicUsize = AtomicUsize::new(40);
use std::sync::atomic::{AtomicUsize, Ordering::SeqCst};

fn too_many_hung() -> bool {
    HUNG.load(SeqCst) >= MAX_HUNG
}

fn no_answer() -> Value {
    json!(format!("no answer within {} s and, re-run alone, within {} s", CASE_TIMEOUT.as_secs(), LONG_SECS.load(SeqCst)))
}

fn attempt<T: Send + 'static>(f: impl FnOnce() -> T + Send + 'static, limit: std::time::Duration) -> Option<Result<T, ()>> {
    let (tx, rx) = std::sync::mpsc::channel();
    let spawned = std::thread::Builder::new().stack_size(16 << 20).spawn(move || {
        let _ = tx.send(guarded(f));
    });
    if spawned.is_err() {
        return Some(Err(()));
    }
    match rx.recv_timeout(limit) {
        Ok(r) => Some(r),
        Err(std::sync::mpsc::RecvTimeoutError::Timeout) => None,
        Err(std::sync::mpsc::RecvTimeoutError::Disconnected) => Some(Err(())),
    }
}

/// `Some(Ok(v))` finished, `Some(Err(()))` panicked, `None` did not terminate (twice)
fn watched<T: Send + 'static>(f: impl FnOnce() -> T + Clone + Send + 'static) -> Option<Result<T, ()>> {
    if let Some(r) = attempt(f.clone(), CASE_TIMEOUT) {
        return Some(r);
    }
    match attempt(f, std::time::Duration::from_secs(LONG_SECS.load(SeqCst) as u64)) {
        Some(r) => {
            SLOW_RERUN_OK.fetch_add(1, SeqCst);
            Some(r)
        }
        None => {
            HUNG.fetch_add(1, SeqCst);
            None
        }
    }
}

fn dist(a: Rgb, b: Rgb) -> i64 {
    (0..3).map(|i| (a[i] as i64 - b[i] as i64).pow(2)).sum()
}

fn rgb_hex(cs: &[Rgb]) -> String {
    let bytes: Vec<u8> = cs.iter().flat_map(|c| c.iter().copied()).collect();
    hex(&bytes)
}

fn rgba_hex(cs: &[RGBA]) -> String {
    let bytes: Vec<u8> = cs.iter().flat_map(|c| c.to_rgba()).collect();
    hex(&bytes)
}

fn unhex(s: &str) -> Vec<u8> {
    if s == "-" {
        return Vec::new();
    }
    (0..s.len() / 2).map(|i| u8::from_str_radix(&s[2 * i..2 * i + 2], 16).unwrap_or(0)).collect()
}

fn rgba_unhex(s: &str) -> Vec<RGBA> {
    unhex(s).chunks_exact(4).map(|c| RGBA::new(c[0], c[1], c[2], c[3])).collect()
}

/// (least distance, number of entries attaining it)
fn min_count(pal: &[Rgb], q: Rgb) -> (i64, usize) {
    let m = pal.iter().map(|c| dist(q, *c)).min().unwrap();
    (m, pal.iter().filter(|c| dist(q, **c) == m).count())
}

/// canonical lookup answer; must be what `SurfModel.Quant.showFind` prints
fn show_find(pal: &[Rgb], q: Rgb, idx: usize) -> String {
    match pal.get(idx) {
        None => "oob".to_string(),
        Some(c) => {
            let d = dist(q, *c);
            let (m, n) = min_count(pal, q);
            if n == 1 {
                if m == d { format!("{d}:{idx}") } else { format!("{d}:!") }
            } else {
                format!("{d}:~")
            }
        }
    }
}

// ---------------------------------------------------------------- kd

fn run_kd(out: &mut Out, pal: &[RGBA], queries: &[RGBA], kind: &str) {
    let input = json!({"kind": "kd", "palette": rgba_hex(pal), "queries": rgba_hex(queries)});
    let prgb: Vec<Rgb> = pal.iter().map(|c| c.to_rgb()).collect();
    let qrgb: Vec<Rgb> = queries.iter().map(|c| c.to_rgb()).collect();
    if too_many_hung() {
        return;
    }
    let (pal_v, queries_v) = (pal.to_vec(), queries.to_vec());
    let res = watched(move || {
        let p = ColorPalette::new(pal_v.clone())?;
        // accessors of the palette against the raw input, and the k-d tree used directly
        let mut acc_ok = p.size() == pal_v.len() && p.colors().len() == pal_v.len();
        for (i, c) in pal_v.iter().enumerate() {
            acc_ok = acc_ok && p.colors().get(i).map(|x| x.to_rgba()) == Some(c.to_rgba()) && p.get(i).to_rgba() == c.to_rgba();
        }
        let kd = surf_n_term::image::KDTree::new(&pal_v);
        let direct: Vec<(usize, RGBA)> = queries_v.iter().take(12).map(|q| kd.find(*q)).collect();
        Some((queries_v.iter().map(|q| p.find(*q)).collect::<Vec<_>>(), acc_ok, direct))
    });
    let Some(res) = res else {
        out.fail("nearest-colour lookup does not terminate", input, json!("an index per query"), no_answer());
        return;
    };
    out.hist(&format!("kd:{kind}"));
    out.hist(&format!("kd:size:{}", size_bucket(pal.len())));
    let req = format!("c13 kd {} {}", rgb_hex(&prgb), rgb_hex(&qrgb));
    match res {
        Err(()) => {
            out.fail("ColorPalette::new/find panics", input, json!("an index per query"), json!("panic"));
            out.corr(&req, "panic");
        }
        Ok(None) => {
            if !pal.is_empty() {
                out.fail("ColorPalette::new returns None for a non-empty palette", input, json!("Some"), json!("None"));
            }
            out.corr(&req, "none");
        }
        Ok(Some((answers, acc_ok, direct))) => {
            if !acc_ok {
                out.fail("ColorPalette::size/get/colors do not return the colours the palette was made of", input.clone(),
                         json!("size = n, get(i) = colors()[i] = i-th input colour"), json!("mismatch"));
            }
            for (qi, (idx, col)) in direct.iter().enumerate() {
                let (m, _) = min_count(&prgb, qrgb[qi]);
                if !(*idx < prgb.len() && prgb[*idx] == col.to_rgb() && dist(qrgb[qi], prgb[*idx]) == m) {
                    out.fail("KDTree::find does not return a nearest palette entry",
                             json!({"kind": "kd", "palette": rgba_hex(pal), "queries": rgba_hex(&queries[qi..qi + 1])}),
                             json!({"min_squared_distance": m}), json!({"index": idx, "color": rgb_hex(&[col.to_rgb()])}));
                }
            }
            let mut shown = Vec::with_capacity(answers.len());
            for (qi, (idx, col)) in answers.iter().enumerate() {
                let q = qrgb[qi];
                let (m, n) = min_count(&prgb, q);
                out.case(&format!("kd {} {:?} {}", rgb_hex(&prgb), q, idx), prgb.len() > 1);
                if n > 1 {
                    out.hist("kd:tie");
                }
                let ok = *idx < prgb.len() && prgb[*idx] == col.to_rgb() && dist(q, prgb[*idx]) == m;
                if !ok {
                    out.fail(
                        "ColorPalette::find does not return a nearest palette entry",
                        json!({"kind": "kd", "palette": rgba_hex(pal), "queries": rgba_hex(&queries[qi..qi + 1])}),
                        json!({"min_squared_distance": m}),
                        json!({"index": idx, "color": rgb_hex(&[col.to_rgb()]),
                               "squared_distance": prgb.get(*idx).map(|c| dist(q, *c))}),
                    );
                }
                shown.push(show_find(&prgb, q, *idx));
            }
            out.corr(&req, &shown.join(","));
        }
    }
}

fn size_bucket(n: usize) -> &'static str {
    match n {
        0 => "0",
        1 => "1",
        2..=8 => "2-8",
        9..=64 => "9-64",
        65..=256 => "65-256",
        _ => "257+",
    }
}

fn rand_rgba(rng: &mut Rng, opaque: bool) -> RGBA {
    let v = rng.next();
    let a = if opaque { 255 } else { (v >> 24) as u8 };
    RGBA::new(v as u8, (v >> 8) as u8, (v >> 16) as u8, a)
}

fn clampu8(v: i64) -> u8 {
    v.clamp(0, 255) as u8
}

/// `n` colours of one of the styles: 0 uniform, 1 clustered, 2 duplicated, 3 lattice (many equal coordinates),
/// 4 one axis only
fn gen_colors(rng: &mut Rng, n: usize, style: u64) -> Vec<RGBA> {
    let mut v = Vec::with_capacity(n);
    match style {
        0 => {
            for _ in 0..n {
                v.push(rand_rgba(rng, true));
            }
        }
        1 => {
            let centres: Vec<RGBA> = (0..1 + rng.below(4)).map(|_| rand_rgba(rng, true)).collect();
            let spread = 1 + rng.below(6) as i64;
            for _ in 0..n {
                let [r, g, b, _] = rng.pick(&centres).to_rgba();
                v.push(RGBA::new(
                    clampu8(r as i64 + rng.range(-spread, spread)),
                    clampu8(g as i64 + rng.range(-spread, spread)),
                    clampu8(b as i64 + rng.range(-spread, spread)),
                    255,
                ));
            }
        }
        2 => {
            let base: Vec<RGBA> = (0..1 + rng.below(1 + n as u64 / 3)).map(|_| rand_rgba(rng, true)).collect();
            for _ in 0..n {
                v.push(*rng.pick(&base));
            }
        }
        3 => {
            let step = *rng.pick(&[17u64, 32, 51, 64, 85, 128]);
            let levels = 255 / step + 1;
            for _ in 0..n {
                v.push(RGBA::new(
                    (rng.below(levels) * step) as u8,
                    (rng.below(levels) * step) as u8,
                    (rng.below(levels) * step) as u8,
                    255,
                ));
            }
        }
        _ => {
            let axis = rng.below(3);
            let fixed = rand_rgba(rng, true).to_rgba();
            for _ in 0..n {
                let mut c = fixed;
                c[axis as usize] = rng.below(256) as u8;
                v.push(RGBA::new(c[0], c[1], c[2], 255));
            }
        }
    }
    v
}

fn style_name(s: u64) -> &'static str {
    ["uniform", "clustered", "duplicated", "lattice", "axis"][s as usize]
}

fn corner_queries() -> Vec<RGBA> {
    let mut q = Vec::new();
    for r in [0u8, 255] {
        for g in [0u8, 255] {
            for b in [0u8, 255] {
                q.push(RGBA::new(r, g, b, 255));
            }
        }
    }
    q.push(RGBA::new(127, 127, 127, 255));
    q.push(RGBA::new(128, 128, 128, 0));
    q
}

fn gen_queries(rng: &mut Rng, pal: &[RGBA], n_random: usize) -> Vec<RGBA> {
    let mut qs = corner_queries();
    for _ in 0..n_random {
        let q = match rng.below(4) {
            0 | 1 => {
                let op = rng.chance(3, 4);
                rand_rgba(rng, op)
            }
            2 => {
                // next to a palette entry
                let [r, g, b, _] = rng.pick(pal).to_rgba();
                RGBA::new(
                    clampu8(r as i64 + rng.range(-9, 9)),
                    clampu8(g as i64 + rng.range(-9, 9)),
                    clampu8(b as i64 + rng.range(-9, 9)),
                    255,
                )
            }
            _ => {
                // midway between two entries: equal distances are likely
                let [r0, g0, b0, _] = rng.pick(pal).to_rgba();
                let [r1, g1, b1, _] = rng.pick(pal).to_rgba();
                RGBA::new(
                    ((r0 as u16 + r1 as u16) / 2) as u8,
                    ((g0 as u16 + g1 as u16) / 2) as u8,
                    ((b0 as u16 + b1 as u16) / 2) as u8,
                    255,
                )
            }
        };
        qs.push(q);
    }
    qs
}

// ---------------------------------------------------------------- octree

/// canonical preorder dump of `OcTree::to_digraph`: `T(leaf_count.min)[…]`, `L(rrggbb.count)`; `None`
/// when the text is not in the expected layout (then the shape is simply not compared)
fn digraph_shape(text: &str) -> Option<String> {
    #[derive(Default)]
    struct N {
        label: String,
        leaf: bool,
        kids: Vec<usize>,
    }
    let mut nodes: HashMap<usize, N> = HashMap::new();
    for line in text.lines() {
        let line = line.trim();
        if line.starts_with("digraph") || line.starts_with("rankdir") || line == "}" || line.is_empty() {
            continue;
        }
        if let Some((a, b)) = line.split_once(" -> ") {
            let (a, b): (usize, usize) = (a.trim().parse().ok()?, b.trim().parse().ok()?);
            nodes.entry(a).or_default().kids.push(b);
            continue;
        }
        let (id, rest) = line.split_once(' ')?;
        let id: usize = id.parse().ok()?;
        let label = rest.split("label=\"").nth(1)?.split('"').next()?.to_string();
        let n = nodes.entry(id).or_default();
        if let Some(fc) = rest.split("fillcolor=\"#").nth(1) {
            let col = fc.get(0..6)?;
            n.leaf = true;
            n.label = format!("L({col}.{label})");
        } else {
            let (lc, min) = label.split_once(' ')?;
            n.label = format!("T({lc}.{min})");
        }
    }
    fn dump(nodes: &HashMap<usize, N>, id: usize, s: &mut String) -> Option<()> {
        let n = nodes.get(&id)?;
        s.push_str(&n.label);
        if !n.leaf {
            s.push('[');
            for k in &n.kids {
                dump(nodes, *k, s)?;
            }
            s.push(']');
        }
        Some(())
    }
    let mut s = String::new();
    dump(&nodes, 0, &mut s)?;
    Some(s)
}

/// ops: comma separated; a number = `prune_until(n)`, `p` = `prune()`
fn run_oct(out: &mut Out, colors: &[RGBA], ops: &str, kind: &str) {
    let input = json!({"kind": "oct", "colors": rgba_hex(colors), "ops": ops});
    let crgb: Vec<Rgb> = colors.iter().map(|c| c.to_rgb()).collect();
    if too_many_hung() {
        return;
    }
    let (colors_v, ops_v) = (colors.to_vec(), ops.to_string());
    let res = watched(move || {
        let mut t = OcTree::new();
        for c in colors_v.iter() {
            t.insert(*c);
        }
        let mut bound: Option<usize> = None;
        for op in ops_v.split(',') {
            if op == "p" {
                t.prune();
            } else if let Ok(k) = op.parse::<usize>() {
                t.prune_until(k);
                bound = Some(k.max(8));
            }
        }
        let mut text = Vec::new();
        let shape = match guarded(|| t.to_digraph(&mut text)) {
            Ok(Ok(())) => String::from_utf8(text).ok().and_then(|s| digraph_shape(&s)),
            _ => None,
        };
        let pal = t.build_palette();
        (shape, pal, bound)
    });
    let Some(res) = res else {
        out.fail("quantisation does not terminate (OcTree insert/prune/prune_until)", input, json!("a palette"), no_answer());
        return;
    };
    out.hist(&format!("oct:{kind}"));
    let distinct: BTreeSet<Rgb> = crgb.iter().copied().collect();
    out.case(&format!("oct {} {}", rgb_hex(&crgb), ops), distinct.len() > 1);
    let req = format!("c13 oct {} {}", if ops.is_empty() { "-" } else { ops }, rgb_hex(&crgb));
    match res {
        Err(()) => {
            out.fail("OcTree insert/prune/build_palette panics", input, json!("a palette"), json!("panic"));
            out.corr(&req, "panic");
        }
        Ok((shape, pal, bound)) => {
            let prgb: Vec<Rgb> = pal.iter().map(|c| c.to_rgb()).collect();
            if let Some(b) = bound {
                // only `prune_until` promises the bounds; bare `prune()` calls may empty the tree
                let bare_prune = ops.split(',').any(|o| o == "p");
                if !colors.is_empty() && !bare_prune && (prgb.is_empty() || prgb.len() > b) {
                    out.fail(
                        "palette size after prune_until outside 1..=max(k,8)",
                        input.clone(),
                        json!(format!("1..={b}")),
                        json!(prgb.len()),
                    );
                }
            }
            // colours that fit every requested size are all kept (what `from_image` relies on when an
            // image's distinct colours fit the palette)
            let only_until = !ops.is_empty() && ops.split(',').all(|o| o.parse::<usize>().map(|k| k >= distinct.len() && k >= 1).unwrap_or(false));
            if only_until && !colors.is_empty() {
                let got: BTreeSet<Rgb> = prgb.iter().copied().collect();
                if got != distinct {
                    out.fail("prune_until(k) loses colours although the distinct colours fit k", input.clone(),
                             json!({"distinct": distinct.len(), "colours": rgb_hex(&distinct.iter().copied().collect::<Vec<_>>())}),
                             json!({"palette_size": prgb.len(), "palette": rgb_hex(&prgb)}));
                }
            }
            if distinct.len() <= 8 && ops.is_empty() {
                let got: BTreeSet<Rgb> = prgb.iter().copied().collect();
                if got != distinct {
                    out.fail("unpruned octree palette is not the set of inserted colours", input.clone(),
                             json!(rgb_hex(&distinct.iter().copied().collect::<Vec<_>>())), json!(rgb_hex(&prgb)));
                }
            }
            match shape {
                Some(s) => out.corr(&req, &format!("shape={} pal={}", s, rgb_hex(&prgb))),
                None => {
                    out.hist("oct:shape-unreadable");
                    out.corr(&format!("c13 octpal {}", &req[8..]), &format!("pal={}", rgb_hex(&prgb)))
                }
            }
        }
    }
}

// ---------------------------------------------------------------- quantize

#[derive(Clone)]
struct QuantCase {
    /// logical size of the full image
    height: usize,
    width: usize,
    /// backing buffer; pixel (r, c) of the full image is `data[start + r·row_stride + c·col_stride]`
    data: Vec<RGBA>,
    /// (start, row_stride, col_stride); `None` = dense row-major `(0, width, 1)`
    layout: Option<(usize, usize, usize)>,
    /// rows r0..r1, cols c0..c1 of the full image
    crop: Option<(usize, usize, usize, usize)>,
    k: usize,
    dither: bool,
    bg: Option<RGBA>,
    /// quantisations made before this one ON THE SAME THREAD (results not judged here): nothing they
    /// leave behind may influence this call
    before: Vec<QuantCase>,
    /// quantisations made before this one on the same thread with THE SAME `Image` value
    /// (k, dither, bg, how: 0 the same object, 1 a clone, 2 an identical crop of it)
    before_same: Vec<(usize, bool, Option<RGBA>, u8)>,
}

impl QuantCase {
    fn lay(&self) -> (usize, usize, usize) {
        self.layout.unwrap_or((0, self.width, 1))
    }
    /// raw pixel of the full image, by the harness' own index arithmetic
    fn raw(&self, r: usize, c: usize) -> RGBA {
        let (s, rs, cs) = self.lay();
        self.data[s + r * rs + c * cs]
    }
    fn to_json(&self) -> Value {
        json!({"kind": "quant", "height": self.height, "width": self.width, "data": rgba_hex(&self.data),
               "layout": self.layout.map(|(a, b, c)| vec![a, b, c]),
               "crop": self.crop.map(|(a, b, c, d)| vec![a, b, c, d]), "k": self.k.to_string(), "dither": self.dither,
               "bg": self.bg.map(|b| rgba_hex(&[b])),
               "before": self.before.iter().map(|c| c.to_json()).collect::<Vec<_>>(),
               "before_same": self.before_same.iter().map(|(k, d, b, how)| json!([k.to_string(), d, b.map(|b| rgba_hex(&[b])), how])).collect::<Vec<_>>()})
    }
    fn from_json(v: &Value) -> Option<QuantCase> {
        let crop = v["crop"].as_array().map(|a| {
            let g = |i: usize| a[i].as_u64().unwrap_or(0) as usize;
            (g(0), g(1), g(2), g(3))
        });
        let layout = v["layout"].as_array().map(|a| {
            let g = |i: usize| a[i].as_u64().unwrap_or(0) as usize;
            (g(0), g(1), g(2))
        });
        Some(QuantCase {
            height: v["height"].as_u64()? as usize,
            width: v["width"].as_u64()? as usize,
            data: rgba_unhex(v["data"].as_str()?),
            layout,
            crop,
            k: v["k"].as_str()?.parse().ok()?,
            dither: v["dither"].as_bool()?,
            bg: v["bg"].as_str().map(|s| rgba_unhex(s)[0]),
            before: v["before"].as_array().map(|a| a.iter().filter_map(QuantCase::from_json).collect()).unwrap_or_default(),
            before_same: v["before_same"].as_array().map(|a| a.iter().filter_map(|e| {
                Some((e[0].as_str()?.parse().ok()?, e[1].as_bool()?, e[2].as_str().map(|s| rgba_unhex(s)[0]), e[3].as_u64()? as u8))
            }).collect()).unwrap_or_default(),
        })
    }
    /// the `Image` (a view with this case's strides and crop), its size, and the origin of the crop
    fn image(&self) -> (Image, usize, usize, usize, usize) {
        let (start, rs, cs) = self.lay();
        let shape = if self.layout.is_none() {
            Shape::from(Size::new(self.height, self.width))
        } else {
            let end = if self.height == 0 || self.width == 0 { start } else { start + (self.height - 1) * rs + self.width * cs };
            Shape { start, end, width: self.width, height: self.height, row_stride: rs, col_stride: cs }
        };
        let full = Image::from_parts(Arc::from(self.data.clone().into_boxed_slice()), shape);
        match self.crop {
            None => (full, self.height, self.width, 0, 0),
            Some((r0, r1, c0, c1)) => (full.crop(r0..r1, c0..c1), r1 - r0, c1 - c0, r0, c0),
        }
    }
    /// the same logical image stored in another way: 1 transposed (column-major), 2 padded rows + offset,
    /// 3 every `cs`-th cell of wider rows, 4 column-major with gaps; the cells in between hold other colours
    fn relayout(mut self, rng: &mut Rng, kind: u64) -> QuantCase {
        if self.layout.is_some() || self.height == 0 || self.width == 0 || kind == 0 {
            return self;
        }
        let (h, w) = (self.height, self.width);
        let (start, rs, cs) = match kind {
            1 => (0, 1, h),
            2 => (rng.below(5) as usize, w + 1 + rng.below(4) as usize, 1),
            3 => {
                let cs = 2 + rng.below(2) as usize;
                (rng.below(3) as usize, w * cs + rng.below(3) as usize, cs)
            }
            _ => {
                let rs = 1 + rng.below(2) as usize;
                (rng.below(3) as usize, rs, h * rs + rng.below(3) as usize)
            }
        };
        let len = start + (h - 1) * rs + (w - 1) * cs + 1 + rng.below(3) as usize;
        let mut data: Vec<RGBA> = (0..len).map(|_| rand_rgba(rng, true)).collect();
        for r in 0..h {
            for c in 0..w {
                data[start + r * rs + c * cs] = self.data[r * w + c];
            }
        }
        self.data = data;
        self.layout = Some((start, rs, cs));
        self
    }
}

/// largest per-channel deviation seen between `blend_over` and the reference "over" operator below
static BLEND_MAX_DEV: AtomicUsize = AtomicUsize::new(0);
/// `blend_over` is float code with a fitted sRGB curve: it may be off the exact operator by a few units
const BLEND_TOLERANCE: usize = 4;

/// Porter–Duff "source over destination" on sRGB bytes, in linear light, premultiplied, in f64 — written
/// here from the definition, used only to cross-check the helper the crate (and `composite`) relies on
fn over_reference(bg: [u8; 4], c: [u8; 4]) -> Option<Rgb> {
    fn s2l(v: u8) -> f64 {
        let x = v as f64 / 255.0;
        if x <= 0.04045 { x / 12.92 } else { ((x + 0.055) / 1.055).powf(2.4) }
    }
    fn l2s(x: f64) -> u8 {
        let y = if x <= 0.0031308 { x * 12.92 } else { 1.055 * x.powf(1.0 / 2.4) - 0.055 };
        (y * 255.0 + 0.5).clamp(0.0, 255.0) as u8
    }
    let (sa, da) = (c[3] as f64 / 255.0, bg[3] as f64 / 255.0);
    let oa = sa + da * (1.0 - sa);
    if oa <= 1e-9 {
        return None;
    }
    let mut o = [0u8; 3];
    for i in 0..3 {
        o[i] = l2s((s2l(c[i]) * sa + s2l(bg[i]) * da * (1.0 - sa)) / oa);
    }
    Some(o)
}

/// the property's "alpha composited over the background": opaque pixels are themselves; translucent ones
/// through rasterize's `blend_over` (trusted external float code, cross-checked against `over_reference`)
fn composite(bg: RGBA, c: RGBA) -> Rgb {
    let (bgb, cb) = (bg.to_rgba(), c.to_rgba());
    if cb[3] < 255 {
        let got = bg.blend_over(c).to_rgb();
        if let Some(want) = over_reference(bgb, cb) {
            let dev = (0..3).map(|i| (got[i] as i64 - want[i] as i64).unsigned_abs() as usize).max().unwrap_or(0);
            BLEND_MAX_DEV.fetch_max(dev, SeqCst);
        }
        got
    } else {
        [cb[0], cb[1], cb[2]]
    }
}

/// `ColorPalette::from_image` over other `Surface` implementors holding the same picture: an owned surface,
/// a view into a larger one, a transposed owned surface, a reference.  Returns (implementor, palette).
fn other_implementors(h: usize, w: usize, raw: &[RGBA], k: usize, bg: RGBA, junk: RGBA) -> Vec<(&'static str, Option<Vec<Rgb>>)> {
    use surf_n_term::SurfaceOwned;
    let pal = |p: Option<ColorPalette>| p.map(|p| p.colors().iter().map(|c| c.to_rgb()).collect::<Vec<_>>());
    let mut res = Vec::new();
    // NOTE `SurfaceOwned::from_vec` asserts `height * width < data.len()` (strictly): one spare cell
    let spare = |mut v: Vec<RGBA>| {
        v.push(junk);
        v
    };
    let owned = SurfaceOwned::from_vec(Size::new(h, w), spare(raw.to_vec()));
    res.push(("&SurfaceOwned", pal(ColorPalette::from_image(&owned, k, bg))));
    // a view into a larger surface
    let (hh, ww) = (h + 2, w + 3);
    let mut big = vec![junk; hh * ww];
    for r in 0..h {
        for c in 0..w {
            big[(r + 1) * ww + c + 2] = raw[r * w + c];
        }
    }
    let bigs = SurfaceOwned::from_vec(Size::new(hh, ww), spare(big));
    res.push(("SurfaceView", pal(ColorPalette::from_image(bigs.view(1..h + 1, 2..w + 2), k, bg))));
    // stored column-major, seen through transpose()
    let mut tr = vec![junk; h * w];
    for r in 0..h {
        for c in 0..w {
            tr[c * h + r] = raw[r * w + c];
        }
    }
    let trs = SurfaceOwned::from_vec(Size::new(w, h), spare(tr));
    res.push(("transpose()", pal(ColorPalette::from_image(trs.transpose(), k, bg))));
    res.push(("SurfaceOwned", pal(ColorPalette::from_image(owned, k, bg))));
    res
}

/// Does `from_image` look at pixel `j` of an `h`×`w` image when `k` colours are requested?  Observed, not
/// computed: a uniform image with one marker pixel (two colours: never pruned) — the marker colour is in
/// the palette iff that position is sampled.  `None`: no answer.
fn position_sampled(h: usize, w: usize, k: usize, bg: Option<RGBA>, j: usize) -> Option<bool> {
    let (a, b) = (RGBA::new(255, 0, 255, 255), RGBA::new(0, 255, 0, 255));
    let mut data = vec![b; h * w];
    data[j] = a;
    let img = Image::from_parts(Arc::from(data.into_boxed_slice()), Shape::from(Size::new(h, w)));
    match watched(move || img.quantize(k, false, bg).map(|(pal, _)| pal.colors().iter().any(|c| c.to_rgb() == [255, 0, 255]))) {
        Some(Ok(Some(present))) => Some(present),
        _ => None,
    }
}

fn run_quant(out: &mut Out, case: &QuantCase, kind: &str) {
    let input = case.to_json();
    let (img, h, w, r0, c0) = case.image();
    let bg_eff = case.bg.unwrap_or(RGBA::new(0, 0, 0, 255));
    // the viewed pixels, row-major, computed from the backing buffer by the harness' own arithmetic
    // (independent of Surface::get / iter / view)
    let mut px: Vec<Rgb> = Vec::with_capacity(h * w);
    let mut rawpx: Vec<RGBA> = Vec::with_capacity(h * w);
    for r in 0..h {
        for c in 0..w {
            rawpx.push(case.raw(r0 + r, c0 + c));
            px.push(composite(bg_eff, case.raw(r0 + r, c0 + c)));
        }
    }
    let distinct: BTreeSet<Rgb> = px.iter().copied().collect();
    let (k, dither, bg) = (case.k, case.dither, case.bg);
    if too_many_hung() {
        return;
    }
    let before: Vec<(Image, usize, bool, Option<RGBA>)> =
        case.before.iter().map(|b| (b.image().0, b.k, b.dither, b.bg)).collect();
    let before_same = case.before_same.clone();
    let res = watched(move || {
        // earlier calls on this very thread
        for (bi, bk, bd, bbg) in before.iter() {
            let _ = guarded(|| bi.quantize(*bk, *bd, *bbg).is_some());
        }
        // earlier calls with the very same image value
        for (bk, bd, bbg, how) in before_same.iter() {
            let im = match how {
                0 => None,
                1 => Some(img.clone()),
                _ => Some(img.crop(.., ..)),
            };
            let im = im.as_ref().unwrap_or(&img);
            let _ = guarded(|| im.quantize(*bk, *bd, *bbg).is_some());
        }
        img.quantize(k, dither, bg).map(|(pal, q)| {
            let prgb: Vec<Rgb> = pal.colors().iter().map(|c| c.to_rgb()).collect();
            let mut size_ok = pal.size() == prgb.len();
            for i in 0..prgb.len().min(pal.size()) {
                size_ok = size_ok && pal.get(i).to_rgb() == prgb[i];
            }
            // index image read from its backing data with our own arithmetic
            let (qs, qd) = (q.shape(), q.data());
            let mut idx = Vec::with_capacity(h * w);
            for r in 0..h {
                for c in 0..w {
                    idx.push(qd.get(qs.start + r * qs.row_stride + c * qs.col_stride).copied());
                }
            }
            (prgb, qs.height, qs.width, idx, size_ok && qd.len() >= h * w)
        })
    });
    let Some(res) = res else {
        out.fail("quantisation does not terminate (Image::quantize)", input, json!("a palette and an index image"), no_answer());
        return;
    };
    out.hist(&format!("quant:{kind}"));
    out.hist(if dither { "quant:dither" } else { "quant:plain" });
    if case.crop.is_some() {
        out.hist("quant:cropped");
    }
    if let Some((_, rs, cs)) = case.layout {
        out.hist(if cs != 1 { "quant:col-strided" } else if rs != case.width { "quant:row-padded" } else { "quant:offset" });
    }
    if !case.before.is_empty() {
        out.hist("quant:after-other-calls");
    }
    if !case.before_same.is_empty() {
        out.hist("quant:after-calls-on-same-image");
    }
    // the distinct colours fit the request; whether the image is "small enough not to be subsampled" is
    // not decided by a constant here but, when a colour is missing, by probing the implementation
    // (`position_sampled`)
    let fits = k >= 1 && distinct.len() <= k;
    if fits {
        out.hist("quant:fits");
    }
    out.case(&format!("quant {} {} {} {} {}", h, w, k, dither, rgb_hex(&px)), distinct.len() > 1);
    let req = format!("c13 quant {} {} {} {} {}", h, w, k, if dither { 1 } else { 0 }, rgb_hex(&px));
    match res {
        Err(()) => {
            if h * w > 0 && k >= 1 {
                out.fail("Image::quantize panics", input, json!("a palette and an index image"), json!("panic"));
            }
            out.corr(&req, "panic");
        }
        Ok(None) => {
            if h * w > 0 {
                out.fail("Image::quantize returns None for a non-empty image", input, json!("Some"), json!("None"));
            }
            out.corr(&req, "none");
        }
        Ok(Some((prgb, qh, qw, idx, size_ok))) => {
            let n = prgb.len();
            let bound = k.max(8);
            if n < 1 || n > bound {
                out.fail("palette size outside 1..=max(requested,8)", input.clone(), json!(format!("1..={bound}")), json!(n));
            }
            if !size_ok {
                out.fail("ColorPalette::size/get disagree with colors(), or the index image's buffer is too short", input.clone(),
                         json!("size() = colors().len(), get(i) = colors()[i], data().len() >= h*w"), json!("mismatch"));
            }
            if qh != h || qw != w {
                out.fail("index image has a different size", input.clone(), json!([h, w]), json!([qh, qw]));
            }
            let mut shown = Vec::with_capacity(idx.len());
            let mut all_exact = true;
            let mut reported = false;
            let mut lossless_judged = false;
            for (p, i) in idx.iter().enumerate() {
                let src = px[p];
                let pos = json!({"row": p / w, "col": p % w, "pixel": rgb_hex(&[src])});
                let Some(i) = i else {
                    if !reported {
                        out.fail("index image lacks a cell", input.clone(), pos, json!(null));
                        reported = true;
                    }
                    all_exact = false;
                    shown.push("oob".to_string());
                    continue;
                };
                if *i >= n {
                    if !reported {
                        out.fail("index does not refer to a palette colour", input.clone(), json!({"at": pos, "palette_size": n}), json!(i));
                        reported = true;
                    }
                    all_exact = false;
                    shown.push("oob".to_string());
                    continue;
                }
                let d = dist(src, prgb[*i]);
                if d != 0 {
                    all_exact = false;
                }
                if !dither {
                    let (m, _) = min_count(&prgb, src);
                    if d != m && !reported {
                        out.fail(
                            "pixel not mapped to a nearest palette colour (no dithering)",
                            input.clone(),
                            json!({"at": pos, "min_squared_distance": m, "palette": rgb_hex(&prgb)}),
                            json!({"index": i, "color": rgb_hex(&[prgb[*i]]), "squared_distance": d}),
                        );
                        reported = true;
                    }
                }
                if fits && d != 0 && !reported && !lossless_judged {
                    lossless_judged = true;
                    // which colour of the image is missing from the palette?
                    let missing: Option<Rgb> =
                        if !prgb.contains(&src) { Some(src) } else { distinct.iter().copied().find(|c| !prgb.contains(c)) };
                    let verdict = match missing {
                        // every colour is available (so every dithering error is zero): must be exact
                        None => Some("every distinct colour is in the palette"),
                        // the property's own domain: fewer than 200 pixels per requested colour are never
                        // subsampled (rule of the verified tree, `C13_lossless`); sampling MORE than that loses
                        // colours the property promises to keep
                        Some(_) if ((h * w) as u128) < 200 * (k as u128) => {
                            Some("fewer than 200 pixels per requested colour: such an image is not to be subsampled")
                        }
                        // beyond it the implementation decides; ask it (so that sampling less does not alarm)
                        Some(c) => {
                            // is the image subsampled?  ask the implementation: a marker pixel at a position of
                            // the missing colour in an otherwise uniform image of the same size, same k
                            let positions: Vec<usize> = px.iter().enumerate().filter(|(_, x)| **x == c).map(|(j, _)| j).take(48).collect();
                            let mut all = true;
                            for j in positions {
                                match position_sampled(h, w, k, bg, j) {
                                    Some(true) => {}
                                    _ => {
                                        all = false;
                                        break;
                                    }
                                }
                            }
                            if all { Some("the implementation samples every probed position of the missing colour") } else { None }
                        }
                    };
                    match verdict {
                        Some(why) => {
                            out.fail(
                                "image whose colours fit the palette is not reproduced exactly",
                                input.clone(),
                                json!({"at": pos, "distinct_colours": distinct.len(), "not_subsampled_because": why}),
                                json!({"index": i, "color": rgb_hex(&[prgb[*i]]), "palette": rgb_hex(&prgb),
                                       "missing": missing.map(|c| rgb_hex(&[c]))}),
                            );
                            reported = true;
                        }
                        None => out.hist("quant:fits-but-subsampled(probed)"),
                    }
                }
                shown.push(show_find(&prgb, src, *i));
            }
            if dither && !all_exact {
                out.corr(&req, &format!("pal={} inexact", rgb_hex(&prgb)));
            } else {
                out.corr(&req, &format!("pal={} idx={}", rgb_hex(&prgb), shown.join(",")));
            }
            if out.evaluations % 37 == 3 {
                out.sample(json!({"h": h, "w": w, "k": k, "dither": dither, "distinct": distinct.len(), "palette": n}));
            }
            // the same picture through other Surface implementors (palette extraction only)
            if case.before.is_empty() && case.before_same.is_empty() && !dither && h * w > 0 && k >= 1 && k < (1 << 40) {
                let junk = RGBA::new(1, 254, 3, 255);
                let raw2 = rawpx.clone();
                let alt = watched(move || other_implementors(h, w, &raw2, k, bg_eff, junk));
                if !matches!(alt, Some(Ok(_))) {
                    out.fail("from_image panics or does not terminate over another Surface implementor", input.clone(), json!("a palette"), json!(if alt.is_none() { "no answer" } else { "panic" }));
                }
                if let Some(Ok(alts)) = alt {
                    for (name, p) in alts {
                        out.hist("quant:other-implementor");
                        let preq = format!("c13 pal {} {} {} {}", h, w, k, rgb_hex(&px));
                        match p {
                            None => {
                                out.fail("from_image returns None for a non-empty surface", json!({"implementor": name, "case": input.clone()}), json!("Some"), json!("None"));
                                out.corr(&preq, "none");
                            }
                            Some(p) => {
                                if p.is_empty() || p.len() > bound {
                                    out.fail("palette size outside 1..=max(requested,8)", json!({"implementor": name, "case": input.clone()}), json!(format!("1..={bound}")), json!(p.len()));
                                }
                                if fits && ((h * w) as u128) < 200 * (k as u128) {
                                    if let Some(c) = distinct.iter().find(|c| !p.contains(c)) {
                                        out.fail("palette lacks a colour of an image whose colours fit (from_image over another Surface implementor)",
                                                 json!({"implementor": name, "case": input.clone()}), json!({"missing": rgb_hex(&[*c])}), json!(rgb_hex(&p)));
                                    }
                                }
                                out.corr(&preq, &format!("pal={}", rgb_hex(&p)));
                            }
                        }
                    }
                }
            }
        }
    }
}

/// image data with `nc` distinct base colours (fewer after compositing collisions)
fn gen_image(rng: &mut Rng, height: usize, width: usize, nc: usize, alpha: bool) -> Vec<RGBA> {
    let style = rng.below(5);
    let mut cols = gen_colors(rng, nc, style);
    if alpha {
        let mut twins = Vec::new();
        for c in cols.iter_mut() {
            if rng.chance(1, 2) {
                let [r, g, b, _] = c.to_rgba();
                *c = RGBA::new(r, g, b, *rng.pick(&[0u8, 1, 64, 127, 128, 200, 253, 254, 254]));
                if rng.chance(1, 2) {
                    // the same colour, opaque: competes with the composited one for the nearest entry
                    twins.push(RGBA::new(r, g, b, 255));
                }
            }
        }
        cols.extend(twins);
    }
    let mode = rng.below(3);
    (0..height * width)
        .map(|i| match mode {
            0 => *rng.pick(&cols),
            1 => cols[i % cols.len()],
            _ => cols[((i / width.max(1)) * 7 + i % width.max(1)) % cols.len()],
        })
        .collect()
}

fn gen_quant(rng: &mut Rng, big: bool) -> (QuantCase, &'static str) {
    let (mut hh, mut ww) = if big {
        (rng.range(20, 64) as usize, rng.range(20, 64) as usize)
    } else {
        (rng.range(1, 14) as usize, rng.range(1, 14) as usize)
    };
    if rng.chance(1, 8) {
        hh = 1;
    }
    if rng.chance(1, 8) {
        ww = 1;
    }
    let nc = match rng.below(4) {
        0 => rng.range(1, 9) as usize,
        1 => rng.range(1, 40) as usize,
        _ => rng.range(1, 300) as usize,
    };
    let alpha = rng.chance(1, 3);
    let data = gen_image(rng, hh, ww, nc, alpha);
    let crop = if rng.chance(1, 3) && hh > 1 && ww > 1 {
        let r0 = rng.below(hh as u64 - 1) as usize;
        let r1 = rng.range(r0 as i64 + 1, hh as i64) as usize;
        let c0 = rng.below(ww as u64 - 1) as usize;
        let c1 = rng.range(c0 as i64 + 1, ww as i64) as usize;
        Some((r0, r1, c0, c1))
    } else {
        None
    };
    let bg = match rng.below(6) {
        0 | 1 => None,
        2 => Some(RGBA::new(255, 255, 255, 255)),
        3 => Some(RGBA::new(0, 0, 0, 255)),
        4 => Some(rand_rgba(rng, true)),
        _ => Some(rand_rgba(rng, false)),
    };
    // distinct colours of the view after compositing, to aim k at the interesting boundary
    let bg_eff = bg.unwrap_or(RGBA::new(0, 0, 0, 255));
    let (r0, r1, c0, c1) = crop.unwrap_or((0, hh, 0, ww));
    let mut set = BTreeSet::new();
    for r in r0..r1 {
        for c in c0..c1 {
            set.insert(composite(bg_eff, data[r * ww + c]));
        }
    }
    let d = set.len() as i64;
    let (k, kind) = match rng.below(8) {
        0 => (rng.range(1, 300) as usize, "k-random"),
        1 => (rng.range(1, 12) as usize, "k-small"),
        2 => (d.max(1) as usize, "k=distinct"),
        3 => ((d - 1).max(1) as usize, "k=distinct-1"),
        4 => ((d + 1) as usize, "k=distinct+1"),
        5 => ((d - 2).max(1) as usize, "k=distinct-2"),
        6 => ((d / 2).max(1) as usize, "k=distinct/2"),
        _ => ((d + rng.range(0, 20)) as usize, "k>=distinct"),
    };
    let case = QuantCase { height: hh, width: ww, data, layout: None, crop, k, dither: rng.chance(1, 2), bg, before: vec![], before_same: vec![] };
    // the same picture through another storage layout (transposed, padded, strided), half of the time
    let lk = if rng.chance(1, 2) { 0 } else { 1 + rng.below(4) };
    (case.relayout(rng, lk), kind)
}

/// An image in (or at the edge of) the band `100·ps .. 200·ps` pixels with at most `ps` distinct colours of
/// which all but one occur exactly once, at scattered positions: it must be reproduced exactly, and a
/// sampling rule that skips pixels there loses the rare colours.
fn gen_band(rng: &mut Rng, ps: usize, area: Option<usize>) -> QuantCase {
    let (lo, hi) = (100 * ps + 1, 200 * ps - 1);
    let (hh, ww) = match area {
        Some(a) => (1, a),
        None => loop {
            let (hh, ww) = if rng.chance(1, 4) {
                (1usize, rng.range(lo as i64, hi as i64) as usize)
            } else {
                (rng.range(2, 64) as usize, rng.range(2, 64) as usize)
            };
            if hh * ww >= lo && hh * ww <= hi {
                break (hh, ww);
            }
        },
    };
    let style = rng.below(2);
    let mut cols = gen_colors(rng, ps, style);
    cols.sort_by_key(|c| c.to_rgba());
    cols.dedup();
    let bulk = cols[0];
    let mut data = vec![bulk; hh * ww];
    for c in cols.iter().skip(1) {
        let j = rng.below((hh * ww) as u64) as usize;
        data[j] = *c;
    }
    QuantCase { height: hh, width: ww, data, layout: None, crop: None, k: ps, dither: rng.chance(1, 2), bg: None, before: vec![], before_same: vec![] }
}

fn opaque(cs: &[Rgb]) -> Vec<RGBA> {
    cs.iter().map(|c| RGBA::new(c[0], c[1], c[2], 255)).collect()
}

fn main() {
    let cfg = Cfg::from_env();
    let mut out = cfg.out();
    if std::env::var("C13_TRACE").is_err() {
        verif_harness::silence_panics();
    }
    let rule = "kd: one case per (palette, query); non-trivial = palette of >= 2 entries; oct: one case per (colour sequence, ops), non-trivial = >= 2 distinct colours; quant: one case per (view pixels, k, dither), non-trivial = >= 2 distinct colours; distinct by full input";

    if let Some(rep) = &cfg.replay {
        let inp = &rep["failure"]["input"];
        match inp["kind"].as_str() {
            Some("kd") => run_kd(
                &mut out,
                &rgba_unhex(inp["palette"].as_str().unwrap_or("-")),
                &rgba_unhex(inp["queries"].as_str().unwrap_or("-")),
                "replay",
            ),
            Some("oct") => run_oct(&mut out, &rgba_unhex(inp["colors"].as_str().unwrap_or("-")), inp["ops"].as_str().unwrap_or(""), "replay"),
            Some("quant") => {
                if let Some(c) = QuantCase::from_json(inp) {
                    run_quant(&mut out, &c, "replay")
                }
            }
            _ => {}
        }
        out.finish(rule);
        return;
    }

    if cfg.thorough {
        LONG_SECS.store(120, SeqCst);
    }
    let mut rng = Rng::new(cfg.seed);
    let scale: usize = if cfg.thorough { 60 } else { 5 };

    // ---- white-box corner cases
    let greys: Vec<Rgb> = (0..10u8).map(|i| [i * 16, i * 16, i * 16]).collect();
    run_kd(&mut out, &opaque(&[[7, 7, 7]]), &corner_queries(), "corner");
    run_kd(&mut out, &opaque(&[[7, 7, 7]; 5]), &corner_queries(), "corner");
    run_kd(&mut out, &opaque(&[[0, 0, 0], [255, 255, 255]]), &corner_queries(), "corner");
    run_kd(&mut out, &opaque(&[[10, 0, 0], [10, 5, 0], [10, 0, 5], [10, 5, 5], [10, 9, 9], [10, 1, 1]]), &opaque(&[[10, 3, 3], [9, 9, 0], [11, 0, 9], [0, 5, 5]]), "corner");
    run_kd(&mut out, &opaque(&greys), &opaque(&[[8, 8, 8], [24, 24, 24], [200, 0, 0], [72, 72, 72]]), "corner");
    for ops in ["", "8", "9", "1", "8,p", "p", "p,p,p", "3,p,p,p,p,p,p,p,p,p"] {
        run_oct(&mut out, &opaque(&greys), ops, "corner");
        run_oct(&mut out, &opaque(&greys[..9]), ops, "corner");
        run_oct(&mut out, &opaque(&greys[..8]), ops, "corner");
        run_oct(&mut out, &opaque(&[[1, 2, 3]; 4]), ops, "corner");
    }
    run_oct(&mut out, &[], "", "corner");
    run_oct(&mut out, &[], "8", "corner");
    {
        // nine leaves, k = 8: the stale summary lets the palette collapse far below the request
        let nine: Vec<Rgb> = vec![[0, 0, 0], [255, 0, 0], [0, 255, 0], [0, 0, 255], [255, 255, 0], [255, 0, 255], [0, 255, 255], [255, 255, 255], [254, 255, 255]];
        let mut data = opaque(&nine);
        data.extend(opaque(&nine[..3]));
        for dither in [false, true] {
            for k in [1usize, 8, 9, 12] {
                run_quant(&mut out, &QuantCase { height: 3, width: 4, data: data.clone(), layout: None, crop: None, k, dither, bg: None, before: vec![], before_same: vec![] }, "corner");
            }
        }
        // exact fit: n distinct colours, k = n (and n ± 1), both dither settings; also through the octree API
        for n in [8usize, 9, 16, 64, 7] {
            let cols: Vec<Rgb> = (0..n).map(|i| [(i * 37 % 256) as u8, (i * 101 % 256) as u8, (255 - i * 3) as u8]).collect();
            let mut data = opaque(&cols);
            data.extend(opaque(&cols[..n / 2]));
            let (hh, ww) = (3usize, n / 2);
            for dither in [false, true] {
                for k in [n, n + 1, n.saturating_sub(1).max(1)] {
                    run_quant(&mut out, &QuantCase { height: hh, width: ww, data: data.clone(), layout: None, crop: None, k, dither, bg: None, before: vec![], before_same: vec![] }, "exact-fit");
                }
            }
            run_oct(&mut out, &opaque(&cols), &n.to_string(), "exact-fit");
            run_oct(&mut out, &opaque(&cols), &format!("{},{}", n + 5, n), "exact-fit");
        }
        // one colour, duplicates only
        run_quant(&mut out, &QuantCase { height: 5, width: 3, data: opaque(&[[9, 8, 7]; 15]), layout: None, crop: None, k: 1, dither: true, bg: None, before: vec![], before_same: vec![] }, "corner");
        run_quant(&mut out, &QuantCase { height: 1, width: 1, data: opaque(&[[255, 255, 255]]), layout: None, crop: None, k: 300, dither: false, bg: None, before: vec![], before_same: vec![] }, "corner");
        // transparent pixels over several backgrounds
        let tr: Vec<RGBA> = (0..12u8).map(|i| RGBA::new(i * 20, 255 - i * 20, 7 * i, if i % 3 == 0 { 255 } else { i * 21 })).collect();
        for bg in [None, Some(RGBA::new(255, 255, 255, 255)), Some(RGBA::new(10, 200, 90, 255)), Some(RGBA::new(10, 200, 90, 100))] {
            run_quant(&mut out, &QuantCase { height: 3, width: 4, data: tr.clone(), layout: None, crop: None, k: 16, dither: false, bg, before: vec![], before_same: vec![] }, "corner");
            run_quant(&mut out, &QuantCase { height: 3, width: 4, data: tr.clone(), layout: None, crop: Some((0, 3, 1, 3)), k: 4, dither: true, bg, before: vec![], before_same: vec![] }, "corner");
        }
        // almost opaque / almost transparent pixels whose composited colour is 1 unit away from a colour
        // that is itself in the image: compositing in `from_image` and in `quantize` must agree
        {
            let mut made = 0;
            'outer: for bgc in [[255u8, 255, 255], [0, 0, 0], [255, 0, 0], [0, 40, 255]] {
                for raw in [[100u8, 100, 100], [30, 200, 90], [200, 60, 10], [128, 128, 128], [10, 10, 240], [250, 250, 5]] {
                    for al in [254u8, 253, 1, 2] {
                        let bgr = RGBA::new(bgc[0], bgc[1], bgc[2], 255);
                        let p = RGBA::new(raw[0], raw[1], raw[2], al);
                        let v = composite(bgr, p);
                        let near: Rgb = if al >= 128 { raw } else { bgc };
                        if v == near || dist(v, near) > 12 {
                            continue; // compositing did not move the colour off its neighbour (or too far)
                        }
                        // image: the translucent pixel, its opaque neighbour colour, the composited colour's
                        // other neighbours, two far fillers
                        let mut cols: Vec<RGBA> = vec![p, RGBA::new(near[0], near[1], near[2], 255)];
                        for ch in 0..3 {
                            let mut n1 = v;
                            n1[ch] = n1[ch].wrapping_add(1).max(1);
                            cols.push(RGBA::new(n1[0], n1[1], n1[2], 255));
                        }
                        cols.push(RGBA::new(255 - bgc[0], 255 - bgc[1], 120, 255));
                        cols.push(RGBA::new(7, 99, 201, 255));
                        let mut data = cols.clone();
                        data.push(p);
                        let dset: BTreeSet<Rgb> = data.iter().map(|c| composite(bgr, *c)).collect();
                        for dither in [false, true] {
                            for k in [dset.len(), dset.len() + 3] {
                                run_quant(&mut out, &QuantCase { height: 2, width: 4, data: data.clone(), layout: None, crop: None, k, dither, bg: Some(bgr), before: vec![], before_same: vec![] }, "alpha-edge");
                            }
                        }
                        made += 1;
                        if made >= 24 {
                            break 'outer;
                        }
                    }
                }
            }
            out.extra("alpha_edge_cases", json!(made));
        }
        // around the subsampling threshold h*w/(100k) = 2 with k = 1: 199, 200, 201 pixels
        for n in [199usize, 200, 201, 399, 400] {
            let data = gen_image(&mut rng, 1, n, 5, false);
            run_quant(&mut out, &QuantCase { height: 1, width: n, data: data.clone(), layout: None, crop: None, k: 1, dither: false, bg: None, before: vec![], before_same: vec![] }, "corner");
            run_quant(&mut out, &QuantCase { height: n, width: 1, data, layout: None, crop: None, k: 5, dither: true, bg: None, before: vec![], before_same: vec![] }, "corner");
        }
        // huge requests: `palette_size * 100` must not overflow (2^62 * 100 wraps to 0)
        for k in [usize::MAX, 1usize << 62, 184467440737095517, 184467440737095516, (1usize << 63) + 1] {
            let data = gen_image(&mut rng, 3, 5, 11, false);
            run_quant(&mut out, &QuantCase { height: 3, width: 5, data, layout: None, crop: None, k, dither: k % 2 == 0, bg: None, before: vec![], before_same: vec![] }, "corner");
        }
        // empty image: quantize answers None (outside the property, correspondence only)
        run_quant(&mut out, &QuantCase { height: 0, width: 3, data: vec![], layout: None, crop: None, k: 4, dither: false, bg: None, before: vec![], before_same: vec![] }, "corner");
        run_quant(&mut out, &QuantCase { height: 3, width: 0, data: vec![], layout: None, crop: None, k: 4, dither: true, bg: None, before: vec![], before_same: vec![] }, "corner");
    }

    // ---- storage layouts: the same 3×4 / 2×5 picture dense, transposed, padded, strided, and cropped on top
    {
        let pic: Vec<Rgb> = (0..12u32).map(|i| [(i * 20) as u8, (250 - i * 9) as u8, ((i * 53) % 251) as u8]).collect();
        for lk in 0..5u64 {
            for (crop, k) in [(None, 12usize), (None, 5), (Some((1usize, 3usize, 1usize, 4usize)), 6), (Some((0, 3, 2, 3)), 3)] {
                for dither in [false, true] {
                    let base = QuantCase { height: 3, width: 4, data: opaque(&pic), layout: None, crop, k, dither, bg: None, before: vec![], before_same: vec![] };
                    run_quant(&mut out, &base.relayout(&mut rng, lk), "layout");
                }
            }
        }
    }
    // ---- calls in sequence on one thread: a lossy dithered run first, then images whose colours fit (equal,
    //      narrower, wider), dithered and not — each call must behave as if it were the first
    let n_seq = 16 * scale;
    for i in 0..n_seq {
        let (h0, w0) = (rng.range(2, 12) as usize, rng.range(2, 16) as usize);
        let nc0 = 60 + rng.below(200) as usize;
        let first = QuantCase { height: h0, width: w0, data: gen_image(&mut rng, h0, w0, nc0, false),
                                layout: None, crop: None, k: rng.range(1, 6) as usize, dither: true, bg: None, before: vec![], before_same: vec![] };
        let mut seq = vec![first];
        for j in 0..(1 + rng.below(2)) {
            let w1 = match (i as u64 + j) % 3 {
                0 => w0,
                1 => rng.range(1, w0 as i64) as usize,
                _ => w0 + rng.range(1, 6) as usize,
            };
            let h1 = rng.range(1, 8) as usize;
            // few colours close to each other: a stray error of a few units changes the answer
            let d = rng.range(2, 8) as usize;
            let centre = rand_rgba(&mut rng, true).to_rgba();
            let mut cols: Vec<RGBA> = Vec::new();
            while cols.len() < d {
                let c = RGBA::new(
                    clampu8(centre[0] as i64 + rng.range(-3, 3)),
                    clampu8(centre[1] as i64 + rng.range(-3, 3)),
                    clampu8(centre[2] as i64 + rng.range(-3, 3)),
                    255,
                );
                if !cols.contains(&c) {
                    cols.push(c);
                }
            }
            let data: Vec<RGBA> = (0..h1 * w1).map(|_| *rng.pick(&cols)).collect();
            let case = QuantCase { height: h1, width: w1, data, layout: None, crop: None, k: d + rng.below(3) as usize,
                                   dither: !rng.chance(1, 5), bg: None, before: seq.clone(), before_same: vec![] };
            run_quant(&mut out, &case, "sequence");
            let mut plain = case.clone();
            plain.before = vec![];
            seq.push(plain);
        }
    }

    // ---- the same image value quantised repeatedly on one thread, ONE parameter varied per step (background,
    //      dither flag, palette size); the object itself, a clone, an identical crop; translucent pixels so
    //      that the background matters; colours fit, so every call must reproduce the picture
    let bgs = [None, Some(RGBA::new(255, 255, 255, 255)), Some(RGBA::new(200, 30, 90, 255)), Some(RGBA::new(0, 90, 255, 255))];
    for i in 0..12 * scale {
        let (hh, ww) = (rng.range(1, 7) as usize, rng.range(2, 8) as usize);
        let nc = rng.range(2, 7) as usize;
        let mut data = gen_image(&mut rng, hh, ww, nc, true);
        data[0] = RGBA::new(data[0].to_rgba()[0], data[0].to_rgba()[1], data[0].to_rgba()[2], *rng.pick(&[40u8, 128, 200]));
        let crop = if rng.chance(1, 3) && hh > 1 { Some((0, hh - 1, 0, ww)) } else { None };
        let lk = if rng.chance(2, 3) { 0 } else { 1 + rng.below(4) };
        let k0 = 2 * nc + 6;
        let mut params: Vec<(usize, bool, Option<RGBA>)> = vec![(k0, rng.chance(1, 2), *rng.pick(&bgs))];
        for _ in 0..(1 + rng.below(3)) {
            let (k, d, b) = *params.last().unwrap();
            let next = match rng.below(4) {
                0 | 1 => (k, d, *rng.pick(&bgs)),
                2 => (k, !d, b),
                _ => (if k == k0 { k0 + 1 + rng.below(4) as usize } else { k0 }, d, b),
            };
            params.push(next);
        }
        let base = QuantCase { height: hh, width: ww, data, layout: None, crop, k: k0, dither: false, bg: None, before: vec![], before_same: vec![] }
            .relayout(&mut rng, lk);
        let mut earlier: Vec<(usize, bool, Option<RGBA>, u8)> = Vec::new();
        for (k, d, b) in params {
            let mut case = base.clone();
            (case.k, case.dither, case.bg) = (k, d, b);
            case.before_same = earlier.clone();
            run_quant(&mut out, &case, "same-image");
            earlier.push((k, d, b, ((i as u64 + rng.below(3)) % 3) as u8));
        }
    }

    // ---- k-d tree: palettes of 1..=512 colours
    let n_pal = 220 * scale;
    for i in 0..n_pal {
        let n = match rng.below(6) {
            0 => rng.range(1, 8) as usize,
            1 => rng.range(1, 40) as usize,
            2 => rng.range(200, 512) as usize,
            3 => *rng.pick(&[1usize, 2, 3, 4, 5, 7, 8, 9, 15, 16, 17, 255, 256, 257, 511, 512]),
            _ => rng.range(1, 512) as usize,
        };
        let style = (i as u64) % 5;
        let mut pal = gen_colors(&mut rng, n, style);
        if rng.chance(1, 6) {
            for c in pal.iter_mut() {
                let [r, g, b, _] = c.to_rgba();
                *c = RGBA::new(r, g, b, rng.below(256) as u8);
            }
        }
        let nq = if n > 128 { 60 } else { 90 };
        let qs = gen_queries(&mut rng, &pal, nq);
        run_kd(&mut out, &pal, &qs, style_name(style));
    }

    // ---- octree through the public API
    let n_oct = 140 * scale;
    for i in 0..n_oct {
        let n = match rng.below(4) {
            0 => rng.range(1, 12) as usize,
            1 => rng.range(1, 60) as usize,
            _ => rng.range(1, 400) as usize,
        };
        let style = (i as u64) % 5;
        let cols = gen_colors(&mut rng, n, style);
        let mut ops: Vec<String> = Vec::new();
        match rng.below(5) {
            0 => {}
            1 => ops.push(rng.range(1, 300).to_string()),
            2 => {
                ops.push(rng.range(1, 40).to_string());
                ops.push(rng.range(1, 12).to_string());
            }
            3 => {
                for _ in 0..rng.range(1, 30) {
                    ops.push("p".to_string());
                }
            }
            _ => {
                for _ in 0..rng.range(1, 6) {
                    ops.push("p".to_string());
                }
                ops.push(rng.range(1, 20).to_string());
            }
        }
        run_oct(&mut out, &cols, &ops.join(","), style_name(style));
    }

    // ---- the subsampling boundary: areas 100·ps, 100·ps+1, 200·ps−1 (never subsampled), 200·ps, 200·ps+1
    //      (subsampled: model and code must pick the same pixels), then random images inside the band
    for ps in [1usize, 2, 3, 5, 8, 13, 20] {
        for area in [100 * ps, 100 * ps + 1, 150 * ps, 200 * ps - 1, 200 * ps, 200 * ps + 1] {
            let case = gen_band(&mut rng, ps, Some(area));
            run_quant(&mut out, &case, "band-edge");
        }
    }
    for _ in 0..14 * scale {
        let ps = *rng.pick(&[2usize, 3, 4, 6, 8, 8, 11, 16, 20]);
        let case = gen_band(&mut rng, ps, None);
        let lk = if rng.chance(2, 3) { 0 } else { 1 + rng.below(4) };
        let case = case.relayout(&mut rng, lk);
        run_quant(&mut out, &case, "band");
    }

    // ---- quantize
    let n_small = 260 * scale;
    let n_big = 36 * scale;
    for i in 0..n_small + n_big {
        let (case, kind) = gen_quant(&mut rng, i >= n_small);
        run_quant(&mut out, &case, kind);
    }
    let dev = BLEND_MAX_DEV.load(SeqCst);
    out.extra("blend_over_max_deviation_from_reference", json!(dev));
    if dev > BLEND_TOLERANCE {
        out.fail("alpha compositing helper (blend_over) deviates from the source-over operator", json!({"kind": "blend"}),
                 json!(format!("at most {BLEND_TOLERANCE} units per channel")), json!(dev));
    }
    out.extra("watchdog", json!({"slow_cases_rerun_ok": SLOW_RERUN_OK.load(SeqCst), "hung": HUNG.load(SeqCst),
                                 "first_limit_s": CASE_TIMEOUT.as_secs(), "long_limit_s": LONG_SECS.load(SeqCst)}));
    out.finish(rule);
}
