//! C07: surface views are exact, non-aliasing windows onto their parent surface.
//!
//! For every case (root size, `new_with` or `from_vec` root, chain of view/transpose steps with selectors
//! of every form and integer type, a mix of carriers: owned, `&`, `&mut`, nested `view_owned`,
//! `view`/`view_mut`, `as_ref`/`as_mut`, `parts()` + `SurfaceView::new`/`SurfaceMutView::new` as in
//! `Layout::apply_to`, `Arc`, `Box`) every accessor is run on the REAL surface types and
//!   * compared with the Lean model `SurfModel.Shape` (correspondence lines; offsets are recovered from
//!     the ADDRESSES of the references handed out, relative to `Surface::data()` of the view — which the
//!     trait documents to be the parent's whole slice, and which is cross-checked against the root whenever
//!     the root is borrowed: `(addr - data().as_ptr()) / size_of::<E>()`),
//!   * judged by an independent list-of-lists oracle (`Vec<Vec<id>>`, Python slicing, matrix transpose),
//!   * and, for the window itself, by the verified Lean specification `specChain` (oracle lines).
//! Element types: `u32`, a 5-byte struct of alignment 1, a type that counts constructions and drops, and
//! (separately, counts only) the zero-sized `()`.
//! The main run uses the debug profile; the quick case list is repeated in a release-profile child (no
//! overflow checks, no debug assertions; oracle only), and the thorough tier adds a Miri run (support only).
use serde_json::{Value, json};
use std::cell::Cell;
use std::sync::Arc;
use surf_n_term::surface::{Surface, SurfaceMut, SurfaceMutView, SurfaceOwned, SurfaceOwnedView, SurfaceView, ViewBounds};
use surf_n_term::render::CellKind;
use surf_n_term::view::{BoxConstraint, Offscreen, ViewContext};
use surf_n_term::{Cell as TCell, Color, Face, Image, Position, RGBA, Size};
use verif_harness::{Cfg, r#gen::Rng, guarded, out::Out};

/// value of a cell as seen by the oracle and the model
type T = u32;

/// positions and sizes are built from their public fields, not through the crate's constructors
fn pos_at(row: usize, col: usize) -> Position {
    Position { row, col }
}
fn size_of_hw(height: usize, width: usize) -> Size {
    Size { height, width }
}

/// element types the surfaces are instantiated with; `id` is the value the cell carries
trait Elem: Clone + Default + 'static {
    fn mk(id: T) -> Self;
    fn id(&self) -> T;
    /// constructions minus drops so far (only the counting type tracks it)
    fn live() -> i64 {
        0
    }
    /// identify cells by value, not by address (see `Addr::by_value`)
    const BY_VALUE: bool = false;
    /// `Surface::hash` where the element type is hashable
    fn hash_of<S: Surface<Item = Self>>(_s: &S) -> Option<u64> {
        None
    }
    /// the accessor run on a concrete `Image` made of the last carrier (RGBA cells only)
    fn image_end<'a>(s: DynRef<'a, Self>, _case: &Case) -> Result<Obs, DynRef<'a, Self>> {
        Err(s)
    }
    /// carry out one step of a chain through another `Surface` implementor of the crate, if there is one
    /// for this element type (`Image` for RGBA cells)
    fn image_step<'a>(s: DynRef<'a, Self>, _op: &Op, _variant: u8) -> Result<DynRef<'a, Self>, DynRef<'a, Self>> {
        Err(s)
    }
}
impl Elem for u32 {
    fn mk(id: T) -> Self {
        id
    }
    fn id(&self) -> T {
        *self
    }
    fn hash_of<S: Surface<Item = Self>>(s: &S) -> Option<u64> {
        Some(s.hash())
    }
}
/// size 5, alignment 1: element addresses are not multiples of a power of two
#[derive(Clone, Default)]
struct Odd5([u8; 5]);
impl Elem for Odd5 {
    fn mk(id: T) -> Self {
        let b = id.to_le_bytes();
        Odd5([b[0], b[1], b[2], b[3], 0xA5])
    }
    fn id(&self) -> T {
        T::from_le_bytes([self.0[0], self.0[1], self.0[2], self.0[3]])
    }
}
thread_local! {
    static LIVE: Cell<i64> = const { Cell::new(0) };
}
/// counts constructions and drops: a cell dropped twice or leaked by an accessor shows in the balance
struct Counted(T);
impl Counted {
    fn born(id: T) -> Self {
        LIVE.with(|l| l.set(l.get() + 1));
        Counted(id)
    }
}
impl Clone for Counted {
    fn clone(&self) -> Self {
        Counted::born(self.0)
    }
}
impl Default for Counted {
    fn default() -> Self {
        Counted::born(0)
    }
}
impl Drop for Counted {
    fn drop(&mut self) {
        LIVE.with(|l| l.set(l.get() - 1));
    }
}
impl Elem for Counted {
    fn mk(id: T) -> Self {
        Counted::born(id)
    }
    fn id(&self) -> T {
        self.0
    }
    fn live() -> i64 {
        LIVE.with(|l| l.get())
    }
}
const ELEMS: [&str; 6] = ["u32", "odd5", "counted", "zst", "rgba", "cell"];

const TYPES: [&str; 10] = ["i8", "u8", "i16", "u16", "i32", "u32", "i64", "u64", "isize", "usize"];

fn ty_range(ty: u8) -> (i128, i128) {
    match ty {
        0 => (i8::MIN as i128, i8::MAX as i128),
        1 => (0, u8::MAX as i128),
        2 => (i16::MIN as i128, i16::MAX as i128),
        3 => (0, u16::MAX as i128),
        4 => (i32::MIN as i128, i32::MAX as i128),
        5 => (0, u32::MAX as i128),
        6 => (i64::MIN as i128, i64::MAX as i128),
        7 => (0, u64::MAX as i128),
        8 => (isize::MIN as i128, isize::MAX as i128),
        _ => (0, usize::MAX as i128),
    }
}

/// A selector chosen at run time; resolving it calls the crate's own `ViewBounds` implementation of
/// the concrete form and integer type. forms: 0 idx, 1 a..b, 2 a.., 3 ..b, 4 a..=b, 5 ..=b, 6 ..
#[derive(Clone, Copy, Debug, PartialEq)]
struct DynSel {
    form: u8,
    ty: u8,
    a: i128,
    b: i128,
}

impl ViewBounds for DynSel {
    fn view_bounds(self, size: usize) -> Option<(usize, usize)> {
        macro_rules! go {
            ($t:ty) => {{
                let a = self.a as $t;
                let b = self.b as $t;
                match self.form {
                    0 => a.view_bounds(size),
                    1 => (a..b).view_bounds(size),
                    2 => (a..).view_bounds(size),
                    3 => (..b).view_bounds(size),
                    4 => (a..=b).view_bounds(size),
                    5 => (..=b).view_bounds(size),
                    _ => (..).view_bounds(size),
                }
            }};
        }
        match self.ty {
            0 => go!(i8),
            1 => go!(u8),
            2 => go!(i16),
            3 => go!(u16),
            4 => go!(i32),
            5 => go!(u32),
            6 => go!(i64),
            7 => go!(u64),
            8 => go!(isize),
            _ => go!(usize),
        }
    }
}

impl DynSel {
    fn full() -> Self {
        DynSel { form: 6, ty: 0, a: 0, b: 0 }
    }
    fn token(&self) -> String {
        let (a, b) = (self.a, self.b);
        match self.form {
            0 if self.ty % 2 == 0 => format!("idxS:{a}"),
            0 => format!("idxU:{a}"),
            1 => format!("range:{a}:{b}"),
            2 => format!("from:{a}"),
            3 => format!("to:{b}"),
            4 => format!("incl:{a}:{b}"),
            5 => format!("toIncl:{b}"),
            _ => "full".to_string(),
        }
    }
    fn to_json(&self) -> Value {
        json!({"form": self.form, "type": TYPES[self.ty as usize], "a": self.a.to_string(), "b": self.b.to_string()})
    }
    fn from_json(v: &Value) -> Option<Self> {
        let ty = TYPES.iter().position(|t| Some(*t) == v["type"].as_str())? as u8;
        Some(DynSel {
            form: v["form"].as_u64()? as u8,
            ty,
            a: v["a"].as_str()?.parse().ok()?,
            b: v["b"].as_str()?.parse().ok()?,
        })
    }
}

#[derive(Clone, Copy, Debug, PartialEq)]
enum Op {
    View(DynSel, DynSel),
    Transpose,
}

/// one step of the chain and the way it is carried out on the Rust side
#[derive(Clone, Copy, Debug, PartialEq)]
struct Step {
    op: Op,
    kind: u8,
}

#[derive(Clone, Debug, PartialEq)]
struct Case {
    h: usize,
    w: usize,
    /// cells of the root beyond `h * w` (`SurfaceOwned::from_vec` needs at least one); 0 = `new_with`
    extra: usize,
    /// element type, index into `ELEMS`
    elem: u8,
    steps: Vec<Step>,
    /// 0: root moved into the chain, 1: chain built on `&mut root` / `&root`; +2: immutable accessor on mutable carriers
    root_kind: u8,
    /// type of the receiver of the accessor at the end of a type-erased chain (Box<dyn>, &dyn through the
    /// vtable, &mut Box / Arc<Box>, Image) and of the root of an empty chain (>= 2: the concrete SurfaceOwned)
    end_kind: u8,
    /// accessor: grid gridmut iter itermut nth nthmut fill clear fillwith insert inserthuge insertwrap map toowned set
    acc: String,
    args: Vec<usize>,
    items: Vec<T>,
}

impl Case {
    fn chain_token(&self) -> String {
        if self.steps.is_empty() {
            return "-".to_string();
        }
        self.steps
            .iter()
            .map(|s| match s.op {
                Op::Transpose => "T".to_string(),
                Op::View(r, c) => format!("V;{};{}", r.token(), c.token()),
            })
            .collect::<Vec<_>>()
            .join("/")
    }
    fn to_json(&self) -> Value {
        json!({
            "h": self.h, "w": self.w, "extra": self.extra, "elem": ELEMS[self.elem as usize],
            "root_kind": self.root_kind, "end_kind": self.end_kind, "acc": self.acc, "args": self.args, "items": self.items,
            "chain": self.chain_token(),
            "steps": self.steps.iter().map(|s| match s.op {
                Op::Transpose => json!({"op": "T", "kind": s.kind}),
                Op::View(r, c) => json!({"op": "V", "kind": s.kind, "rows": r.to_json(), "cols": c.to_json()}),
            }).collect::<Vec<_>>(),
        })
    }
    fn from_json(v: &Value) -> Option<Case> {
        let mut steps = Vec::new();
        for s in v["steps"].as_array()? {
            let kind = s["kind"].as_u64()? as u8;
            let op = if s["op"].as_str()? == "T" {
                Op::Transpose
            } else {
                Op::View(DynSel::from_json(&s["rows"])?, DynSel::from_json(&s["cols"])?)
            };
            steps.push(Step { op, kind });
        }
        Some(Case {
            h: v["h"].as_u64()? as usize,
            w: v["w"].as_u64()? as usize,
            extra: v["extra"].as_u64().unwrap_or(0) as usize,
            elem: ELEMS.iter().position(|e| Some(*e) == v["elem"].as_str()).unwrap_or(0) as u8,
            steps,
            root_kind: v["root_kind"].as_u64()? as u8,
            end_kind: v["end_kind"].as_u64().unwrap_or(0) as u8,
            acc: v["acc"].as_str()?.to_string(),
            args: v["args"].as_array()?.iter().filter_map(|x| x.as_u64().map(|x| x as usize)).collect(),
            items: v["items"].as_array()?.iter().filter_map(|x| x.as_u64().map(|x| x as T)).collect(),
        })
    }
    fn cells(&self) -> usize {
        self.h * self.w + self.extra
    }
}

// ---------------------------------------------------------------------------------------------
// independent oracle: plain matrices of cell ids, Python slicing, transpose
// ---------------------------------------------------------------------------------------------
type Mat = Vec<Vec<usize>>;

fn py_idx(i: i128, n: i128) -> i128 {
    if i < 0 { (i + n).max(0) } else { i.min(n) }
}
fn py_end_incl(e: i128, n: i128) -> i128 {
    if e >= n {
        n
    } else if e < -n {
        0
    } else {
        (if e < 0 { e + n } else { e }) + 1
    }
}
/// Python `range(n)[sel]` as (start, end); a single index is kept as a window of length one
fn py(sel: &DynSel, n: usize) -> Option<(usize, usize)> {
    let n = n as i128;
    let (a, b) = (sel.a, sel.b);
    let (s, e) = match sel.form {
        0 => {
            if -n <= a && a < n {
                let s = if a < 0 { a + n } else { a };
                (s, s + 1)
            } else {
                return None;
            }
        }
        1 => (py_idx(a, n), py_idx(b, n)),
        2 => (py_idx(a, n), n),
        3 => (0, py_idx(b, n)),
        4 => (py_idx(a, n), py_end_incl(b, n)),
        5 => (0, py_end_incl(b, n)),
        _ => (0, n),
    };
    if s < e { Some((s as usize, e as usize)) } else { None }
}
fn py_take<X: Clone>(sel: &DynSel, l: &[X]) -> Vec<X> {
    match py(sel, l.len()) {
        None => Vec::new(),
        Some((s, e)) => l[s..e].to_vec(),
    }
}
fn spec_root(h: usize, w: usize) -> Mat {
    (0..h).map(|r| (0..w).map(|c| r * w + c).collect()).collect()
}
fn spec_apply(m: &Mat, op: &Op) -> Mat {
    match op {
        Op::View(rows, cols) => py_take(rows, m).iter().map(|row| py_take(cols, row)).collect(),
        Op::Transpose => {
            if m.is_empty() {
                Vec::new()
            } else {
                (0..m[0].len()).map(|c| m.iter().map(|row| row[c]).collect()).collect()
            }
        }
    }
}
/// the window of a chain: rows without cells are dropped (a window without cells has no shape)
fn spec_window(case: &Case) -> Mat {
    let mut m = spec_root(case.h, case.w);
    for s in &case.steps {
        m = spec_apply(&m, &s.op);
    }
    m.into_iter().filter(|r| !r.is_empty()).collect()
}

// ---------------------------------------------------------------------------------------------
// running a chain on the real surface types
// ---------------------------------------------------------------------------------------------
type DynMut<'a, E> = Box<dyn SurfaceMut<Item = E> + 'a>;
type DynRef<'a, E> = Box<dyn Surface<Item = E> + 'a>;

const MUT_VIEW_KINDS: u8 = 6;
const MUT_T_KINDS: u8 = 3;
const REF_VIEW_KINDS: u8 = 6;
const REF_T_KINDS: u8 = 4;

/// kinds from `CONCRETE` on: the result of the step is NOT type-erased, the following steps are method calls on
/// the concrete type (`SurfaceOwnedView<_>`, `SurfaceMutView`, `SurfaceView`) exactly as a user writes them —
/// an inherent method shadowing a trait default is what gets called then
const CONCRETE: u8 = 24;

macro_rules! conc_ov_mut {
    ($name:ident, $next:ident) => {
        fn $name<'a, E: Elem, S: SurfaceMut<Item = E> + 'a>(
            mut s: SurfaceOwnedView<S>,
            steps: &[Step],
            k: &mut Sink<'_>,
        ) {
            let Some((step, rest)) = steps.split_first() else {
                return end_ov_mut(s, k);
            };
            if step.kind < CONCRETE - 8 {
                return chain_mut(Box::new(s), steps, k);
            }
            match step.op {
                Op::View(r, c) => match step.kind % 4 {
                    0 | 1 => $next(s.view_owned(r, c), rest, k),
                    2 => conc_mv(s.view_mut(r, c), rest, k),
                    _ => $next((&mut s).view_owned(r, c), rest, k),
                },
                Op::Transpose => match step.kind % 2 {
                    0 => $next(s.transpose(), rest, k),
                    _ => $next((&mut s).transpose(), rest, k),
                },
            }
        }
    };
}
// the number of distinct receiver types (and with it the build time) doubles with every level that may wrap
// through `&mut`: only the first level does
conc_ov_mut!(conc_ov3, conc_ov2);
fn conc_ov2<'a, E: Elem, S: SurfaceMut<Item = E> + 'a>(mut s: SurfaceOwnedView<S>, steps: &[Step], k: &mut Sink<'_>) {
    let Some((step, rest)) = steps.split_first() else {
        return end_ov_mut(s, k);
    };
    if step.kind < CONCRETE - 8 {
        return chain_mut(Box::new(s), steps, k);
    }
    match step.op {
        Op::View(r, c) => match step.kind % 4 {
            2 => conc_mv(s.view_mut(r, c), rest, k),
            _ => conc_ov1(s.view_owned(r, c), rest, k),
        },
        Op::Transpose => conc_ov1(s.transpose(), rest, k),
    }
}
fn conc_ov1<'a, E: Elem, S: SurfaceMut<Item = E> + 'a>(s: SurfaceOwnedView<S>, steps: &[Step], k: &mut Sink<'_>) {
    if steps.is_empty() {
        return end_ov_mut(s, k);
    }
    chain_mut(Box::new(s), steps, k)
}

fn conc_mv<'a, E: Elem>(mut s: SurfaceMutView<'a, E>, steps: &[Step], k: &mut Sink<'_>) {
    let Some((step, rest)) = steps.split_first() else {
        return end_mv(s, k);
    };
    if step.kind < CONCRETE - 8 {
        return chain_mut(Box::new(s), steps, k);
    }
    match step.op {
        Op::View(r, c) => match step.kind % 3 {
            0 => conc_mv(s.view_mut(r, c), rest, k),
            1 => conc_ov2(s.view_owned(r, c), rest, k),
            _ => {
                let (shape, data) = s.parts();
                conc_mv(SurfaceMutView::new(shape.view(r, c), data), rest, k)
            }
        },
        Op::Transpose => conc_ov2(s.transpose(), rest, k),
    }
}

/// the first step on the concrete root (`SurfaceOwned<E>` by value)
fn start_mut_owned<E: Elem>(mut root: SurfaceOwned<E>, steps: &[Step], k: &mut Sink<'_>) {
    match steps.split_first() {
        Some((step, rest)) if step.kind >= CONCRETE => match step.op {
            Op::View(r, c) => match step.kind % 2 {
                0 => conc_ov3(root.view_owned(r, c), rest, k),
                _ => conc_mv(root.view_mut(r, c), rest, k),
            },
            Op::Transpose => conc_ov3(root.transpose(), rest, k),
        },
        None if k.case.end_kind >= 2 => end_owned_mut(root, k),
        _ => chain_mut(Box::new(root), steps, k),
    }
}

/// the first step on `&mut SurfaceOwned<E>`
fn start_mut_borrowed<E: Elem>(root: &mut SurfaceOwned<E>, steps: &[Step], k: &mut Sink<'_>) {
    match steps.split_first() {
        Some((step, rest)) if step.kind >= CONCRETE => match step.op {
            Op::View(r, c) => match step.kind % 3 {
                0 => conc_ov3(root.view_owned(r, c), rest, k),
                1 => conc_mv(root.view_mut(r, c), rest, k),
                _ => conc_mv(root.as_mut().view_mut(r, c), rest, k),
            },
            Op::Transpose => conc_ov3(root.transpose(), rest, k),
        },
        None if k.case.end_kind >= 2 => end_owned_borrowed_mut(root, k),
        _ => chain_mut(Box::new(root), steps, k),
    }
}

fn chain_mut<'a, E: Elem>(mut s: DynMut<'a, E>, steps: &[Step], k: &mut Sink<'_>) {
    let Some((step, rest)) = steps.split_first() else {
        return end_box_mut(s, k);
    };
    if step.kind >= CONCRETE + 12 {
        return match step.op {
            Op::View(r, c) => match step.kind % 2 {
                0 => conc_ov3(s.view_owned(r, c), rest, k),
                _ => conc_mv(s.view_mut(r, c), rest, k),
            },
            Op::Transpose => conc_ov3(s.transpose(), rest, k),
        };
    }
    match step.op {
        Op::View(r, c) => match step.kind % MUT_VIEW_KINDS {
            0 => chain_mut(Box::new(s.view_owned(r, c)), rest, k),
            1 => chain_mut(Box::new(s.view_mut(r, c)), rest, k),
            2 => chain_mut(Box::new((&mut s).view_owned(r, c)), rest, k),
            3 => {
                let mut m = SurfaceMut::as_mut(&mut s);
                chain_mut(Box::new(m.view_mut(r, c)), rest, k)
            }
            4 => {
                let inner: &mut dyn SurfaceMut<Item = E> = &mut *s;
                chain_mut(Box::new(inner.as_mut().view_owned(r, c)), rest, k)
            }
            _ => {
                // the crate's own use of the public constructor: `Layout::apply_to` (src/view/layout.rs)
                let (shape, data) = SurfaceMut::as_mut(&mut s).parts();
                chain_mut(Box::new(SurfaceMutView::new(shape.view(r, c), data)), rest, k)
            }
        },
        Op::Transpose => match step.kind % MUT_T_KINDS {
            0 => chain_mut(Box::new(s.transpose()), rest, k),
            1 => chain_mut(Box::new((&mut s).transpose()), rest, k),
            _ => chain_mut(Box::new(SurfaceMut::as_mut(&mut s).transpose()), rest, k),
        },
    }
}

macro_rules! conc_ov_ref {
    ($name:ident, $next:ident) => {
        fn $name<'a, E: Elem, S: Surface<Item = E> + 'a>(
            s: SurfaceOwnedView<S>,
            steps: &[Step],
            k: &mut Sink<'_>,
        ) {
            let Some((step, rest)) = steps.split_first() else {
                return end_ov_ref(s, k);
            };
            if step.kind < CONCRETE - 8 {
                return chain_ref(Box::new(s), steps, k);
            }
            match step.op {
                Op::View(r, c) => match step.kind % 4 {
                    0 | 1 => $next(s.view_owned(r, c), rest, k),
                    2 => conc_rv(s.view(r, c), rest, k),
                    _ => $next((&s).view_owned(r, c), rest, k),
                },
                Op::Transpose => match step.kind % 2 {
                    0 => $next(s.transpose(), rest, k),
                    _ => $next((&s).transpose(), rest, k),
                },
            }
        }
    };
}
conc_ov_ref!(rconc_ov3, rconc_ov2);
fn rconc_ov2<'a, E: Elem, S: Surface<Item = E> + 'a>(s: SurfaceOwnedView<S>, steps: &[Step], k: &mut Sink<'_>) {
    let Some((step, rest)) = steps.split_first() else {
        return end_ov_ref(s, k);
    };
    if step.kind < CONCRETE - 8 {
        return chain_ref(Box::new(s), steps, k);
    }
    match step.op {
        Op::View(r, c) => match step.kind % 4 {
            2 => conc_rv(s.view(r, c), rest, k),
            _ => rconc_ov1(s.view_owned(r, c), rest, k),
        },
        Op::Transpose => rconc_ov1(s.transpose(), rest, k),
    }
}
fn rconc_ov1<'a, E: Elem, S: Surface<Item = E> + 'a>(s: SurfaceOwnedView<S>, steps: &[Step], k: &mut Sink<'_>) {
    if steps.is_empty() {
        return end_ov_ref(s, k);
    }
    chain_ref(Box::new(s), steps, k)
}

fn conc_rv<'a, E: Elem>(s: SurfaceView<'a, E>, steps: &[Step], k: &mut Sink<'_>) {
    let Some((step, rest)) = steps.split_first() else {
        return end_rv(s, k);
    };
    if step.kind < CONCRETE - 8 {
        return chain_ref(Box::new(s), steps, k);
    }
    match step.op {
        Op::View(r, c) => match step.kind % 3 {
            0 => conc_rv(s.view(r, c), rest, k),
            1 => rconc_ov2(s.view_owned(r, c), rest, k),
            _ => {
                let (shape, data) = s.parts();
                conc_rv(SurfaceView::new(shape.view(r, c), data), rest, k)
            }
        },
        Op::Transpose => rconc_ov2(s.transpose(), rest, k),
    }
}

fn start_ref_owned<E: Elem>(root: SurfaceOwned<E>, steps: &[Step], k: &mut Sink<'_>) {
    match steps.split_first() {
        Some((step, rest)) if step.kind >= CONCRETE && step.kind < 40 => match step.op {
            Op::View(r, c) => match step.kind % 2 {
                0 => rconc_ov3(root.view_owned(r, c), rest, k),
                _ => conc_rv(root.view(r, c), rest, k),
            },
            Op::Transpose => rconc_ov3(root.transpose(), rest, k),
        },
        None if k.case.end_kind >= 2 => end_owned_ref(root, k),
        _ => chain_ref(Box::new(root), steps, k),
    }
}

fn start_ref_borrowed<E: Elem>(root: &SurfaceOwned<E>, steps: &[Step], k: &mut Sink<'_>) {
    match steps.split_first() {
        Some((step, rest)) if step.kind >= CONCRETE && step.kind < 40 => match step.op {
            Op::View(r, c) => match step.kind % 3 {
                0 => rconc_ov3(root.view_owned(r, c), rest, k),
                1 => conc_rv(root.view(r, c), rest, k),
                _ => conc_rv(root.as_ref().view(r, c), rest, k),
            },
            Op::Transpose => rconc_ov3(root.transpose(), rest, k),
        },
        None if k.case.end_kind >= 2 => end_owned_borrowed_ref(root, k),
        _ => chain_ref(Box::new(root), steps, k),
    }
}

fn chain_ref<'a, E: Elem>(s: DynRef<'a, E>, steps: &[Step], k: &mut Sink<'_>) {
    let Some((step, rest)) = steps.split_first() else {
        return end_box_ref(s, k);
    };
    // another Surface implementor of the crate as carrier (Image, RGBA cells only)
    let s = if step.kind >= 40 {
        match E::image_step(s, &step.op, step.kind) {
            Ok(next) => return chain_ref(next, rest, k),
            Err(s) => s,
        }
    } else {
        s
    };
    if step.kind >= CONCRETE + 12 {
        return match step.op {
            Op::View(r, c) => match step.kind % 2 {
                0 => rconc_ov3(s.view_owned(r, c), rest, k),
                _ => conc_rv(s.view(r, c), rest, k),
            },
            Op::Transpose => rconc_ov3(s.transpose(), rest, k),
        };
    }
    match step.op {
        Op::View(r, c) => match step.kind % REF_VIEW_KINDS {
            0 => chain_ref(Box::new(s.view_owned(r, c)), rest, k),
            1 => chain_ref(Box::new(s.view(r, c)), rest, k),
            2 => chain_ref(Box::new((&s).view_owned(r, c)), rest, k),
            3 => chain_ref(Box::new(Arc::new(s).view_owned(r, c)), rest, k),
            4 => chain_ref(Box::new(Surface::as_ref(&s).view(r, c)), rest, k),
            _ => {
                let (shape, data) = Surface::as_ref(&s).parts();
                chain_ref(Box::new(SurfaceView::new(shape.view(r, c), data)), rest, k)
            }
        },
        Op::Transpose => match step.kind % REF_T_KINDS {
            0 => chain_ref(Box::new(s.transpose()), rest, k),
            1 => chain_ref(Box::new((&s).transpose()), rest, k),
            2 => chain_ref(Box::new(Arc::new(s).transpose()), rest, k),
            _ => chain_ref(Box::new(Surface::as_ref(&s).transpose()), rest, k),
        },
    }
}

/// `new_with` root, or a `from_vec` root with `extra` cells behind the matrix; `data[i] = i + 1`
fn new_root<E: Elem>(h: usize, w: usize, extra: usize) -> SurfaceOwned<E> {
    if extra == 0 {
        SurfaceOwned::new_with(size_of_hw(h, w), |pos| E::mk((pos.row * w + pos.col + 1) as T))
    } else {
        SurfaceOwned::from_vec(size_of_hw(h, w), (0..h * w + extra).map(|i| E::mk((i + 1) as T)).collect())
    }
}

/// value written through `iter_mut().with_position()`: it records the position the iterator reported
fn pv(r: usize, c: usize) -> T {
    7000 + (r as T) * 100 + c as T
}

fn tf(r: usize, c: usize, x: T) -> T {
    1000u32.wrapping_add(x.wrapping_mul(100)).wrapping_add((r as T) * 10).wrapping_add(c as T)
}

/// what one accessor run observed (everything the correspondence and the oracle look at)
#[derive(Default, Debug)]
struct Obs {
    height: usize,
    width: usize,
    is_empty: bool,
    /// the operation panicked (the canvas is then the root's, read after unwinding)
    panicked: bool,
    /// probes of `get` / `get_mut` over (height+2) x (width+2): Some((offset, value)) / None
    grid: Vec<Option<(usize, T)>>,
    /// items handed out by an iterator: (offset from address, value)
    items: Vec<Option<(usize, T)>>,
    /// positions reported by `with_position`
    positions: Vec<(usize, usize)>,
    /// (row, col, offset, value) pairs handed out by a position iterator under nth / skip / step_by
    pitems: Vec<Option<(usize, usize, usize, T)>>,
    /// closure calls of fill_with / map: (row, col, offset)
    calls: Vec<(usize, usize, usize)>,
    /// result data of map / to_owned_surf with its size; old value returned by set
    mapped: Vec<T>,
    mapped_size: (usize, usize),
    /// `Surface::hash` of the carrier (element types with a Hash impl in the harness)
    hashv: Option<u64>,
    /// whole backing slice after the operation
    canvas: Vec<T>,
    /// the carrier may own a copy of the cells (Image): its data() is not the parent, a read cannot have
    /// changed the parent, the canvas is not compared
    canvas_skip: bool,
    /// a reference that does not point into the backing slice at an element boundary, a view whose data()
    /// is not the parent's slice, or an unbalanced construction/drop count
    bad: Option<String>,
}

struct Addr {
    base: usize,
    len: usize,
    sz: usize,
    /// cells are identified by the value they carry (`data[i] = i + 1`) instead of by their address: used
    /// where a carrier may legitimately copy the cells into a buffer of its own (`Image::new`)
    by_value: bool,
}
impl Addr {
    fn of<E>(data: &[E]) -> Self {
        Addr { base: data.as_ptr() as usize, len: data.len(), sz: std::mem::size_of::<E>(), by_value: false }
    }
    fn off<E>(&self, p: *const E, val: T, obs: &mut Obs) -> usize {
        if self.by_value {
            return (val as usize).wrapping_sub(1);
        }
        let p = p as usize;
        if p < self.base || (p - self.base) % self.sz != 0 || (p - self.base) / self.sz >= self.len {
            obs.bad = Some(format!("address {p:#x} is not an element of the backing slice at {:#x} (len {})", self.base, self.len));
            return usize::MAX;
        }
        (p - self.base) / self.sz
    }
}

fn ids<E: Elem>(data: &[E]) -> Vec<T> {
    data.iter().map(|x| x.id()).collect()
}

/// the accessor runs are macros, not generic functions: they are expanded once per RECEIVER TYPE (`Box<dyn _>`,
/// `&mut dyn _`, `SurfaceOwned`, `SurfaceOwnedView<_>`, `SurfaceMutView`, `SurfaceView`, `Image`, …) so that every
/// accessor is a method call on that type exactly as a user writes it: an implementor's override of a default
/// trait method, or an inherent method shadowing it, is what runs
macro_rules! observe_ref_body {
    ($s:ident, $case:ident) => {{
    let mut obs = Obs { height: $s.height(), width: $s.width(), is_empty: $s.is_empty(), ..Obs::default() };
    {
        // the helpers that report the extents must agree with the raw fields of shape()
        let sh = $s.shape();
        let sz = $s.size();
        if (sh.height, sh.width) != (obs.height, obs.width) || (sz.height, sz.width) != (obs.height, obs.width) {
            obs.bad = Some(format!("height()/width() = {}x{}, size() = {}x{}, shape() = {}x{}", obs.height, obs.width, sz.height, sz.width, sh.height, sh.width));
        }
    }
    let addr = Addr { by_value: E::BY_VALUE, ..Addr::of($s.data()) };
    match $case.acc.as_str() {
        "grid" => {
            for r in 0..obs.height + 2 {
                for c in 0..obs.width + 2 {
                    let g = $s.get(pos_at(r, c)).map(|x| (x as *const E, x.id()));
                    let g = g.map(|(p, v)| (addr.off(p, v, &mut obs), v));
                    obs.grid.push(g);
                }
            }
        }
        "probe" => {
            for rc in $case.args.chunks(2) {
                let g = $s.get(pos_at(rc[0], rc[1])).map(|x| (x as *const E, x.id()));
                let g = g.map(|(p, v)| (addr.off(p, v, &mut obs), v));
                obs.grid.push(g);
            }
        }
        "iter" => {
            let refs: Vec<&E> = $s.iter().collect();
            for x in refs {
                let o = addr.off(x as *const E, x.id(), &mut obs);
                obs.items.push(Some((o, x.id())));
            }
            obs.positions = $s.iter().with_position().map(|(p, _)| (p.row, p.col)).collect();
        }
        "posnth" => {
            let mut it = $s.iter().with_position();
            for &k in &$case.args {
                let g = it.nth(k).map(|(p, x)| (p.row, p.col, x as *const E, x.id()));
                let g = g.map(|(r, c, p, v)| (r, c, addr.off(p, v, &mut obs), v));
                obs.pitems.push(g);
            }
        }
        "posadapt" => {
            // args: mode (1 skip(a), 2 step_by(b), 3 skip(a).step_by(b)), a, b
            let (a, b) = ($case.args[1], $case.args[2]);
            let it = $s.iter().with_position();
            let got: Vec<(Position, &E)> = match $case.args[0] {
                1 => it.skip(a).collect(),
                2 => it.step_by(b).collect(),
                _ => it.skip(a).step_by(b).collect(),
            };
            for (p, x) in got {
                let o = addr.off(x as *const E, x.id(), &mut obs);
                obs.pitems.push(Some((p.row, p.col, o, x.id())));
            }
            obs.pitems.push(None);
        }
        "nth" => {
            let mut it = $s.iter();
            for &k in &$case.args {
                let g = it.nth(k).map(|x| (x as *const E, x.id()));
                let g = g.map(|(p, v)| (addr.off(p, v, &mut obs), v));
                obs.items.push(g);
            }
        }
        "map" => {
            let mut calls = Vec::new();
            let m = (&$s).map(|pos, x| {
                calls.push((pos.row, pos.col, x as *const E, x.id()));
                E::mk(tf(pos.row, pos.col, x.id()))
            });
            obs.calls = calls.into_iter().map(|(r, c, p, v)| (r, c, addr.off(p, v, &mut obs))).collect();
            read_mapped(&m, &mut obs);
        }
        "toowned" => {
            let m = $s.to_owned_surf();
            read_mapped(&m, &mut obs);
        }
        "hash" => obs.hashv = E::hash_of(&$s),
        other => panic!("unknown accessor {other}"),
    }
    obs.canvas = ids($s.data());
    obs
}};
}
macro_rules! observe_mut_body {
    ($s:ident, $case:ident) => {{
    let mut obs = Obs { height: $s.height(), width: $s.width(), is_empty: $s.is_empty(), ..Obs::default() };
    {
        // the helpers that report the extents must agree with the raw fields of shape()
        let sh = $s.shape();
        let sz = $s.size();
        if (sh.height, sh.width) != (obs.height, obs.width) || (sz.height, sz.width) != (obs.height, obs.width) {
            obs.bad = Some(format!("height()/width() = {}x{}, size() = {}x{}, shape() = {}x{}", obs.height, obs.width, sz.height, sz.width, sh.height, sh.width));
        }
    }
    let addr = Addr { by_value: E::BY_VALUE, ..Addr::of($s.data()) };
    match $case.acc.as_str() {
        "grid" => {
            for r in 0..obs.height + 2 {
                for c in 0..obs.width + 2 {
                    let g = $s.get(pos_at(r, c)).map(|x| (x as *const E, x.id()));
                    let g = g.map(|(p, v)| (addr.off(p, v, &mut obs), v));
                    obs.grid.push(g);
                }
            }
        }
        "probemut" => {
            for rc in $case.args.chunks(2) {
                let g = $s.get_mut(pos_at(rc[0], rc[1])).map(|x| (x as *const E, x.id()));
                let g = g.map(|(p, v)| (addr.off(p, v, &mut obs), v));
                obs.grid.push(g);
            }
        }
        "gridmut" => {
            for r in 0..obs.height + 2 {
                for c in 0..obs.width + 2 {
                    let g = $s.get_mut(pos_at(r, c)).map(|x| (x as *const E, x.id()));
                    let g = g.map(|(p, v)| (addr.off(p, v, &mut obs), v));
                    obs.grid.push(g);
                }
            }
        }
        "probe" => {
            for rc in $case.args.chunks(2) {
                let g = $s.get(pos_at(rc[0], rc[1])).map(|x| (x as *const E, x.id()));
                let g = g.map(|(p, v)| (addr.off(p, v, &mut obs), v));
                obs.grid.push(g);
            }
        }
        "iter" => {
            let refs: Vec<&E> = $s.iter().collect();
            for x in refs {
                let o = addr.off(x as *const E, x.id(), &mut obs);
                obs.items.push(Some((o, x.id())));
            }
            obs.positions = $s.iter().with_position().map(|(p, _)| (p.row, p.col)).collect();
        }
        "itermut" => {
            // all `&mut` are alive at the same time, then each is written with its own value
            let refs: Vec<&mut E> = $s.iter_mut().collect();
            for (k, x) in refs.into_iter().enumerate() {
                let v = x.id();
                *x = E::mk(5000 + k as T);
                let o = addr.off(x as *const E, v, &mut obs);
                obs.items.push(Some((o, v)));
            }
            obs.positions = $s.iter_mut().with_position().map(|(p, _)| (p.row, p.col)).collect();
        }
        "posnth" => {
            let mut it = $s.iter().with_position();
            for &k in &$case.args {
                let g = it.nth(k).map(|(p, x)| (p.row, p.col, x as *const E, x.id()));
                let g = g.map(|(r, c, p, v)| (r, c, addr.off(p, v, &mut obs), v));
                obs.pitems.push(g);
            }
        }
        "posadapt" => {
            // args: mode (1 skip(a), 2 step_by(b), 3 skip(a).step_by(b)), a, b
            let (a, b) = ($case.args[1], $case.args[2]);
            let it = $s.iter().with_position();
            let got: Vec<(Position, &E)> = match $case.args[0] {
                1 => it.skip(a).collect(),
                2 => it.step_by(b).collect(),
                _ => it.skip(a).step_by(b).collect(),
            };
            for (p, x) in got {
                let o = addr.off(x as *const E, x.id(), &mut obs);
                obs.pitems.push(Some((p.row, p.col, o, x.id())));
            }
            obs.pitems.push(None);
        }
        "nth" => {
            let mut it = $s.iter();
            for &k in &$case.args {
                let g = it.nth(k).map(|x| (x as *const E, x.id()));
                let g = g.map(|(p, v)| (addr.off(p, v, &mut obs), v));
                obs.items.push(g);
            }
        }
        "posnthmut" => {
            let mut it = $s.iter_mut().with_position();
            let mut got: Vec<Option<(Position, &mut E)>> = Vec::new();
            for &k in &$case.args {
                got.push(it.nth(k));
            }
            for g in got {
                match g {
                    None => obs.pitems.push(None),
                    Some((p, x)) => {
                        let v = x.id();
                        *x = E::mk(pv(p.row, p.col));
                        let o = addr.off(x as *const E, v, &mut obs);
                        obs.pitems.push(Some((p.row, p.col, o, v)));
                    }
                }
            }
        }
        "posadaptmut" => {
            let (a, b) = ($case.args[1], $case.args[2]);
            let it = $s.iter_mut().with_position();
            let got: Vec<(Position, &mut E)> = match $case.args[0] {
                1 => it.skip(a).collect(),
                2 => it.step_by(b).collect(),
                _ => it.skip(a).step_by(b).collect(),
            };
            for (p, x) in got {
                let v = x.id();
                *x = E::mk(pv(p.row, p.col));
                let o = addr.off(x as *const E, v, &mut obs);
                obs.pitems.push(Some((p.row, p.col, o, v)));
            }
            obs.pitems.push(None);
        }
        "nthmut" => {
            let mut it = $s.iter_mut();
            let mut refs: Vec<Option<&mut E>> = Vec::new();
            for &k in &$case.args {
                refs.push(it.nth(k));
            }
            for (j, x) in refs.into_iter().enumerate() {
                match x {
                    None => obs.items.push(None),
                    Some(x) => {
                        let v = x.id();
                        *x = E::mk(6000 + j as T);
                        let o = addr.off(x as *const E, v, &mut obs);
                        obs.items.push(Some((o, v)));
                    }
                }
            }
        }
        "fill" => $s.fill(E::mk($case.args[0] as T)),
        "clear" => $s.clear(),
        "fillwith" => {
            let mut calls = Vec::new();
            (&mut $s).fill_with(|pos, x| {
                calls.push((pos.row, pos.col, x.id()));
                E::mk(tf(pos.row, pos.col, x.id()))
            });
            // the value passed in identifies the cell: initially data[i] = i + 1
            obs.calls = calls.into_iter().map(|(r, c, x)| (r, c, (x as usize).wrapping_sub(1))).collect();
        }
        "insert" | "insertwrap" | "inserthuge" => {
            (&mut $s).insert(pos_at($case.args[0], $case.args[1]), $case.items.iter().map(|&v| E::mk(v)));
        }
        "set" => {
            let old = $s.set(pos_at($case.args[0], $case.args[1]), E::mk(4242));
            obs.mapped = vec![old.id()];
        }
        "map" => {
            let mut calls = Vec::new();
            let m = (&$s).map(|pos, x| {
                calls.push((pos.row, pos.col, x as *const E, x.id()));
                E::mk(tf(pos.row, pos.col, x.id()))
            });
            obs.calls = calls.into_iter().map(|(r, c, p, v)| (r, c, addr.off(p, v, &mut obs))).collect();
            read_mapped(&m, &mut obs);
        }
        "toowned" => {
            let m = $s.to_owned_surf();
            read_mapped(&m, &mut obs);
        }
        "hash" => obs.hashv = E::hash_of(&$s),
        other => panic!("unknown accessor {other}"),
    }
    obs.canvas = ids($s.data());
    obs
}};
}

/// read a surface produced by map / to_owned_surf cell by cell through the raw fields of its shape
fn read_mapped<E: Elem>(m: &SurfaceOwned<E>, obs: &mut Obs) {
    let sh = m.shape();
    obs.mapped_size = (sh.height, sh.width);
    let data = m.data();
    obs.mapped = Vec::new();
    for r in 0..sh.height {
        for c in 0..sh.width {
            match data.get(sh.start + r * sh.row_stride + c * sh.col_stride) {
                Some(x) => obs.mapped.push(x.id()),
                None => obs.bad = Some(format!("cell ({r}, {c}) of a mapped surface lies outside of its data")),
            }
        }
    }
    if (m.height(), m.width()) != (sh.height, sh.width) {
        obs.bad = Some("height()/width() of a mapped surface disagree with its shape()".to_string());
    }
}

struct Sink<'c> {
    case: &'c Case,
    res: Option<Obs>,
}

// ---- end points: the last carrier, by type
fn end_box_mut<'a, E: Elem>(mut s: DynMut<'a, E>, k: &mut Sink<'_>) {
    let case = k.case;
    k.res = Some(match case.end_kind % 3 {
        0 => observe_mut_body!(s, case),
        1 => {
            // through the vtable: the implementor's own methods
            let mut d: &mut dyn SurfaceMut<Item = E> = &mut *s;
            observe_mut_body!(d, case)
        }
        _ => {
            let mut r = &mut s;
            observe_mut_body!(r, case)
        }
    });
}
fn end_ov_mut<'a, E: Elem, S: SurfaceMut<Item = E> + 'a>(mut s: SurfaceOwnedView<S>, k: &mut Sink<'_>) {
    let case = k.case;
    k.res = Some(observe_mut_body!(s, case));
}
fn end_mv<'a, E: Elem>(mut s: SurfaceMutView<'a, E>, k: &mut Sink<'_>) {
    let case = k.case;
    k.res = Some(observe_mut_body!(s, case));
}
fn end_owned_mut<E: Elem>(mut s: SurfaceOwned<E>, k: &mut Sink<'_>) {
    let case = k.case;
    k.res = Some(observe_mut_body!(s, case));
}
fn end_owned_borrowed_mut<E: Elem>(mut s: &mut SurfaceOwned<E>, k: &mut Sink<'_>) {
    let case = k.case;
    k.res = Some(observe_mut_body!(s, case));
}
fn end_box_ref<'a, E: Elem>(s: DynRef<'a, E>, k: &mut Sink<'_>) {
    let case = k.case;
    let s = if case.end_kind % 4 == 3 {
        match E::image_end(s, case) {
            Ok(obs) => {
                k.res = Some(obs);
                return;
            }
            Err(s) => s,
        }
    } else {
        s
    };
    k.res = Some(match case.end_kind % 3 {
        0 => observe_ref_body!(s, case),
        1 => {
            let d: &dyn Surface<Item = E> = &*s;
            observe_ref_body!(d, case)
        }
        _ => {
            let r = Arc::new(s);
            observe_ref_body!(r, case)
        }
    });
}
fn end_ov_ref<'a, E: Elem, S: Surface<Item = E> + 'a>(s: SurfaceOwnedView<S>, k: &mut Sink<'_>) {
    let case = k.case;
    k.res = Some(observe_ref_body!(s, case));
}
fn end_rv<'a, E: Elem>(s: SurfaceView<'a, E>, k: &mut Sink<'_>) {
    let case = k.case;
    k.res = Some(observe_ref_body!(s, case));
}
fn end_owned_ref<E: Elem>(s: SurfaceOwned<E>, k: &mut Sink<'_>) {
    let case = k.case;
    k.res = Some(observe_ref_body!(s, case));
}
fn end_owned_borrowed_ref<E: Elem>(s: &SurfaceOwned<E>, k: &mut Sink<'_>) {
    let case = k.case;
    k.res = Some(observe_ref_body!(s, case));
}





/// RGBA cells: `Image` (src/image.rs) is a `Surface` implementor over them — `Image::new(view)`,
/// `Image::from_parts`, `Image::crop` must denote the same windows as the views they are made from
impl Elem for RGBA {
    fn mk(id: T) -> Self {
        let b = id.to_le_bytes();
        RGBA::new(b[0], b[1], b[2], b[3])
    }
    fn id(&self) -> T {
        T::from_le_bytes(self.to_rgba())
    }
    const BY_VALUE: bool = true;
    fn image_end<'a>(s: DynRef<'a, Self>, case: &Case) -> Result<Obs, DynRef<'a, Self>> {
        // every read-side accessor as a method call on the concrete `Image`
        type E = RGBA;
        let img = Image::new(s);
        Ok(observe_ref_body!(img, case))
    }
    fn image_step<'a>(s: DynRef<'a, Self>, op: &Op, variant: u8) -> Result<DynRef<'a, Self>, DynRef<'a, Self>> {
        Ok(match (*op, variant % 5) {
            (Op::View(r, c), 0) => Box::new(Image::new(s).crop(r, c)),
            (Op::View(r, c), 1) => Box::new(Image::new(s.view_owned(r, c))),
            (Op::View(r, c), 2) => Box::new(Image::new(s).view_owned(r, c)),
            (Op::View(r, c), 3) => {
                let img = Image::new(s.view_owned(r, c));
                Box::new(Image::from_parts(Arc::from(img.data()), img.shape()))
            }
            (Op::View(r, c), _) => Box::new(Image::new(Image::new(s).view(r, c))),
            (Op::Transpose, 0) => Box::new(Image::new(s.transpose())),
            (Op::Transpose, 1) => Box::new(Image::new(s).transpose()),
            (Op::Transpose, 2) => Box::new(Image::new(Image::new(s).transpose())),
            (Op::Transpose, 3) => {
                let img = Image::new(s.transpose());
                Box::new(Image::from_parts(Arc::from(img.data()), img.shape()).crop(.., ..))
            }
            (Op::Transpose, _) => Box::new(Arc::new(Image::new(s)).transpose()),
        })
    }
}

fn is_mut_acc(acc: &str) -> bool {
    matches!(acc, "gridmut" | "probemut" | "posnthmut" | "posadaptmut" | "itermut" | "nthmut" | "fill" | "clear" | "fillwith" | "insert" | "insertwrap" | "inserthuge" | "set")
}

/// run one case on the implementation with element type `E`; `Err` = panic whose effect on the parent
/// cannot be inspected (the root was moved into the chain)
fn run_impl_e<E: Elem>(case: &Case, mutable: bool) -> Result<Obs, ()> {
    let live0 = E::live();
    let r = guarded(|| {
        let mut root = new_root::<E>(case.h, case.w, case.extra);
        let mut sink = Sink { case, res: None };
        if mutable {
            if case.root_kind == 0 {
                start_mut_owned::<E>(root, &case.steps, &mut sink);
            } else {
                let r = guarded(|| start_mut_borrowed::<E>(&mut root, &case.steps, &mut sink));
                // the parent itself is the authority on what was changed
                let canvas = ids(root.data());
                match (r, sink.res.as_mut()) {
                    (Ok(()), Some(obs)) => {
                        if canvas != obs.canvas {
                            obs.bad = Some("data() of the view differs from the parent's cells".to_string());
                        }
                        obs.canvas = canvas;
                    }
                    _ => sink.res = Some(Obs { panicked: true, canvas, ..Obs::default() }),
                }
            }
        } else if case.root_kind == 0 {
            start_ref_owned::<E>(root, &case.steps, &mut sink);
        } else {
            start_ref_borrowed::<E>(&root, &case.steps, &mut sink);
        }
        let mut obs = sink.res.expect("continuation was not called");
        obs.canvas_skip = E::BY_VALUE && !mutable;
        obs
    });
    let live1 = E::live();
    r.map(|mut obs| {
        if live1 != live0 {
            obs.bad = Some(format!("constructions minus drops of cells changed by {} over the whole case (leak or double drop)", live1 - live0));
        }
        obs
    })
}

/// terminal cells; the root is the crate's third Surface implementor, `Offscreen::surf()` / `surf_mut()`
/// (src/view/offscreen.rs), allocated by `draw_view` and filled through the raw `data_mut()` slice
impl Elem for TCell {
    fn mk(id: T) -> Self {
        TCell::new_char(Face::default(), char::from_u32(0xE000 + id % 1_000_000).unwrap_or('?'))
    }
    fn id(&self) -> T {
        match self.kind() {
            // `Default::default()` (a blank) is the value 0
            CellKind::Char(' ') => 0,
            CellKind::Char(c) => (*c as u32).wrapping_sub(0xE000),
            _ => T::MAX,
        }
    }
}

fn run_offscreen(case: &Case, mutable: bool) -> Result<Obs, ()> {
    guarded(|| {
        let off = Offscreen::new();
        off.draw_view(&ViewContext::dummy(), BoxConstraint::tight(size_of_hw(case.h, case.w)), ()).expect("draw_view");
        {
            let mut s = off.surf_mut();
            for (i, c) in s.data_mut().iter_mut().enumerate() {
                *c = TCell::mk((i + 1) as T);
            }
        }
        let mut sink = Sink { case, res: None };
        if mutable {
            chain_mut::<TCell>(Box::new(off.surf_mut()), &case.steps, &mut sink);
        } else {
            chain_ref::<TCell>(Box::new(off.surf()), &case.steps, &mut sink);
        }
        let mut obs = sink.res.expect("continuation was not called");
        let canvas = ids(off.surf().data());
        if canvas != obs.canvas {
            obs.bad = Some("data() of the view differs from the offscreen surface's cells".to_string());
        }
        obs.canvas = canvas;
        obs
    })
}

fn run_impl(case: &Case, mutable: bool) -> Result<Obs, ()> {
    match case.elem {
        CELL_ELEM => run_offscreen(case, mutable),
        0 => run_impl_e::<u32>(case, mutable),
        1 => run_impl_e::<Odd5>(case, mutable),
        4 => run_impl_e::<RGBA>(case, mutable),
        _ => run_impl_e::<Counted>(case, mutable),
    }
}

// ---------------------------------------------------------------------------------------------
// printing (same format as SurfModel.Shape.run)
// ---------------------------------------------------------------------------------------------
fn join<X: ToString>(l: &[X]) -> String {
    if l.is_empty() { "-".to_string() } else { l.iter().map(|x| x.to_string()).collect::<Vec<_>>().join(",") }
}
fn show_cell(c: &Option<(usize, T)>) -> String {
    match c {
        None => "x".to_string(),
        Some((o, v)) => format!("{o}:{v}"),
    }
}
fn show_off(c: &Option<(usize, T)>) -> String {
    match c {
        None => "x".to_string(),
        Some((o, _)) => format!("{o}"),
    }
}
fn sorted<X: Ord + Clone>(l: &[X]) -> Vec<X> {
    let mut v = l.to_vec();
    v.sort();
    v
}

fn request(case: &Case) -> String {
    let op = match case.acc.as_str() {
        "insertwrap" | "inserthuge" => "insert",
        "posadapt" => "posnth",
        "posadaptmut" => "posnthmut",
        a => a,
    };
    let head = format!("c07 {op} {} {} {} {}", case.h, case.w, case.extra, case.chain_token());
    match case.acc.as_str() {
        "nth" | "nthmut" | "probe" | "probemut" | "posnth" | "posnthmut" => format!("{head} {}", join(&case.args)),
        // the adaptor as the sequence of `nth` calls std makes: skip(a) = nth(a), next…; step_by(b) = next, nth(b-1)…
        "posadapt" | "posadaptmut" => format!("{head} {}", join(&case.items)),
        "fill" => format!("{head} {}", case.args[0]),
        "insert" | "insertwrap" | "inserthuge" => format!("{head} {} {} {}", case.args[0], case.args[1], join(&case.items)),
        "set" => format!("{head} {} {} 4242", case.args[0], case.args[1]),
        _ => head,
    }
}

fn answer(case: &Case, obs: &Result<Obs, ()>) -> String {
    let Ok(obs) = obs else { return "panic".to_string() };
    if obs.panicked {
        return "panic".to_string();
    }
    match case.acc.as_str() {
        // the extents of a window without cells are not compared with the model (the property does not fix them)
        "grid" if obs.height * obs.width == 0 => format!("empty {}", obs.is_empty as u8),
        "grid" => format!(
            "{} {} {} {}",
            obs.height,
            obs.width,
            obs.is_empty as u8,
            join(&obs.grid.iter().map(show_cell).collect::<Vec<_>>())
        ),
        "gridmut" if obs.height * obs.width == 0 => "empty".to_string(),
        "gridmut" | "probe" | "probemut" => join(&obs.grid.iter().map(show_cell).collect::<Vec<_>>()),
        "iter" | "nth" => join(&obs.items.iter().map(show_cell).collect::<Vec<_>>()),
        "posnth" | "posadapt" => join(&obs.pitems.iter().map(|x| match x {
            None => "x".to_string(),
            Some((r, c, o, v)) => format!("{r}.{c}:{o}:{v}"),
        }).collect::<Vec<_>>()),
        "posnthmut" | "posadaptmut" => join(&obs.pitems.iter().map(|x| match x {
            None => "x".to_string(),
            Some((r, c, o, _)) => format!("{r}.{c}:{o}"),
        }).collect::<Vec<_>>()),
        "itermut" | "nthmut" => join(&obs.items.iter().map(show_off).collect::<Vec<_>>()),
        "fill" | "clear" | "insert" | "insertwrap" | "inserthuge" => join(&obs.canvas),
        // the order of the closure calls is not compared: offsets sorted
        "fillwith" => format!("{} {}", join(&obs.canvas), join(&sorted(&obs.calls.iter().map(|c| c.2).collect::<Vec<_>>()))),
        "map" => format!("{} {}", join(&obs.mapped), join(&sorted(&obs.calls.iter().map(|c| c.2).collect::<Vec<_>>()))),
        "set" => format!("{} {}", join(&obs.canvas), join(&obs.mapped)),
        _ => String::new(),
    }
}

// ---------------------------------------------------------------------------------------------
// the property oracle
// ---------------------------------------------------------------------------------------------
/// does `insert` at this position overflow `usize` when it computes the row-major index?
fn insert_index(row: usize, col: usize, ws: usize) -> Option<usize> {
    row.checked_mul(ws)?.checked_add(col)
}

/// returns a description of the first way in which the observation contradicts the property
fn judge(case: &Case, win: &Mat, obs: &Result<Obs, ()>) -> Option<(String, Value, Value)> {
    let Ok(obs) = obs else {
        return Some(("operation panics".to_string(), json!("no panic"), json!("panic")));
    };
    let bad = |what: &str, e: Value, g: Value| Some((what.to_string(), e, g));
    if let Some(b) = &obs.bad {
        return bad("reference outside of the parent's cells / cells leaked or dropped twice", json!("address of a parent cell, balanced drops"), json!(b));
    }
    let n = case.cells();
    let init: Vec<T> = (0..n).map(|i| (i + 1) as T).collect();
    let flat: Vec<usize> = win.iter().flatten().copied().collect();
    let (hs, ws) = if win.is_empty() { (0, 0) } else { (win.len(), win[0].len()) };
    if obs.panicked {
        // a panic is what the property allows only where a position outside of the window is written to
        let allowed = match case.acc.as_str() {
            "set" => !(case.args[0] < hs && case.args[1] < ws),
            // the row-major index of the position does not fit usize: arithmetic overflow (debug profile)
            "inserthuge" => true,
            _ => false,
        };
        if !allowed {
            return bad("operation panics", json!("no panic"), json!("panic"));
        }
        if obs.canvas != init {
            return bad("a panicking operation changed the parent", json!(init), json!(obs.canvas));
        }
        return None;
    }
    if !win.is_empty() && (obs.height, obs.width) != (hs, ws) {
        return bad("height/width differ from the window selected on a plain matrix", json!([hs, ws]), json!([obs.height, obs.width]));
    }
    if win.is_empty() && obs.height * obs.width != 0 {
        return bad("height x width is not zero although the chain selects no cell", json!(0), json!([obs.height, obs.width]));
    }
    // expected canvas unless the accessor mutates
    let mut canvas = init.clone();
    match case.acc.as_str() {
        "grid" | "gridmut" => {
            let mut exp = Vec::new();
            for r in 0..obs.height + 2 {
                for c in 0..obs.width + 2 {
                    exp.push(win.get(r).and_then(|row| row.get(c)).map(|&id| (id, init[id])));
                }
            }
            if obs.grid != exp {
                return bad("get/get_mut: cells reached through the view differ from the matrix window (or a position outside is not absent)",
                    json!(exp.iter().map(show_cell).collect::<Vec<_>>()), json!(obs.grid.iter().map(show_cell).collect::<Vec<_>>()));
            }
        }
        "probe" | "probemut" => {
            // any position, however far away: the window's cell or absent — never a panic
            let exp: Vec<Option<(usize, T)>> =
                case.args.chunks(2).map(|rc| win.get(rc[0]).and_then(|row| row.get(rc[1])).map(|&id| (id, init[id]))).collect();
            if obs.grid != exp {
                return bad("get/get_mut at a far position: not the window's cell / not absent",
                    json!(exp.iter().map(show_cell).collect::<Vec<_>>()), json!(obs.grid.iter().map(show_cell).collect::<Vec<_>>()));
            }
        }
        "iter" | "itermut" => {
            let exp: Vec<Option<(usize, T)>> = flat.iter().map(|&id| Some((id, init[id]))).collect();
            if obs.items != exp {
                return bad("iteration does not yield the window's cells in row-major order, each once",
                    json!(exp.iter().map(show_cell).collect::<Vec<_>>()), json!(obs.items.iter().map(show_cell).collect::<Vec<_>>()));
            }
            let mut seen = std::collections::HashSet::new();
            if !obs.items.iter().all(|x| seen.insert(x.unwrap().0)) {
                return bad("iterator handed out two references to the same cell", json!("distinct addresses"), json!(obs.items.iter().map(show_off).collect::<Vec<_>>()));
            }
            let pos: Vec<(usize, usize)> = (0..hs).flat_map(|r| (0..ws).map(move |c| (r, c))).collect();
            if obs.positions != pos {
                return bad("with_position does not report row-major positions of the window", json!(pos), json!(obs.positions));
            }
            if case.acc == "itermut" {
                for (k, &id) in flat.iter().enumerate() {
                    canvas[id] = 5000 + k as T;
                }
            }
        }
        "nth" | "nthmut" => {
            // Iterator::nth: skip k, yield the next; the position can only move forward (and stops at usize::MAX)
            let mut p = 0usize;
            let mut exp = Vec::new();
            for &k in &case.args {
                p = p.saturating_add(k);
                exp.push(if p == usize::MAX { None } else { flat.get(p).map(|&id| (id, init[id])) });
                p = p.saturating_add(1);
            }
            if obs.items != exp {
                return bad("Iterator::nth does not skip/yield the window's cells in row-major order",
                    json!(exp.iter().map(show_cell).collect::<Vec<_>>()), json!(obs.items.iter().map(show_cell).collect::<Vec<_>>()));
            }
            let mut seen = std::collections::HashSet::new();
            if !obs.items.iter().flatten().all(|x| seen.insert(x.0)) {
                return bad("iterator handed out two references to the same cell", json!("distinct addresses"), json!(obs.items.iter().map(show_off).collect::<Vec<_>>()));
            }
            if case.acc == "nthmut" {
                for (j, e) in exp.iter().enumerate() {
                    if let Some((id, _)) = e {
                        canvas[*id] = 6000 + j as T;
                    }
                }
            }
        }
        "posnth" | "posnthmut" | "posadapt" | "posadaptmut" => {
            // which cells of the row-major enumeration the calls / the adaptor select
            let mut idx: Vec<Option<usize>> = Vec::new();
            if case.acc.starts_with("posnth") {
                let mut p = 0usize;
                for &k in &case.args {
                    p = p.saturating_add(k);
                    idx.push(if p < flat.len() { Some(p) } else { None });
                    p = p.saturating_add(1);
                }
            } else {
                let (mode, a, b) = (case.args[0], case.args[1], case.args[2]);
                let (start, step) = match mode {
                    1 => (a, 1),
                    2 => (0, b),
                    _ => (a, b),
                };
                let mut p = start;
                while p < flat.len() {
                    idx.push(Some(p));
                    p += step;
                }
                idx.push(None);
            }
            // every item comes with the position of that very cell
            let exp: Vec<Option<(usize, usize, usize, T)>> =
                idx.iter().map(|i| i.map(|i| (i / ws, i % ws, flat[i], init[flat[i]]))).collect();
            if obs.pitems != exp {
                return bad("with_position under nth/skip/step_by: (position, item) pairs are not the window's row-major enumeration",
                    json!(exp), json!(obs.pitems));
            }
            if case.acc.ends_with("mut") {
                for e in exp.iter().flatten() {
                    canvas[e.2] = pv(e.0, e.1);
                }
            }
        }
        "hash" => {
            // the view must hash like the plain matrix it denotes (same extents, same cells in row-major
            // order); which hash function that is, is not part of the property
            let (eh, ew) = if win.is_empty() { (obs.height, obs.width) } else { (hs, ws) };
            let plain = SurfaceOwned::<u32>::new_with(size_of_hw(eh, ew), |p| init[win[p.row][p.col]]);
            let exp = plain.hash();
            if obs.hashv != Some(exp) {
                return bad("hash of the view differs from the hash of the plain matrix holding the window", json!(exp), json!(obs.hashv));
            }
        }
        "fill" => flat.iter().for_each(|&id| canvas[id] = case.args[0] as T),
        "clear" => flat.iter().for_each(|&id| canvas[id] = 0),
        "fillwith" => {
            let mut exp = Vec::new();
            for (r, row) in win.iter().enumerate() {
                for (c, &id) in row.iter().enumerate() {
                    canvas[id] = tf(r, c, init[id]);
                    exp.push((r, c, id));
                }
            }
            // every cell of the window exactly once, with its own position; the order is not demanded
            if sorted(&obs.calls) != sorted(&exp) {
                return bad("fill_with does not call the function exactly once per cell of the window with the cell's position", json!(exp), json!(obs.calls));
            }
        }
        "insert" => {
            // position inside the window or below it (col < width): items go to the cells from there on in row-major order
            if let Some(index) = insert_index(case.args[0], case.args[1], ws) {
                for (j, &v) in case.items.iter().enumerate() {
                    if let Some(&id) = index.checked_add(j).and_then(|i| flat.get(i)) {
                        canvas[id] = v;
                    }
                }
            }
        }
        "insertwrap" | "inserthuge" => {
            // column beyond the window, or a position whose row-major index does not fit usize: the
            // property only demands that nothing outside of the window changes
            for (i, v) in obs.canvas.iter().enumerate() {
                if !flat.contains(&i) && *v != init[i] {
                    return bad("insert changed a cell outside of the window", json!(init), json!(obs.canvas));
                }
            }
            return None;
        }
        "set" => {
            if !(case.args[0] < hs && case.args[1] < ws) {
                let outside = obs.canvas.iter().enumerate().any(|(i, v)| !flat.contains(&i) && *v != init[i]);
                return bad(
                    if outside { "set at a position outside of the window wrote to a cell outside of the window" } else { "set at a position outside of the window is not refused" },
                    json!("panic, parent unchanged"), json!(obs.canvas));
            }
            let id = win[case.args[0]][case.args[1]];
            canvas[id] = 4242;
            if obs.mapped != vec![init[id]] {
                return bad("set does not return the old value of the window's cell", json!([init[id]]), json!(obs.mapped));
            }
        }
        "map" | "toowned" => {
            let mut exp = Vec::new();
            let mut calls = Vec::new();
            for (r, row) in win.iter().enumerate() {
                for (c, &id) in row.iter().enumerate() {
                    exp.push(if case.acc == "map" { tf(r, c, init[id]) } else { init[id] });
                    calls.push((r, c, id));
                }
            }
            if obs.mapped != exp || (!win.is_empty() && obs.mapped_size != (hs, ws)) {
                return bad("map/to_owned_surf does not produce the window's cells", json!({"data": exp, "size": [hs, ws]}), json!({"data": obs.mapped, "size": obs.mapped_size}));
            }
            if case.acc == "map" && sorted(&obs.calls) != sorted(&calls) {
                return bad("map does not read each cell of the window exactly once with the cell's position", json!(calls), json!(obs.calls));
            }
        }
        _ => {}
    }
    if !obs.canvas_skip && obs.canvas != canvas {
        let outside = obs.canvas.iter().enumerate().any(|(i, v)| !flat.contains(&i) && *v != init[i]);
        let what = if outside { "a cell outside of the window was changed" } else { "cells of the window do not hold what was written through the view" };
        return bad(what, json!(canvas), json!(obs.canvas));
    }
    None
}


// ---------------------------------------------------------------------------------------------
// generation
// ---------------------------------------------------------------------------------------------
fn gen_bound(rng: &mut Rng, ty: u8, n: usize) -> i128 {
    let (lo, hi) = ty_range(ty);
    let n = n as i128;
    let v = match rng.below(20) {
        0 => lo,
        1 => hi,
        2 => lo + rng.range(0, 2) as i128,
        3 => hi - rng.range(0, 2) as i128,
        4 | 5 => rng.range(-9, 9) as i128,
        _ => rng.range(-(n as i64) - 2, n as i64 + 2) as i128,
    };
    v.clamp(lo, hi)
}

fn gen_sel(rng: &mut Rng, n: usize) -> DynSel {
    let ty = rng.below(10) as u8;
    // forms: ranges most of the time, `..` and single indices less often
    let form = *rng.pick(&[0u8, 1, 1, 1, 2, 2, 3, 3, 4, 4, 5, 6, 6, 6]);
    let wild = rng.chance(1, 6);
    let mut a = gen_bound(rng, ty, n);
    let mut b = gen_bound(rng, ty, n);
    // make most two-sided ranges non-empty (otherwise nearly all chains die early)
    if (form == 1 || form == 4) && !wild && n > 0 {
        let (lo, hi) = ty_range(ty);
        let s = rng.below(n as u64) as i128;
        let e = s + rng.below((n as i128 - s) as u64) as i128 + (form == 1) as i128;
        a = s;
        b = e;
        if lo < 0 && rng.chance(1, 3) {
            a = s - n as i128;
        }
        if lo < 0 && rng.chance(1, 3) && (form == 4 || e < n as i128) {
            b = e - n as i128;
        }
        a = a.clamp(lo, hi);
        b = b.clamp(lo, hi);
    }
    if form == 0 && !wild && n > 0 {
        let (lo, _) = ty_range(ty);
        a = rng.below(n as u64) as i128;
        if lo < 0 && rng.chance(1, 2) {
            a -= n as i128;
        }
    }
    if !wild && n > 0 {
        // one-sided ranges that keep something: `a..` with a below the end, `..b` / `..=b` with b above the start
        let (lo, _) = ty_range(ty);
        let neg = lo < 0 && rng.chance(1, 3);
        match form {
            2 => a = rng.below(n as u64) as i128 - if neg { n as i128 } else { 0 },
            3 => b = 1 + rng.below(n as u64) as i128 - if neg && n > 1 { n as i128 + 1 } else { 0 },
            5 => b = rng.below(n as u64) as i128 - if neg { n as i128 } else { 0 },
            _ => {}
        }
        if form == 3 && b == 0 {
            b = 1;
        }
    }
    match form {
        0 | 2 => b = 0,
        3 | 5 => a = 0,
        6 => {
            a = 0;
            b = 0;
        }
        _ => {}
    }
    DynSel { form, ty: if form == 6 { 0 } else { ty }, a, b }
}

fn gen_chain(rng: &mut Rng, h: usize, w: usize, max_len: usize) -> Vec<Step> {
    let len = rng.below(max_len as u64 + 1) as usize;
    let mut steps = Vec::new();
    let mut m = spec_root(h, w);
    for _ in 0..len {
        let (ch, cw) = (m.len(), m.first().map(|r| r.len()).unwrap_or(0));
        let op = if rng.chance(1, 3) { Op::Transpose } else { Op::View(gen_sel(rng, ch), gen_sel(rng, cw)) };
        m = spec_apply(&m, &op);
        steps.push(Step { op, kind: rng.below(60) as u8 });
    }
    steps
}

fn sel(form: u8, ty: u8, a: i128, b: i128) -> DynSel {
    DynSel { form, ty, a, b }
}

/// tall and wide roots on which the extremes of the narrow integer types fall INSIDE the axis: a scalar or
/// range bound of exactly MIN / MIN+1 / -n / MAX of i8, i16 (u8, u16 MAX) must select what Python selects
fn tall_wide_chains() -> Vec<(usize, usize, Vec<Op>)> {
    let f = DynSel::full();
    let t = Op::Transpose;
    let v = |r: DynSel, c: DynSel| Op::View(r, c);
    let (i8t, u8t, i16t, u16t) = (0u8, 1u8, 2u8, 3u8);
    vec![
        // 200 rows: i8::MIN = -128 is row 72
        (200, 3, vec![v(sel(0, i8t, -128, 0), f)]),
        (200, 3, vec![v(sel(0, i8t, -127, 0), f), t]),
        (200, 3, vec![v(sel(0, i8t, 127, 0), sel(0, i8t, -3, 0))]),
        (200, 3, vec![v(sel(2, i8t, -128, 0), f), v(sel(0, i8t, -128, 0), f)]),
        (200, 3, vec![v(sel(4, i8t, -128, -127), f)]),
        (200, 3, vec![v(sel(5, i8t, 0, -128), sel(0, u8t, 2, 0)), t]),
        (200, 3, vec![v(sel(0, i16t, -200, 0), f)]),
        (200, 3, vec![t, v(f, sel(0, i8t, -128, 0))]),
        (260, 2, vec![v(sel(0, u8t, 255, 0), f)]),
        // 130 columns: i8::MIN is column 2
        (3, 130, vec![v(f, sel(0, i8t, -128, 0))]),
        (3, 130, vec![v(f, sel(1, i8t, -128, -126))]),
        (3, 130, vec![v(sel(0, i8t, -3, 0), sel(0, i8t, 127, 0))]),
        (3, 130, vec![t, v(sel(0, i8t, -128, 0), f), t]),
        (3, 130, vec![v(f, sel(0, i16t, -130, 0))]),
        // i16::MIN = -32768 is row 5 of 32773 / column 7232 of 40000
        (32773, 1, vec![v(sel(0, i16t, -32768, 0), f)]),
        (32773, 1, vec![v(sel(1, i16t, -32768, -32766), f), t]),
        (32773, 1, vec![v(sel(0, i16t, 32767, 0), f)]),
        (1, 40000, vec![v(f, sel(0, i16t, -32768, 0))]),
        (1, 40000, vec![v(f, sel(4, i16t, -32768, -32767))]),
        (1, 40000, vec![v(f, sel(0, u16t, 39999, 0))]),
        (1, 40000, vec![v(f, sel(0, u16t, 65535, 0))]),
    ]
}

/// white-box corner cases, run first whatever the seed
fn corner_chains() -> Vec<(usize, usize, Vec<Op>)> {
    let f = DynSel::full();
    let t = Op::Transpose;
    let v = |r: DynSel, c: DynSel| Op::View(r, c);
    vec![
        (0, 0, vec![]),
        (0, 3, vec![]),
        (3, 0, vec![]),
        (0, 3, vec![t]),
        (3, 0, vec![t, v(f, f)]),
        (3, 0, vec![v(sel(1, 0, 1, 2), f)]),
        (1, 1, vec![]),
        (1, 1, vec![t, v(sel(0, 0, -1, 0), sel(0, 1, 0, 0))]),
        (3, 4, vec![]),
        (3, 4, vec![t]),
        (3, 4, vec![t, t]),
        // narrower than the parent: a fill that runs one cell too far leaves the window
        (3, 4, vec![v(f, sel(1, 0, 1, 3))]),
        (3, 4, vec![v(sel(1, 2, 1, 2), sel(3, 4, 0, -1))]),
        // view after transpose: start has to use the swapped strides
        (3, 4, vec![t, v(sel(2, 0, 1, 0), sel(2, 1, 1, 0))]),
        (4, 3, vec![t, v(sel(1, 6, 1, 3), sel(4, 8, -3, -2)), t]),
        (5, 6, vec![v(sel(1, 0, 1, 4), sel(1, 0, 2, 5)), t, v(sel(2, 0, 1, 0), sel(3, 0, 0, -1)), t, v(sel(0, 0, -1, 0), f)]),
        // strided view whose rows end before the parent's: row ends matter for nth
        (4, 5, vec![v(sel(1, 3, 1, 3), sel(1, 5, 1, 4))]),
        (4, 5, vec![t, v(sel(1, 7, 1, 4), sel(4, 9, 1, 2))]),
        // selectors outside of the axis and of small types (C08 territory seen through a view)
        (3, 3, vec![v(sel(5, 0, 0, -4), f)]),
        (3, 3, vec![v(f, sel(5, 2, 0, -7))]),
        (3, 3, vec![v(sel(2, 7, u64::MAX as i128, 0), f)]),
        (3, 3, vec![v(sel(2, 6, i64::MAX as i128, 0), f)]),
        (3, 3, vec![v(sel(0, 0, 2, 0), sel(0, 0, -128, 0))]),
        (6, 6, vec![v(sel(4, 0, -128, 127), sel(1, 0, -128, 127))]),
        (6, 6, vec![v(sel(3, 1, 0, 255), sel(5, 3, 0, 65535)), t, v(sel(0, 9, 5, 0), sel(0, 8, -6, 0))]),
        (2, 2, vec![v(sel(0, 0, 2, 0), f)]),
        (2, 2, vec![v(f, sel(0, 1, 2, 0))]),
        (2, 3, vec![v(sel(1, 0, 1, 1), f), t]),
    ]
}

/// type-erased chain with a closure at the end (zero-sized cells only)
fn chain_erased_mut<'a, E: Elem>(mut s: DynMut<'a, E>, steps: &[Step], k: &mut dyn for<'b> FnMut(DynMut<'b, E>)) {
    let Some((step, rest)) = steps.split_first() else {
        return k(s);
    };
    match step.op {
        Op::View(r, c) => match step.kind % 3 {
            0 => chain_erased_mut(Box::new(s.view_owned(r, c)), rest, k),
            1 => chain_erased_mut(Box::new(s.view_mut(r, c)), rest, k),
            _ => chain_erased_mut(Box::new((&mut s).view_owned(r, c)), rest, k),
        },
        Op::Transpose => match step.kind % 2 {
            0 => chain_erased_mut(Box::new(s.transpose()), rest, k),
            _ => chain_erased_mut(Box::new((&mut s).transpose()), rest, k),
        },
    }
}

const ZST: u8 = 3;
const RGBA_ELEM: u8 = 4;
const CELL_ELEM: u8 = 5;
impl Elem for () {
    fn mk(_: T) -> Self {}
    fn id(&self) -> T {
        0
    }
}

/// zero-sized cells: all addresses coincide and cells carry no value, so only presence, counts, positions
/// and the absence of panics can be judged
fn zst_check(case: &Case, win: &Mat) -> Option<(String, Value, Value)> {
    let (hs, ws) = if win.is_empty() { (0, 0) } else { (win.len(), win[0].len()) };
    let cells = hs * ws;
    let pos: Vec<(usize, usize)> = (0..hs).flat_map(|r| (0..ws).map(move |c| (r, c))).collect();
    let mut verdict: Option<(String, Value, Value)> = None;
    let r = guarded(|| {
        let root = SurfaceOwned::<()>::new(size_of_hw(case.h, case.w));
        chain_erased_mut::<()>(Box::new(root), &case.steps, &mut |mut s| {
            let mut bad = |what: &str, e: Value, g: Value| {
                if verdict.is_none() {
                    verdict = Some((format!("zero-sized cells: {what}"), e, g));
                }
            };
            let (h, w) = (s.height(), s.width());
            if (cells > 0 && (h, w) != (hs, ws)) || (cells == 0 && h * w != 0) {
                bad("height/width differ from the matrix window", json!([hs, ws]), json!([h, w]));
            }
            for r in 0..h + 2 {
                for c in 0..w + 2 {
                    let inside = r < hs && c < ws;
                    if s.get(pos_at(r, c)).is_some() != inside || s.get_mut(pos_at(r, c)).is_some() != inside {
                        bad("get/get_mut presence differs from the window", json!(inside), json!([r, c]));
                    }
                }
            }
            for (r, c) in [(usize::MAX, 0), (0, usize::MAX), (usize::MAX, usize::MAX), (1usize << 63, 1), ((usize::MAX / w.max(1)).saturating_add(1), 0)] {
                if s.get(pos_at(r, c)).is_some() || s.get_mut(pos_at(r, c)).is_some() {
                    bad("get/get_mut at a far position is not absent", json!("None"), json!([r, c]));
                }
            }
            if s.iter().count() != cells || s.iter_mut().count() != cells {
                bad("iteration does not yield height x width items", json!(cells), json!([s.iter().count(), s.iter_mut().count()]));
            }
            let p: Vec<(usize, usize)> = s.iter_mut().with_position().map(|(p, _)| (p.row, p.col)).collect();
            if p != pos {
                bad("with_position is not row-major over the window", json!(pos), json!(p));
            }
            let mut it = s.iter_mut();
            let mut at = 0usize;
            for &k in &case.args {
                at = at.saturating_add(k);
                let got = it.nth(k).is_some();
                if got != (at < cells) {
                    bad("Iterator::nth yields beyond / stops before the window's cells", json!(at < cells), json!(got));
                }
                at = at.saturating_add(1);
            }
            let mut calls = Vec::new();
            s.fill_with(|p, _| calls.push((p.row, p.col)));
            if sorted(&calls) != pos {
                bad("fill_with does not visit each cell of the window once", json!(pos), json!(calls));
            }
            let mut calls = Vec::new();
            let m = s.map(|p, _| calls.push((p.row, p.col)));
            if sorted(&calls) != pos || m.to_vec().len() != cells {
                bad("map does not visit each cell of the window once", json!(pos), json!(calls));
            }
            s.fill(());
            s.clear();
            s.insert(pos_at(hs / 2, 0), std::iter::repeat_n((), cells + 2));
            if s.data().len() != case.h * case.w {
                bad("the parent changed its length", json!(case.h * case.w), json!(s.data().len()));
            }
            let outside = guarded(|| s.set(pos_at(hs, 0), ())).is_err();
            if !outside {
                bad("set below the window is not refused", json!("panic"), json!("returned"));
            }
            if cells > 0 && guarded(|| s.set(pos_at(hs - 1, ws - 1), ())).is_err() {
                bad("set inside the window panics", json!("no panic"), json!("panic"));
            }
        });
    });
    if r.is_err() && verdict.is_none() {
        verdict = Some(("zero-sized cells: operation panics".to_string(), json!("no panic"), json!("panic")));
    }
    verdict
}

/// a coordinate far outside of every window: extremes of usize and values whose product with a stride of
/// the parent (`1`, `w`, `h`, the window's extents) is close to, or wraps around, 2^64 — so that an offset
/// computed before the bounds test overflows or wraps to an in-range offset
fn far_coord(rng: &mut Rng, dims: &[usize]) -> usize {
    const MAX: usize = usize::MAX;
    let s = (*rng.pick(dims)).max(1);
    let k = rng.below(3) as usize;
    match rng.below(9) {
        0 => MAX - k,
        1 => (1usize << 63) + k,
        2 => (1usize << 63) - 1 - k,
        3 => (MAX / s).saturating_add(1 + k),
        4 => MAX / s - k,
        // s * v = 2^64 + small: wraps to a small (in-range) offset
        5 => ((1u128 << 64).div_ceil(s as u128).min(MAX as u128) as usize).saturating_add(k),
        6 => 1usize << (32 + rng.below(31)),
        7 => MAX / 2 / s + 1 + k,
        _ => (MAX - k) / s.max(2),
    }
}

/// FNV-1a (64 bit) over what `Surface::hash` feeds its hasher: height and width as usize, then the cells —
/// written here independently; a disagreement with the crate's hash is recorded in the evidence, it is not a
/// C07 failure (the property does not fix the hash function)
fn fnv1a_window(h: usize, w: usize, cells: &[u32]) -> u64 {
    let mut x: u64 = 0xcbf29ce484222325;
    let mut feed = |bytes: &[u8]| {
        for b in bytes {
            x ^= *b as u64;
            x = x.wrapping_mul(0x100000001b3);
        }
    };
    feed(&h.to_ne_bytes());
    feed(&w.to_ne_bytes());
    for c in cells {
        feed(&c.to_ne_bytes());
    }
    x
}

struct Ctx {
    out: Out,
    hash_agree: u64,
    hash_differ: u64,
    /// name of the build profile the cases run in ("debug" in the main run)
    profile: &'static str,
}

impl Ctx {
    /// one (chain, accessor) evaluation
    fn eval(&mut self, case: &Case) {
        let win = spec_window(case);
        if case.elem == ZST {
            self.out.case(&format!("zst {} {} {}", case.h, case.w, case.chain_token()), !win.is_empty() && !case.steps.is_empty());
            self.out.hist("acc:zst");
            if let Some((what, exp, got)) = zst_check(case, &win) {
                let mut input = case.to_json();
                input["profile"] = json!(self.profile);
                self.out.fail(&what, input, exp, got);
            }
            return;
        }
        let mutable = is_mut_acc(&case.acc) || case.root_kind >= 2;
        let mut case = case.clone();
        case.root_kind %= 2;
        if matches!(case.acc.as_str(), "set" | "inserthuge") {
            // a panic is a possible outcome: the parent has to stay inspectable
            case.root_kind = 1;
        }
        let obs = run_impl(&case, mutable);
        let ans = answer(&case, &obs);
        let req = request(&case);
        let nontrivial = !win.is_empty() && !case.steps.is_empty();
        self.out.case(&format!("{req} {ans}"), nontrivial);
        self.out.hist(&format!("acc:{}", case.acc));
        self.out.hist(&format!("elem:{}", ELEMS[case.elem as usize]));
        if !matches!(case.acc.as_str(), "insertwrap" | "inserthuge" | "toowned" | "hash") && case.elem != RGBA_ELEM {
            self.out.corr(&req, &ans);
        }
        if case.acc == "hash" {
            if let Ok(Obs { hashv: Some(hv), height, width, panicked: false, .. }) = &obs {
                let cells: Vec<u32> = win.iter().flatten().map(|&id| (id + 1) as u32).collect();
                if *hv == fnv1a_window(*height, *width, &cells) { self.hash_agree += 1 } else { self.hash_differ += 1 }
            }
        }
        if let Some((what, exp, got)) = judge(&case, &win, &obs) {
            let mut input = case.to_json();
            input["mutable_carrier"] = json!(mutable);
            input["request"] = json!(req);
            input["profile"] = json!(self.profile);
            self.out.fail(&format!("{}: {what}", case.acc), input, exp, got);
        }
        if case.acc == "grid" {
            // the verified Lean specification applied to what the implementation shows through the view
            if let Ok(obs) = &obs {
                let mut rows: Vec<String> = Vec::new();
                for r in 0..obs.height {
                    let row: Vec<String> = (0..obs.width)
                        .filter_map(|c| obs.grid[r * (obs.width + 2) + c].map(|(_, v)| v.to_string()))
                        .collect();
                    if !row.is_empty() {
                        rows.push(row.join(","));
                    }
                }
                let shown = if rows.is_empty() { "-".to_string() } else { rows.join(";") };
                self.out.oracle(&format!("c07 spec {} {} {} {}", case.h, case.w, case.extra, case.chain_token()), &shown);
            }
        }
    }

    /// all accessors for one chain; every accessor runs on a fresh root with its own carrier mix
    fn chain(&mut self, rng: &mut Rng, h: usize, w: usize, extra: usize, elem: u8, ops: &[Op]) {
        let proto = Case { h, w, extra, elem, steps: ops.iter().map(|&op| Step { op, kind: 0 }).collect(), root_kind: 0, end_kind: 0, acc: String::new(), args: vec![], items: vec![] };
        let win = spec_window(&proto);
        let (hs, ws) = if win.is_empty() { (0, 0) } else { (win.len(), win[0].len()) };
        let cells = hs * ws;
        self.out.hist(&format!("chain-len:{}", ops.len()));
        self.out.hist(if cells == 0 { "window:empty" } else if cells == h * w { "window:whole" } else { "window:proper" });
        self.out.hist(&format!("transposes:{}", ops.iter().filter(|o| **o == Op::Transpose).count()));
        self.out.hist(if h * w > 300 { "root:300+cells" } else if h > 6 || w > 6 { "root:upto20x20" } else { "root:upto6x6" });
        self.out.hist(if extra > 0 { "root:from_vec" } else { "root:new_with" });
        const MAX: usize = usize::MAX;
        let accs = [
            "grid", "grid+", "gridmut", "probe", "probe+", "probemut", "posnth", "posnth+", "posnthmut", "posadapt", "posadaptmut", "hash", "hash+", "iter", "iter+", "itermut", "nth", "nth+", "nthmut", "nthmut!", "nth!", "fill", "clear", "fillwith",
            "insert", "insert!", "inserthuge", "insertwrap", "map", "map+", "toowned", "set", "set!",
        ];
        for acc in accs.iter() {
            let steps: Vec<Step> = ops.iter().map(|&op| Step { op, kind: rng.below(60) as u8 }).collect();
            // `+`: immutable accessor on mutable carriers; `!`: caller-supplied extremes
            let (name, flag) = match acc.strip_suffix('+') {
                Some(n) => (n, '+'),
                None => match acc.strip_suffix('!') {
                    Some(n) => (n, '!'),
                    None => (*acc, ' '),
                },
            };
            let root_kind = rng.below(2) as u8 + if flag == '+' || (name == "toowned" && rng.chance(1, 2)) { 2 } else { 0 };
            // a panic while the offscreen lock is held poisons it: the parent could not be inspected afterwards
            if elem == CELL_ELEM && (name == "inserthuge" || (name == "insert" && flag == '!') || (name == "set" && (flag == '!' || cells == 0))) {
                continue;
            }
            let mut case = Case { steps, root_kind, end_kind: rng.below(12) as u8, acc: name.to_string(), ..proto.clone() };
            match name {
                "nth" | "nthmut" if flag == '!' => {
                    // saturation of the iterator index: nothing may be yielded twice or after usize::MAX
                    let k = rng.below(cells as u64 + 2) as usize;
                    case.args = match rng.below(7) {
                        0 => vec![MAX],
                        1 => vec![0, MAX, 0],
                        2 => vec![k, MAX - rng.below(cells as u64 + 3) as usize, 0, 0],
                        3 => vec![MAX, MAX, 0],
                        4 => vec![0, MAX - 1, 0, 1],
                        5 => vec![k, MAX - k, 0],
                        _ => vec![0, 0, MAX - 2, 0],
                    };
                }
                "nth" | "nthmut" => {
                    let calls = 1 + rng.below(5) as usize;
                    for _ in 0..calls {
                        let k = if rng.chance(1, 2) { 0 } else { rng.below(ws.max(2) as u64 + 2) as usize };
                        case.args.push(k);
                    }
                    if rng.chance(1, 6) {
                        case.args.push(cells + rng.below(3) as usize);
                        case.args.push(0);
                    }
                }
                "fill" => case.args.push(7777),
                "insert" => {
                    let mut r = rng.below(hs as u64 + 2) as usize;
                    let c = if ws == 0 { 0 } else { rng.below(ws as u64) as usize };
                    if flag == '!' && ws == 0 {
                        // a window without cells: its extents are not fixed by the property, so whether the
                        // index computation overflows is not either — judged for safety only
                        case.acc = "inserthuge".to_string();
                        r = usize::MAX - rng.below(4) as usize;
                    } else if flag == '!' {
                        // far below the window, the row-major index still fits usize
                        r = match rng.below(3) {
                            0 => MAX / ws.max(1) - 1 - rng.below(3) as usize,
                            1 => 1usize << (20 + rng.below(30)),
                            _ => hs + 2 + rng.below(1000) as usize,
                        };
                    }
                    case.args = vec![r, c];
                    let n = rng.below(cells as u64 + 4) as usize;
                    case.items = (0..n).map(|j| 9000 + j as T).collect();
                }
                "inserthuge" => {
                    // the row-major index of the position overflows usize (only possible for a window with cells)
                    if ws == 0 {
                        continue;
                    }
                    case.args = if ws == 1 {
                        vec![MAX - rng.below(3) as usize, 3 + rng.below(3) as usize]
                    } else {
                        match rng.below(3) {
                            0 => vec![MAX / ws + 1 + rng.below(3) as usize, rng.below(ws as u64) as usize],
                            1 => vec![MAX, rng.below(ws as u64) as usize],
                            // wraps to a small index when overflow is not checked
                            _ => vec![(MAX / ws + 1).next_power_of_two().min(MAX / 2 + 1), 0],
                        }
                    };
                    let n = 1 + rng.below(cells as u64 + 2) as usize;
                    case.items = (0..n).map(|j| 9000 + j as T).collect();
                }
                "insertwrap" => {
                    let r = rng.below(hs as u64 + 1) as usize;
                    let c = if rng.chance(1, 8) { MAX - rng.below(2) as usize } else { ws + rng.below(3) as usize };
                    if insert_index(r, c, ws).is_none() {
                        continue;
                    }
                    case.args = vec![r, c];
                    let n = rng.below(cells as u64 + 4) as usize;
                    case.items = (0..n).map(|j| 9000 + j as T).collect();
                }
                "hash" if elem != 0 => continue,
                "posnth" | "posnthmut" => {
                    // next / nth mixes on the position iterator (nth is executed as that many `next`)
                    let calls = 2 + rng.below(5) as usize;
                    for _ in 0..calls {
                        let k = if rng.chance(1, 2) { 0 } else { 1 + rng.below(ws.max(2) as u64 + 1) as usize };
                        case.args.push(k);
                    }
                    if rng.chance(1, 5) {
                        case.args.push(cells + rng.below(3) as usize);
                        case.args.push(0);
                    }
                }
                "posadapt" | "posadaptmut" => {
                    let mode = 1 + rng.below(3) as usize;
                    let a = rng.below(cells as u64 + 2) as usize;
                    let b = 1 + rng.below(ws.max(2) as u64 + 1) as usize;
                    case.args = vec![mode, a, b];
                    let (first, step, count) = match mode {
                        1 => (a, 0, cells.saturating_sub(a)),
                        2 => (0, b - 1, cells.div_ceil(b)),
                        _ => (a, b - 1, cells.saturating_sub(a).div_ceil(b)),
                    };
                    case.items = std::iter::once(first as T).chain(std::iter::repeat_n(step as T, count)).collect();
                }
                "probe" | "probemut" => {
                    // far positions: (far, in-range), (in-range, far), (far, far), plus one ordinary neighbour
                    let dims = [1, h, w, hs, ws, h * w];
                    for _ in 0..6 {
                        let near_r = rng.below(hs as u64 + 2) as usize;
                        let near_c = rng.below(ws as u64 + 2) as usize;
                        let (r, c) = match rng.below(7) {
                            0 | 1 => (far_coord(rng, &dims), near_c),
                            2 | 3 => (near_r, far_coord(rng, &dims)),
                            4 | 5 => (far_coord(rng, &dims), far_coord(rng, &dims)),
                            _ => (near_r, near_c),
                        };
                        case.args.extend([r, c]);
                    }
                }
                "set" if (flag == '!' || cells == 0) && rng.chance(1, 3) => {
                    // far outside: a panic is demanded, not an overflow in the offset computation that
                    // wraps to a cell of the parent (release) — the parent must stay unchanged
                    let dims = [1, h, w, hs, ws, h * w];
                    case.args = match rng.below(3) {
                        0 => vec![far_coord(rng, &dims), rng.below(ws as u64 + 1) as usize],
                        1 => vec![rng.below(hs as u64 + 1) as usize, far_coord(rng, &dims)],
                        _ => vec![far_coord(rng, &dims), far_coord(rng, &dims)],
                    };
                }
                "set" if flag == '!' || cells == 0 => {
                    // outside of the window; for proper windows mostly still inside the parent
                    case.args = match rng.below(8) {
                        0 => vec![MAX, 0],
                        1 => vec![0, MAX],
                        2 => vec![MAX, MAX],
                        3 => vec![hs + rng.below(2) as usize, ws + rng.below(2) as usize],
                        4 | 5 => vec![hs, rng.below(ws.max(1) as u64) as usize],
                        _ => vec![rng.below(hs.max(1) as u64) as usize, ws],
                    };
                }
                "set" => case.args = vec![rng.below(hs as u64) as usize, rng.below(ws as u64) as usize],
                _ => {}
            }
            self.eval(&case);
        }
    }
}

/// Thorough tier: the corner chains (every accessor, every carrier kind) are run again under the Miri
/// interpreter, once with Tree Borrows and once with Stacked Borrows. This is SUPPORT for the aliasing
/// claim only: the outcome goes to the evidence (`extra.miri_support_only`), it never changes the verdict
/// (the verdict on aliasing comes from theorem C07_injective + the address comparison above).
fn miri_support(outdir: &std::path::Path) -> Value {
    let manifest = env!("CARGO_MANIFEST_DIR");
    let mut res = serde_json::Map::new();
    for (name, flags) in [
        ("tree_borrows", "-Zmiri-disable-isolation -Zmiri-tree-borrows"),
        ("stacked_borrows", "-Zmiri-disable-isolation"),
    ] {
        let dir = outdir.join(format!("miri-{name}"));
        let t0 = std::time::Instant::now();
        let run = std::process::Command::new("cargo")
            .args(["+nightly", "miri", "run", "--offline", "-q", "--bin", "c07", "--"])
            .arg(&dir)
            .current_dir(manifest)
            .env("VERIF_MIRI", "1")
            .env("VERIF_TIER", "quick")
            .env("MIRIFLAGS", flags)
            .env("CARGO_TARGET_DIR", format!("{manifest}/target/miri-c07"))
            .env_remove("VERIF_REPLAY")
            .output();
        let v = match run {
            Err(e) => json!({"status": "unavailable", "detail": e.to_string()}),
            Ok(o) => {
                let err = String::from_utf8_lossy(&o.stderr).to_string();
                let stats: Option<Value> =
                    std::fs::read_to_string(dir.join("stats.json")).ok().and_then(|s| serde_json::from_str(&s).ok());
                let ub = err.lines().find(|l| l.contains("Undefined Behavior")).map(|l| l.to_string());
                let at = err.lines().skip_while(|l| !l.contains("Undefined Behavior")).find(|l| l.contains("src/surface.rs") || l.contains("src/bin/c07.rs")).map(|l| l.trim().to_string());
                let status = if o.status.success() && stats.is_some() { "pass" } else if ub.is_some() { "undefined-behaviour-reported" } else { "unavailable" };
                json!({
                    "status": status,
                    "wall_s": t0.elapsed().as_secs(),
                    "evaluations": stats.as_ref().map(|s| s["evaluations"].clone()),
                    "oracle_failures": stats.as_ref().map(|s| s["oracle_failure_count"].clone()),
                    "report": ub, "first_location": at,
                    "stderr_tail": if status == "unavailable" { err.chars().rev().take(600).collect::<String>().chars().rev().collect::<String>() } else { String::new() },
                })
            }
        };
        res.insert(name.to_string(), v);
    }
    Value::Object(res)
}

/// Every run (and replays of release-profile failures): the quick case list once more in a child built
/// with the release profile — overflow checks and debug assertions off, as users of the crate run it. The
/// child's oracle failures count as failures of this run (each carries its input and `"profile": "release"`).
fn release_child(cfg: &Cfg, out: &mut Out, replay: bool) -> Value {
    let manifest = env!("CARGO_MANIFEST_DIR");
    let target = format!("{manifest}/target/release-c07");
    let t0 = std::time::Instant::now();
    let build = std::process::Command::new("cargo")
        .args(["build", "--release", "--offline", "-q", "--bin", "c07"])
        .current_dir(manifest)
        .env("CARGO_TARGET_DIR", &target)
        // what matters is the profile's semantics (no overflow checks, no debug assertions), not its speed
        .env("CARGO_PROFILE_RELEASE_OPT_LEVEL", "1")
        .env("CARGO_PROFILE_RELEASE_CODEGEN_UNITS", "64")
        .env("CARGO_PROFILE_RELEASE_DEBUG_ASSERTIONS", "false")
        .env("CARGO_PROFILE_RELEASE_OVERFLOW_CHECKS", "false")
        .output();
    match build {
        Ok(o) if o.status.success() => {}
        Ok(o) => return json!({"status": "not-built", "detail": String::from_utf8_lossy(&o.stderr).chars().take(800).collect::<String>()}),
        Err(e) => return json!({"status": "not-built", "detail": e.to_string()}),
    }
    let dir = cfg.outdir.join("release-child");
    let mut cmd = std::process::Command::new(format!("{target}/release/c07"));
    cmd.arg(&dir).env("VERIF_RELEASE_CHILD", "1").env("VERIF_TIER", "quick").env("VERIF_SEED", cfg.seed.to_string());
    if !replay {
        cmd.env_remove("VERIF_REPLAY");
    }
    let run = cmd.output();
    let stats: Option<Value> = std::fs::read_to_string(dir.join("stats.json")).ok().and_then(|s| serde_json::from_str(&s).ok());
    match (run, stats) {
        (Ok(o), Some(stats)) if o.status.success() => {
            for f in stats["oracle_failures"].as_array().cloned().unwrap_or_default() {
                out.fail(&format!("[release profile] {}", f["what"].as_str().unwrap_or("")), f["input"].clone(), f["expected"].clone(), f["got"].clone());
            }
            json!({"status": "ran", "wall_s": t0.elapsed().as_secs(), "evaluations": stats["evaluations"], "oracle_failures": stats["oracle_failure_count"]})
        }
        (r, _) => {
            let detail = match r {
                Ok(o) => format!("exit {:?}: {}", o.status.code(), String::from_utf8_lossy(&o.stderr).chars().take(600).collect::<String>()),
                Err(e) => e.to_string(),
            };
            out.fail("[release profile] the case list crashes the release build of the harness (aborted, not a panic)", json!({"profile": "release", "detail": detail}), json!("exit 0"), json!("crash"));
            json!({"status": "crashed", "detail": detail})
        }
    }
}

fn main() {
    let cfg = Cfg::from_env();
    let out = cfg.out();
    if std::env::var("VERIF_LOUD").is_err() {
        verif_harness::silence_panics();
    }
    let child = std::env::var("VERIF_RELEASE_CHILD").is_ok();
    let mut ctx = Ctx { out, hash_agree: 0, hash_differ: 0, profile: if child { "release" } else { "debug" } };
    if let Some(replay) = &cfg.replay {
        let input = &replay["failure"]["input"];
        if input["profile"].as_str() == Some("release") && !child {
            let r = release_child(&cfg, &mut ctx.out, true);
            ctx.out.extra("release_profile_child", r);
            ctx.out.finish("replay of one recorded case in the release-profile child");
            return;
        }
        if let Some(case) = Case::from_json(input) {
            let mut case = case;
            if input["mutable_carrier"].as_bool() == Some(true) && !is_mut_acc(&case.acc) {
                case.root_kind += 2;
            }
            ctx.eval(&case);
            ctx.out.finish("replay of one recorded case");
            return;
        }
    }
    let mut rng = Rng::new(cfg.seed);
    for (i, (h, w, ops)) in corner_chains().into_iter().enumerate() {
        ctx.chain(&mut rng, h, w, if i % 4 == 3 { 1 + i % 3 } else { 0 }, [0u8, 1, 2, RGBA_ELEM][i % 4], &ops);
    }
    if !std::env::var("VERIF_MIRI").is_ok() {
        for (i, (h, w, ops)) in tall_wide_chains().into_iter().enumerate() {
            ctx.chain(&mut rng, h, w, 0, [0u8, 1, 0, RGBA_ELEM, 0, CELL_ELEM][i % 6], &ops);
        }
    }
    // VERIF_MIRI: the same case list, cut down, for a run under the Miri interpreter (see `miri_support`)
    let under_miri = std::env::var("VERIF_MIRI").is_ok();
    let chains: u64 = if under_miri { 4 } else if cfg.thorough { 300_000 } else { 4_000 };
    for i in 0..chains {
        // zero extents are kept, but rare enough that most chains have something to select from
        let (h, w) = if cfg.thorough && i % 4000 == 1 {
            // a few roots with more than 300 cells
            (17 + rng.below(4) as usize, 18 + rng.below(3) as usize)
        } else if cfg.thorough && rng.chance(1, 12) {
            (1 + rng.below(20) as usize, 1 + rng.below(20) as usize)
        } else {
            (
                if rng.chance(1, 14) { 0 } else { 1 + rng.below(6) as usize },
                if rng.chance(1, 14) { 0 } else { 1 + rng.below(6) as usize },
            )
        };
        let extra = if rng.chance(1, 5) { 1 + rng.below(3) as usize } else { 0 };
        // RGBA cells bring `Image` in as a carrier of the read-side accessors
        let elem = if rng.chance(1, if cfg.thorough { 3 } else { 4 }) { *rng.pick(&[1u8, 2, RGBA_ELEM, RGBA_ELEM, CELL_ELEM]) } else { 0 };
        // the offscreen root is exactly h x w cells
        let extra = if elem == CELL_ELEM { 0 } else { extra };
        let steps = gen_chain(&mut rng, h, w, 5);
        let ops: Vec<Op> = steps.iter().map(|s| s.op).collect();
        if i % 997 == 0 {
            let c = Case { h, w, extra, elem, steps: steps.clone(), root_kind: 0, end_kind: 0, acc: "grid".into(), args: vec![], items: vec![] };
            ctx.out.sample(json!({"h": h, "w": w, "extra": extra, "elem": ELEMS[elem as usize], "chain": c.chain_token(), "window": spec_window(&c)}));
        }
        ctx.chain(&mut rng, h, w, extra, elem, &ops);
    }
    // zero-sized cells
    let zst: u64 = if under_miri { 4 } else if cfg.thorough { 20_000 } else { 300 };
    for _ in 0..zst {
        let h = rng.below(7) as usize;
        let w = rng.below(7) as usize;
        let steps = gen_chain(&mut rng, h, w, 4);
        let args = vec![rng.below(3) as usize, rng.below(4) as usize, if rng.chance(1, 3) { usize::MAX } else { 0 }, 0];
        ctx.eval(&Case { h, w, extra: 0, elem: ZST, steps, root_kind: 0, end_kind: 0, acc: "zst".into(), args, items: vec![] });
    }
    ctx.out.extra("element_types", json!({"u32": 4, "odd5": std::mem::size_of::<Odd5>(), "counted": std::mem::size_of::<Counted>(), "zst": 0}));
    ctx.out.extra("profile", json!(ctx.profile));
    ctx.out.extra("surface_hash_vs_independent_fnv1a", json!({"agree": ctx.hash_agree, "differ": ctx.hash_differ}));
    if !under_miri && !child {
        // both tiers: the release build is cached, the run takes half a second
        let r = release_child(&cfg, &mut ctx.out, false);
        ctx.out.extra("release_profile_child", r);
    }
    if cfg.thorough && !under_miri && !child {
        let m = miri_support(&cfg.outdir);
        ctx.out.extra("miri_support_only", m);
    }
    ctx.out.finish("corner chains + random chains: parents 0..=6 x 0..=6 (thorough: also up to 20 x 20 and some with more than 300 cells), new_with and from_vec roots, at most 5 view/transpose steps, selectors of all 7 forms over all 10 integer types (bounds near the axis, near 0 and at the type's MIN/MAX), 23 accessor runs per chain each on a fresh parent with a random mix of carriers (owned, &, &mut, view, view_mut, view_owned, as_ref, as_mut, parts()+new, Arc, Box<dyn>), element types u32 / 5-byte / drop-counting, plus chains over zero-sized cells; non-trivial = non-empty chain selecting a non-empty window; distinct by (request, answer)");
}
